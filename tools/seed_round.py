#!/usr/bin/env python3
"""tools/seed_round.py <suffix> — writes /tmp/seedprompts/cNN<suffix>.txt for every property, with the
sites of all earlier kept seeds of that property excluded (only the one-sentence summaries are
passed on: nothing about how the checks work)."""
import glob, json, os, subprocess, sys
suffix = sys.argv[1]
os.makedirs("/tmp/seedprompts", exist_ok=True)
for n in range(1, 21):
    pid = f"C{n:02d}"
    prev = []
    for d in sorted(glob.glob(f"/verif/seeded/c{n:02d}?")):
        prev.append(json.load(open(d + "/meta.json"))["summary"])
    tag = f"c{n:02d}{suffix}"
    hint = "\n\nADDITIONAL CONSTRAINTS: (1) earlier seeds for this property already changed these sites:\n" + "\n".join(f"   - {s}" for s in prev) + \
        f"\n  Choose a DIFFERENT site and a different failure mechanism from all of them, ideally in a different file of the anchored code, and prefer a fault that needs an unusual but legitimate input shape or feature combination rather than the most common one. (2) Other agents share git worktrees of /repo, so never use `git stash` (the stash is shared); to test without your change use `git diff > /tmp/seed_{tag}_my.diff && git checkout -- .` and re-apply with `git apply /tmp/seed_{tag}_my.diff`. (3) The file crates/cli/src/utils/verif_sched.rs and `#[cfg(ast_grep_verif)]` lines are test instrumentation compiled out in normal builds: leave them alone."
    out = subprocess.run([sys.executable, "/verif/tools/seed_prompt.py", pid, tag, hint], capture_output=True, text=True).stdout
    open(f"/tmp/seedprompts/{tag}.txt", "w").write(out)
    print(tag, len(prev), "earlier seeds")
