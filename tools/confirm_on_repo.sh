#!/bin/bash
# tools/confirm_on_repo.sh <tag>:<Check>[,<Check>] ...
# The sanctioned final confirmation of seeded faults ON /repo ITSELF, exactly as a user of the
# checks would run them: git -C /repo apply <patch>; ./check <id> --tier quick; git -C /repo checkout -- .
# Nothing else may be using /repo meanwhile. Appends one line per (seed, check) to
# /verif/seeded/on_repo.log: the exit code and the first VIOLATION line. The tree is restored
# after every seed, whatever happened, and verified clean at the end.
cd /verif || exit 2
if [ -n "$(git -C /repo status --porcelain)" ]; then echo "/repo is not clean" >&2; exit 2; fi
for it in "$@"; do
  tag=${it%%:*}; checks=${it#*:}
  patch=/verif/seeded/$tag/patch.diff
  if ! git -C /repo apply "$patch"; then echo "$tag patch-does-not-apply" >> seeded/on_repo.log; git -C /repo checkout -- .; continue; fi
  for c in ${checks//,/ }; do
    out=$(./check "$c" --tier quick 2>&1); code=$?
    first=$(echo "$out" | grep -m1 '^VIOLATION' )
    echo "$tag $c exit=$code ${first:-no-VIOLATION-line} (/repo at $(git -C /repo rev-parse --short HEAD) + seeded/$tag/patch.diff)" >> seeded/on_repo.log
  done
  git -C /repo checkout -- .
done
git -C /repo status --porcelain | grep -q . && { echo "/repo NOT clean after confirmation" >&2; exit 2; }
echo "done; /repo clean"
