#!/bin/bash
# usage: lane.sh tag:Check[,Check] ...
cd /verif
for it in "$@"; do tag=${it%%:*}; cs=${it#*:}; python3 tools/seedrun.py $tag ${cs//,/ } > .build/seedruns/$tag.log 2>&1; done
