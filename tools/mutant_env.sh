#!/bin/sh
# Usage: tools/mutant_env.sh <id>
# Creates a scratch worktree of /repo at /tmp/wt_<id> and a copy of the Rust harness at
# /tmp/wt_<id>_harness whose path dependencies point at that worktree, so a check can be tried
# against a mutated subject without touching /repo, /verif/harness or /verif/evidence.
# Run a harness check there with:
#   cd /tmp/wt_<id>_harness && cargo build --offline --bin cNN && \
#     VERIF_OUT=/tmp/wt_<id>_out LD_PRELOAD=/verif/.build/libverifseed.so ./target/debug/cNN --tier quick
# Run a python check there with:
#   cd /verif/pychecks && VERIF_REPO=/tmp/wt_<id> VERIF_OUT=/tmp/wt_<id>_out python3 -c "import sys,cNN; sys.exit(cNN.main(['--tier','quick']))"
# Clean up with: tools/mutant_env.sh --rm <id>
set -e
if [ "$1" = "--rm" ]; then
  id=$2
  git -C /repo worktree remove --force /tmp/wt_$id 2>/dev/null || true
  rm -rf /tmp/wt_$id /tmp/wt_${id}_harness /tmp/wt_${id}_out
  git -C /repo worktree prune
  exit 0
fi
id=$1
git -C /repo worktree add --detach /tmp/wt_$id HEAD >/dev/null
mkdir -p /tmp/wt_${id}_harness /tmp/wt_${id}_out
cp -r /verif/harness/Cargo.toml /verif/harness/Cargo.lock /verif/harness/vcore /tmp/wt_${id}_harness/
[ -d /verif/harness/vlsp ] && cp -r /verif/harness/vlsp /tmp/wt_${id}_harness/
find /tmp/wt_${id}_harness -name Cargo.toml -exec sed -i "s#/repo/crates#/tmp/wt_$id/crates#g" {} +
mkdir -p /tmp/wt_${id}_harness/.cargo
printf '[net]\noffline = true\n[build]\ntarget-dir = "/tmp/wt_%s_harness/target"\n' "$id" > /tmp/wt_${id}_harness/.cargo/config.toml
echo "worktree /tmp/wt_$id ; harness /tmp/wt_${id}_harness ; out /tmp/wt_${id}_out"
