#!/bin/bash
cd /verif
for c in "$@"; do s=$(date +%s); ./check $c --tier thorough > .build/thor_$c.log 2>&1; echo "$c exit=$? wall=$(( $(date +%s)-s ))s" >> .build/thor_summary.log; done
