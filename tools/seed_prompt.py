#!/usr/bin/env python3
"""prints the prompt for an independent seeding agent: property text only, nothing from /verif"""
import json, sys
pid, tag = sys.argv[1], sys.argv[2]
hint = sys.argv[3] if len(sys.argv) > 3 else ""
p = [json.loads(l) for l in open('/verif/properties.jsonl') if json.loads(l)['id'] == pid][0]
print(f"""You are a software engineer helping to evaluate a test/verification effort for the open-source Rust project ast-grep (structural code search / lint / rewrite tool, workspace with crates core, config, language, cli, lsp). The sandbox is offline: never use the network; `cargo` must be run with `--offline`.

Create your own scratch checkout and work ONLY there (never edit /repo itself, and do not look at or use anything under /verif):
  git -C /repo worktree add --detach /tmp/seed_{tag} HEAD
  cd /tmp/seed_{tag}    # builds go to /tmp/seed_{tag}/target (the default); first build takes a few minutes

Here is a semantic property that ast-grep is supposed to satisfy:

  Title: {p['title']}
  Statement: {p['statement']}
  Quantified over: {p['quantifier']['text']}
  Why the existing tests cannot settle it: {p['why_tests_cant']}
  Code the property is anchored in: {', '.join(p['anchors']['files'])}

YOUR TASK: make ONE small, realistic change to ast-grep's source code (the kind of slip a maintainer could plausibly make in a refactoring or "optimisation": an off-by-one, a dropped branch, a stale cache, a wrong operand, a missing reset, a reordered pair of statements, a forwarded call that is forgotten ...) that BREAKS this property, while
  (1) the whole workspace still compiles, and
  (2) the existing test suite still passes completely: run `cargo nextest run --workspace --no-fail-fast --offline` in your worktree (fallback `cargo test --workspace --no-fail-fast --offline`) and check there are no failures (it has 475 tests and takes well under a minute once built).
The change must NOT be something ordinary use would expose at once. It should need something specific to manifest: an unusual input shape, a particular combination of rule features, a multi-step sequence of operations, a particular interleaving or order, a fault at a particular point, or two cooperating sites that each look fine alone. {hint}
Do not add new files to the source tree other than what the change needs, do not touch tests, do not add dependencies, and keep the diff small (ideally < 15 changed lines).

Then write a DEMONSTRATION that fails with your change and passes without it: either a Rust integration test file (say how to run it, e.g. copy to `crates/<crate>/tests/seed_demo.rs` and `cargo test --offline -p <crate> --test seed_demo`) or a shell/python script that drives the built binary `target/debug/ast-grep` (use `ast-grep`, the `sg` alias binary does not work here). Verify BOTH directions yourself: with the change the demonstration fails, and after `git stash` (or on a clean checkout) it passes.

Deliverables, all under /tmp/seed_{tag}_out/ (create it):
  patch.diff   — `git -C /tmp/seed_{tag} diff` of the source change only (no demo files in it)
  demo.*       — the demonstration (test file or script), self-contained
  meta.json    — {{"property": "{pid}", "summary": "<one sentence: what was changed>", "needs_to_manifest": "<what specific input/sequence/order it needs>", "demo_run": "<exact commands to run the demonstration>", "test_suite": "<command you ran and its pass/fail counts with the change applied>"}}
When you are done, remove your build output to save disk: `rm -rf /tmp/seed_{tag}/target` (leave the worktree itself and the _out directory). Your final message: the contents of meta.json plus the diff.""")
