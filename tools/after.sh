#!/bin/bash
# wait for a lane pid to end, then run another lane
while kill -0 $1 2>/dev/null; do sleep 5; done
shift
exec /verif/.build/lane.sh "$@"
