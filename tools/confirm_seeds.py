#!/usr/bin/env python3
"""tools/confirm_seeds.py <tag> [<tag> ...]
Independent confirmation of seeded faults delivered under /tmp/seed_<tag>_out/ (patch.diff,
demo.*, meta.json), in ONE scratch worktree /tmp/cs (never /repo):
  1. the patch applies to /repo's HEAD and the workspace compiles,
  2. the repository's own suite passes with the patch (cargo nextest, 475 tests),
  3. the demonstration FAILS with the patch and PASSES without it.
Confirmed seeds are copied to /verif/seeded/<tag>/ with a meta.json that records what was run."""
import json, os, re, shutil, subprocess, sys, glob
WT = "/tmp/cs"
ENV = dict(os.environ, CARGO_NET_OFFLINE="true", AST_GREP="/tmp/cs/target/debug/ast-grep")
def sh(cmd, **kw):
    return subprocess.run(cmd, shell=isinstance(cmd, str), capture_output=True, text=True, env=ENV, **kw)
def ensure_wt():
    head = sh("git -C /repo rev-parse HEAD").stdout.strip()
    if not os.path.exists(WT):
        sh(f"git -C /repo worktree add --detach {WT} HEAD")
    sh(f"git -C {WT} checkout -q -- . && git -C {WT} clean -fdq -e target && git -C {WT} checkout -q --detach {head}")
    return head
def run_demo(tag, meta, demo):
    if demo.endswith(".rs"):
        m = re.search(r"cargo test[^#]*?-p\s+(ast-grep[\w-]*)", meta["demo_run"])
        crate = m.group(1)
        cdir = {"ast-grep-core": "core", "ast-grep-config": "config", "ast-grep-language": "language", "ast-grep": "cli", "ast-grep-lsp": "lsp"}[crate]
        os.makedirs(f"{WT}/crates/{cdir}/tests", exist_ok=True)
        shutil.copy(demo, f"{WT}/crates/{cdir}/tests/seed_demo.rs")
        r = sh(f"cargo test --offline -p {crate} --test seed_demo", cwd=WT)
        os.remove(f"{WT}/crates/{cdir}/tests/seed_demo.rs")
        return r.returncode, (r.stdout + r.stderr)[-600:]
    b = sh("cargo build --offline -p ast-grep --bin ast-grep", cwd=WT)
    if b.returncode != 0:
        return 99, b.stderr[-600:]
    interp = "python3" if demo.endswith(".py") else "bash"
    r = sh(f"{interp} {demo} {WT}/target/debug/ast-grep", cwd=WT)
    if r.returncode != 0 and any(w in r.stdout + r.stderr for w in ("not found", "missing", "Not a directory", "build failed")):
        # some demonstrations take the checkout directory instead of the binary
        r = sh(f"{interp} {demo} {WT}", cwd=WT)
    return r.returncode, (r.stdout + r.stderr)[-600:]
for tag in sys.argv[1:]:
    out = f"/tmp/seed_{tag}_out"
    meta = json.load(open(f"{out}/meta.json"))
    demo = [f for f in glob.glob(f"{out}/demo.*")][0]
    head = ensure_wt()
    a = sh(f"git -C {WT} apply --3way {out}/patch.diff")
    if a.returncode != 0:
        print(tag, "PATCH DOES NOT APPLY", a.stderr[-300:]); continue
    sh(f"git -C {WT} reset -q")
    t = sh("cargo nextest run --workspace --no-fail-fast --offline", cwd=WT)
    summ = re.search(r"Summary.*", t.stdout + t.stderr)
    suite_ok = t.returncode == 0
    code_with, tail_with = run_demo(tag, meta, demo)
    sh(f"git -C {WT} checkout -q -- .")
    code_without, tail_without = run_demo(tag, meta, demo)
    ok = suite_ok and code_with != 0 and code_with != 99 and code_without == 0
    print(tag, "CONFIRMED" if ok else "NOT CONFIRMED", "| suite:", summ.group(0).strip() if summ else t.returncode, "| demo with patch exit", code_with, "| without", code_without, flush=True)
    if not ok:
        print("   with:", tail_with[-300:].replace("\n", " | ")); print("   without:", tail_without[-300:].replace("\n", " | "))
        continue
    d = f"/verif/seeded/{tag}"
    os.makedirs(d, exist_ok=True)
    shutil.copy(f"{out}/patch.diff", d); shutil.copy(demo, d)
    meta["confirmed_by_lead"] = {"repo_head": head, "suite": summ.group(0).strip() if summ else "exit 0",
        "demo_with_patch_exit": code_with, "demo_without_patch_exit": code_without,
        "how": "tools/confirm_seeds.py in scratch worktree /tmp/cs: git apply; cargo nextest run --workspace --offline; demo; git checkout; demo"}
    json.dump(meta, open(f"{d}/meta.json", "w"), indent=1)
