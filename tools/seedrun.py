#!/usr/bin/env python3
"""tools/seedrun.py <tag> <check> [<check> ...] [--tier quick]
Try checks against a seeded fault WITHOUT touching /repo: creates /tmp/wt_s<tag> (+ harness copy),
applies /tmp/seed_<tag>_out/patch.diff (or /verif/seeded/<tag>/patch.diff) there, runs each named
check's quick tier with VERIF_REPO / VERIF_OUT pointing at the scratch copies, prints the exit
codes and the VIOLATION sigs, and removes everything. The sanctioned final confirmation
(git -C /repo apply; ./check ...; git -C /repo checkout -- .) is tools/confirm_seed.sh."""
import importlib.machinery, importlib.util, json, os, subprocess, sys
VERIF = "/verif"
tag = sys.argv[1]
checks = [a for a in sys.argv[2:] if not a.startswith("--")]
tier = "thorough" if "--thorough" in sys.argv else "quick"
keep = "--keep" in sys.argv
loader = importlib.machinery.SourceFileLoader("checkdrv", os.path.join(VERIF, "check"))
spec = importlib.util.spec_from_loader("checkdrv", loader); drv = importlib.util.module_from_spec(spec); loader.exec_module(drv)
wt, hz, out = f"/tmp/wt_s{tag}", f"/tmp/wt_s{tag}_harness", f"/tmp/wt_s{tag}_out"
subprocess.run([os.path.join(VERIF, "tools/mutant_env.sh"), "--rm", "s" + tag])
subprocess.run([os.path.join(VERIF, "tools/mutant_env.sh"), "s" + tag], check=True, stdout=subprocess.DEVNULL)
patch = f"/tmp/seed_{tag}_out/patch.diff"
if not os.path.exists(patch):
    patch = os.path.join(VERIF, "seeded", tag, "patch.diff")
r = subprocess.run(["git", "-C", wt, "apply", "--3way", patch], capture_output=True, text=True)
if r.returncode != 0:
    r = subprocess.run(["git", "-C", wt, "apply", patch], capture_output=True, text=True)
    if r.returncode != 0:
        print("PATCH DOES NOT APPLY:", r.stderr[-500:]); sys.exit(2)
env = dict(os.environ, CARGO_NET_OFFLINE="true", VERIF_OUT=out, LD_PRELOAD=os.path.join(VERIF, ".build/libverifseed.so"), VERIF_HASH_SEED="0")
results = {}
for c in checks:
    worst = 0
    sigs = []
    for kind, name in drv.steps_of(c):
        if kind == "rust":
            b = subprocess.run(["cargo", "build", "--offline", "--quiet", "--bin", name], cwd=hz, env=env, capture_output=True, text=True)
            if b.returncode != 0:
                print(b.stderr[-2000:]); worst = 2; break
            r = subprocess.run([os.path.join(hz, "target/debug", name), "--tier", tier], cwd=VERIF, env=env, capture_output=True, text=True)
        else:
            e2 = dict(env, VERIF_REPO=wt)
            e2.pop("LD_PRELOAD")
            fb = subprocess.run(["cargo", "build", "--offline", "--quiet", "--bin", "frontends"], cwd=hz, env=env, capture_output=True, text=True)
            e2["VERIF_FRONTENDS"] = os.path.join(hz, "target/debug/frontends")
            r = subprocess.run([sys.executable, "-c", f"import sys; sys.path.insert(0, '{VERIF}/pychecks'); import {name}; sys.exit({name}.main(['--tier','{tier}']))"], cwd=VERIF, env=e2, capture_output=True, text=True)
        worst = max(worst, r.returncode if r.returncode in (0, 1) else 2)
        for l in (r.stderr + r.stdout).splitlines():
            if l.startswith("violation class sig="):
                sigs.append(l[len("violation class sig="):].split(" cases=")[0] + " x" + l.split(" cases=")[1].split(" ")[0])
        if r.returncode not in (0, 1):
            print(f"[{c}/{name}] exit {r.returncode}: {(r.stderr + r.stdout)[-800:]}")
    results[c] = {"exit": worst, "sigs": sigs[:8]}
    print(c, "exit", worst, "sigs", sigs[:6], flush=True)
if not keep:
    subprocess.run([os.path.join(VERIF, "tools/mutant_env.sh"), "--rm", "s" + tag])
print(json.dumps(results))
