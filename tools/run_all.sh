#!/bin/sh
# tools/run_all.sh [quick|thorough] — runs every registered check once, prints one line each
tier=${1:-quick}
cd /verif
for i in 01 02 03 04 05 06 07 08 09 10 11 12 13 14 15 16 17 18 19 20; do
  s=$(date +%s)
  out=$(./check C$i --tier $tier 2>&1); code=$?
  e=$(date +%s)
  echo "C$i exit=$code wall=$((e-s))s $(echo "$out" | grep -c '^VIOLATION') violation-lines $(echo "$out" | grep -c '^KNOWN-FINDING') known-lines"
done
