#!/usr/bin/env python3
"""tools/asbuilt.py — print a markdown table 'what each check explored at its last run' from
/verif/evidence/*.json (used to refresh DESIGN.md §8; the evidence files stay the source of truth)."""
import json, glob, textwrap
print("| property | level | tier | evaluations | distinct non-trivial | wall (s) | exhaustive within bounds |")
print("|---|---|---|---|---|---|---|")
rules = []
for f in sorted(glob.glob('/verif/evidence/C*.json')):
    e = json.load(open(f)); c = e.get('coverage', {})
    print(f"| {e['property_id']} | {e['level']} | {e['tier']} | {c.get('evaluations')} | {c.get('distinct_nontrivial')} | {e.get('wall_s')} | {c.get('exhaustive')} |")
    rules.append((e['property_id'], c.get('rule', '')))
print()
for p, r in rules:
    print(f"* **{p}** — {r}")
