#!/usr/bin/env python3
"""tools/coverage.py [Cxx ...] — DIAGNOSTIC, not a check: which lines of ast-grep's source do the
quick tiers execute at all? Builds a scratch worktree of /repo and a copy of the harness with
`-C instrument-coverage` (nightly toolchain, whose llvm-tools are installed), runs the named checks'
quick tiers there (evidence goes to the scratch out dir), merges the profiles and writes
/verif/notes/coverage/<file>.txt (llvm-cov show, uncovered lines marked) and summary.txt.
Code that no check executes is code in which a seeded fault cannot be seen: the alphabets are
widened where this report shows an anchored file with uncovered logic."""
import glob, importlib.machinery, importlib.util, json, os, shutil, subprocess, sys
VERIF = "/verif"
checks = [a for a in sys.argv[1:] if not a.startswith("--")] or [f"C{i:02d}" for i in range(1, 21)]
loader = importlib.machinery.SourceFileLoader("checkdrv", os.path.join(VERIF, "check"))
spec = importlib.util.spec_from_loader("checkdrv", loader); drv = importlib.util.module_from_spec(spec); loader.exec_module(drv)
wt, hz, out, prof = "/tmp/wt_cov", "/tmp/wt_cov_harness", "/tmp/wt_cov_out", "/tmp/wt_cov_prof"
if "--keep" not in sys.argv or not os.path.exists(wt):
    subprocess.run([os.path.join(VERIF, "tools/mutant_env.sh"), "--rm", "cov"])
    subprocess.run([os.path.join(VERIF, "tools/mutant_env.sh"), "cov"], check=True, stdout=subprocess.DEVNULL)
shutil.rmtree(prof, ignore_errors=True); os.makedirs(prof)
tools = os.path.expanduser("~/.rustup/toolchains/nightly-x86_64-unknown-linux-gnu/lib/rustlib/x86_64-unknown-linux-gnu/bin")
env = dict(os.environ, CARGO_NET_OFFLINE="true", VERIF_OUT=out, LD_PRELOAD=os.path.join(VERIF, ".build/libverifseed.so"), VERIF_HASH_SEED="0",
           RUSTUP_TOOLCHAIN="nightly", RUSTFLAGS="-C instrument-coverage", VERIF_EXTRA_RUSTFLAGS="-C instrument-coverage",
           LLVM_PROFILE_FILE=os.path.join(prof, "p-%8m.profraw"))
objects = set()
for c in checks:
    for kind, name in drv.steps_of(c):
        if kind == "rust":
            b = subprocess.run(["cargo", "build", "--offline", "--quiet", "--bin", name], cwd=hz, env=env, capture_output=True, text=True)
            if b.returncode != 0:
                print(b.stderr[-1500:]); continue
            exe = os.path.join(hz, "target/debug", name); objects.add(exe)
            r = subprocess.run([exe, "--tier", "quick"], cwd=VERIF, env=env, capture_output=True, text=True)
        else:
            e2 = dict(env, VERIF_REPO=wt); e2.pop("LD_PRELOAD"); e2.pop("RUSTFLAGS")
            subprocess.run(["cargo", "build", "--offline", "--quiet", "--bin", "frontends"], cwd=hz, env=env, capture_output=True, text=True)
            e2["VERIF_FRONTENDS"] = os.path.join(hz, "target/debug/frontends"); objects.add(e2["VERIF_FRONTENDS"])
            r = subprocess.run([sys.executable, "-c", f"import sys; sys.path.insert(0, '{VERIF}/pychecks'); import {name}; sys.exit({name}.main(['--tier','quick']))"], cwd=VERIF, env=e2, capture_output=True, text=True)
        print(c, name, "exit", r.returncode, flush=True)
for t in ("target-verif-repo", "target-verif-repo-hooks"):
    exe = os.path.join(wt, t, "debug/ast-grep")
    if os.path.exists(exe):
        objects.add(exe)
raws = glob.glob(prof + "/*.profraw")
print(len(raws), "profile files;", len(objects), "binaries")
subprocess.run([tools + "/llvm-profdata", "merge", "-sparse", "-o", prof + "/all.profdata"] + raws, check=True)
objs = sorted(objects)
oargs = [objs[0]] + [x for o in objs[1:] for x in ("--object", o)]
dest = os.path.join(VERIF, "notes/coverage"); shutil.rmtree(dest, ignore_errors=True); os.makedirs(dest)
srcs = sorted(glob.glob(wt + "/crates/*/src/**/*.rs", recursive=True))
rep = subprocess.run([tools + "/llvm-cov", "report", "--instr-profile", prof + "/all.profdata"] + oargs + srcs, capture_output=True, text=True)
open(dest + "/summary.txt", "w").write(rep.stdout.replace(wt + "/", ""))
ex = subprocess.run([tools + "/llvm-cov", "export", "--format=lcov", "--instr-profile", prof + "/all.profdata"] + oargs + srcs, capture_output=True, text=True)
# uncovered executable lines per file (tests modules excluded by a crude rule: after `#[cfg(test)]`)
cur, unc = None, {}
for l in ex.stdout.splitlines():
    if l.startswith("SF:"):
        cur = l[3:]; unc[cur] = []
    elif l.startswith("DA:") and cur:
        n, h = l[3:].split(",")[:2]
        if h == "0":
            unc[cur].append(int(n))
with open(dest + "/uncovered.txt", "w") as f:
    for path in sorted(unc):
        lines = open(path).read().splitlines()
        cut = next((i for i, t in enumerate(lines) if t.strip().startswith("#[cfg(test)]")), len(lines))
        miss = [n for n in unc[path] if n <= cut]
        if not miss:
            continue
        f.write(f"== {path.replace(wt + '/', '')}: {len(miss)} uncovered lines outside tests\n")
        for n in miss:
            f.write(f"{n:5d}: {lines[n-1]}\n")
print(rep.stdout.replace(wt + "/", "")[-3000:])
if "--keep" not in sys.argv:
    subprocess.run([os.path.join(VERIF, "tools/mutant_env.sh"), "--rm", "cov"]); shutil.rmtree(prof, ignore_errors=True)
