#!/usr/bin/env python3
"""Regenerates MANIFEST.json from the table below (single source of truth for the interface)."""
import json, os
HERE = os.path.dirname(os.path.abspath(__file__))
ALL = ["C%02d" % i for i in range(1, 21)]

# property -> dict(level, text, note, technique, engine, design_ref)
CLAIMED = {
  "C14": dict(level="exploration", engine="E1",
    text="Bounded-exhaustive exploration: every source of <= 3 (thorough <= 4) lines over a 36-letter line alphabet (blank / r1 finding / r2 finding / both nested / both sequential / non-matching statement x no comment or `ast-grep-ignore` with id list none, r1, r2, `r1, r2`, r3; own-line or trailing) in JavaScript, Python and Html, x rule sets {r1},{r2},{r1,r2} x separate_fix in {false,true}, plus id-list spelling variants and an indented-block variant; the real CombinedScan::scan (rules via from_yaml_string, unused-suppression enabled) is compared per rule id and per unused comment with the reference set comprehension ref_suppress computed from the planted layout. Quick 455 760 cases / 911 520 scans, thorough 16.4e6 cases.",
    note="Comments are generated, single-line and well-formed; trailing comments follow single-line statements; findings never span lines; container (matches vs diffs) and order are not judged; the CLI layer and other comment syntaxes (CSS) are not covered.",
    technique="bounded-exhaustive enumeration of source layouts against a reference set comprehension",
    design_ref="DESIGN.md §3 C14, Appendix A.3"),
  "C08": dict(level="exploration", engine="E1-CLI+E3",
    text="Bounded-exhaustive cross product of a fixed rule pool (string and object-form fixes; expandStart / expandEnd / both / stopBy variants; pattern, kind, any, relational matchers; 16 JavaScript rules, thorough +6 JS, 5 Python, 5 Rust) with every sequence of <= 3 (thorough <= 4) statements from a 7 (8) statement alphabet; each (rule, source) is observed through scan --json, scan -U, `sg test -U` snapshots, the library (make_edit, Node::replace, replace_all, AstGrep::replace) and the real language server (diagnostics, quick-fix, fix-all via the E3 executor) and judged for identical (byte range, replacement); quick 6 384 cases / 57 456 front-end comparisons, thorough 103 800 / 934 200.",
    note="Agreement oracle plus one anchor (for expansions the announced range is also compared with a range computed from hand-written token trees, so a bug shared by all front ends is not invisible); trimming of trailing punctuation cannot occur through rule matchers and is exercised only as agreement; `ast-grep run` is observed and counted, not judged; -U is judged only when announced edits are disjoint (C18 covers overlaps).",
    technique="bounded-exhaustive enumeration of (rule, source) pairs; differential comparison of five front ends of the real binary / library / LSP service",
    design_ref="DESIGN.md §3 C08"),
  "C17": dict(level="model_checking", engine="E2",
    text="Stateless model checking of the real binary's producer/consumer core: ast-grep built with --cfg ast_grep_verif runs its T walker threads and the printer thread under a cooperative scheduler (schedule points: take next path, every tx.send, every rx.recv; the consumer is blocked, not spinning, while the channel is empty); the outer explorer enumerates every schedule by DFS over choice prefixes with iterative preemption bounding (quick: T=1; T=2 bound 2; T=3 bound 1; thorough T<=3 bound 2-3) on directories of colliding files (same rules in two files, a host+injected-language .html), crossed with every subset of {empty, non-UTF-8, unreadable} files, the three JSON styles and --update-all; every schedule is one execution of the real binary and replays identically. Oracle: records == union of single-file runs, output well-formed, exit status and error summary as implied by the findings, no deadlock.",
    note="Real under E2: the run_worker closure body, produce_item, the std mpsc channel, Items::next, consume_items, all printers, error_count, the exit path. Substituted: the `ignore` crate's distribution of entries to threads (only covered by a supplementary sampled pass at -j 1..16 that is reported, not deciding). Unreadable files are injected at a fault point in read_file (the sandbox is root).",
    technique="stateless model checking of the implementation under a controlled scheduler (cfg hooks) with preemption bounding, crossed with exhaustive fault-subset enumeration",
    design_ref="DESIGN.md §3 C17, Appendix B.1"),
  "C12": dict(level="exploration", engine="E1",
    text="Bounded-exhaustive exploration: every one-perturbation neighbour of every base rule document of a cross product of valid parts (rule with 1-2 variables or an ellipsis, utils used directly and under all/any/not/inside/has incl. chains and nthChild.ofRule, constraints incl. one binding a further variable, 0-3 chained transforms, 0-2 (nested) rewriters, fix in string form and three object forms) is loaded through from_yaml_string (quick 6 400 bases / 395 812 distinct perturbed documents, thorough 33 712 / 1 962 609): a document the reference analysis ref_vars calls inconsistent (undefined variable in fix / transform source / constraints key, unresolved matches or rewriter id, transform cycle, same-node utility cycle through matches/all/any/not/nthChild.ofRule, no kind-bearing atom) must be rejected; and every base document is run on a matching source, its fix text (string and object form) and message compared with a reference template expansion over the match environment.",
    note="Only-if direction only (documents ref_vars still considers valid are loaded but not judged); all subject calls run in restartable child processes so a stack overflow is attributed to the case in flight; JavaScript only; cycles through relational operators are not generated (they move to another node; crash-freedom there is C11's subject).",
    technique="bounded-exhaustive enumeration of a rule-document space and its complete distance-one perturbation neighbourhood against a reference consistency analysis and a reference template expander",
    design_ref="DESIGN.md §3 C12"),
  "C09": dict(level="model_checking", engine="E3",
    text="Model checking of the real language server: (1) explicit-state BFS over canonical document-map states {doc -> (version, text)} for every open/change/close over 2 documents x versions {1,2,3} in any order (stale versions included) x 3 texts, each transition replayed on the real tower-lsp LspService<Backend> with handlers run to completion (100 states, 1 440 judged transitions + 2 360 crash probes for protocol-violating operations); (2) engine E3: for every protocol-valid history of <= 4 (thorough 5) notifications over a 7-operation alphabet, every environment schedule (Deliver next notification / client reads one server message / client answers the oldest server request, <= 4 handlers in flight in a real FuturesUnordered with the real bounded client channel) with <= 2 (thorough 3) deviations from drain-immediately/answer-promptly/deliver-when-idle (quick 8 843, thorough 283 571 schedules), executed in child processes under a watchdog so that a handler blocking the thread is reported as a hang. Oracle: at quiescence the last publishDiagnostics of every open document carries the highest received version and that text's findings. Part A (pychecks/c09_cli.py, merged under coverage.cli_layer): every subset of size 1..3 of 6 JavaScript rules (41 rule sets: all severities, messages with $A, $$$REST, a transformed variable, a constraint, a relational rule, two rules on one node) x every distinct text of <= 3 (thorough 4) elements of a 6-element line alphabet with/without final LF (19 434 / 116 850 pairs): the multiset of (rule id, byte range, message, severity) must be identical in the library, the diagnostics the real language server publishes on didOpen, and `scan --json=pretty|stream|compact`; `scan --stdin` must equal the file scan; `--format github` must agree on level/title/lines/message; `sg test --skip-snapshot-tests` must accept every source placed in the list the library predicts and reject every source placed in the wrong list.",
    note="The executor replaces real socket timing by explicit Deliver/Drain/Answer steps and reproduces Server::serve's structure, it is not Server::serve itself; states with equal reference document maps are merged; equal-version changes, re-open without close and change-before-open are only probed for crashes. Part A: note/url/fix absent and message non-empty (LSP decorations outside the alphabet); BMP characters only; the GitHub format has no columns and cannot express `hint` (counted, not required); quick runs --stdin only for texts of <= 2 elements.",
    technique="explicit-state BFS over notification histories plus stateless deviation-bounded exploration of environment schedules on the real async handlers (controlled single-threaded executor)",
    design_ref="DESIGN.md §3 C09, Appendix B.2"),
  "C16": dict(level="exploration", engine="E1-CLI",
    text="Bounded-exhaustive exploration of the real binary's output: every file content that is a sequence of <= 3 (thorough <= 4) line kinds from {ASCII statement, multi-byte inside the match, multi-byte before the match, CRLF line, 600-column line, blank, non-matching, two-line match, multi-argument calls, ...}, with/without final newline, x 127 output modes (run foo($A) / foo($$$ARGS) / -r rewrite x --json=pretty|stream|compact x -A/-B in {0,1,2}^2 and -C 1|2; scan -r with string and expandEnd fix x 3 styles; plain report --color never --heading never x the same contexts), plus every directory of <= 3 (thorough 4) files over {1 match, 2 matches, no match}; every JSON record (text, range, lines, charCount), meta-variable node, replacementOffsets, JSON well-formedness and every path:line:text entry is compared with a reference computed from the file bytes. Quick: 2 712 CLI runs, 353 010 records, 1.4e6 positions.",
    note="JavaScript only; where the statement is silent (whether the CR of a CRLF terminator belongs to the line text; whether the empty string after the final newline is a context line) both readings are accepted and counted in the evidence; plain-report rows that are not path:line:text are not judged.",
    technique="bounded-exhaustive enumeration of file contents x output modes on the real binary, compared with a byte-level reference model (ref_position / ref_lines)",
    design_ref="DESIGN.md §3 C16"),
  "C13": dict(level="exploration", engine="E4",
    text="Bounded-exhaustive order enumeration: 10 small projects, each isolating one order-sensitive mechanism (utils through composite rules, utils through relational rules/stopBy/nthChild.ofRule, chained transforms, constraints x3, rewriters, rule files + utilDirs, languageGlobs x2); ALL permutations of the textual key/list/file-name order (quick 50, thorough 162) x owned hash seeds 0..S (quick 9, thorough 49) x 2 launches (-j 1 / default threads); in every cell scan --json=stream, test --update-all + test, scan --update-all run on the real binary (quick 3 386 / thorough 61 546 CLI runs); the canonical finding multiset (rule id, file, byte range, text, message, severity, note, replacement, offsets), exit codes, snapshot bytes and sources after -U must be identical across each project's whole grid.",
    note="Hash seeds are owned through the LD_PRELOAD getrandom shim (a failing cell replays identically); the evidence reports how many distinct raw stdout orderings the seed sweep produced per project; metaVariables ranges in JSON records are counted, not judged; thread scheduling beyond -j 1 vs default is C17's subject.",
    technique="exhaustive enumeration of key-order permutations x owned HashMap seeds x relaunch against the real binary; constancy oracle along rerun / hash-seed / text-order edges",
    design_ref="DESIGN.md §3 C13, Appendix B.3"),
  "C15": dict(level="exploration", engine="E1-CLI",
    text="Bounded-exhaustive CLI grid: every (layout over 4 directories x 5 extensions, languageGlobs setting, files/ignores combination from a closed glob list, severity assignment, override command line incl. per-id flags, bare flags and --filter) of a factorised space is run through the real `ast-grep scan --json=stream` from the project root and compared with the reference selector ref_select on every (file, rule id) pair and on the exit-code class; quick 1 505 runs / 58 215 pair decisions, thorough 16 131 runs / 585 183.",
    note="Union of complete cross products (factorisation stated in the evidence), not one global product; statement-silent cases are kept out by alphabet guards (one id on two flags, two bare flags, --filter matching nothing, globs where `*` crossing `/` matters, languageGlobs contradicting the extension table); bare + per-id flag precedence judged as per-id wins.",
    technique="bounded-exhaustive enumeration of configurations x project layouts on the real binary, differential against a reference selector",
    design_ref="DESIGN.md §3 C15, Appendix A.4"),
  "C18": dict(level="model_checking", engine="E1-BFS-CLI",
    text="Explicit-state model checking over file-tree states: every command sequence of length <= 3 (thorough 4) over 5 (9) commands (`scan -U` with a multi-document rule file / a project / inline rules / --filter, `run -p -r [-l] -U` incl. a self-re-matching rewrite) from 5 (7) initial projects covering overlapping and disjoint fixes by several rules in one file, CRLF + multi-byte, an .html file with host and <script> fixes, adjacent edits and no-match files; states deduplicated by tree hash; every transition (quick 250 / thorough 7 416) is executed by the real binary twice (--json=stream on one copy, -U on another) and the complete resulting tree and the `Applied N changes` count are compared with the reference splice of the announcement.",
    note="Exhaustive within depth and alphabet; states at the depth bound are reached but not expanded; the acceptance order among overlapping edits of different rules is left free where --json itself is hash-ordered (document order or any rule-group order accepted; 0 unjudged cases observed); offsets/text of the announcement are taken as given (C08 relates them to the rule).",
    technique="explicit-state BFS with state hashing over CLI command histories; differential oracle (reference splice of --json announcement vs. on-disk tree)",
    design_ref="DESIGN.md §3 C18"),
  "C20": dict(level="exploration", engine="E1",
    text="Bounded-exhaustive exploration of the small notations: (a) every spelling $^k name (k<=3, name <= 3 symbols over {A,a,1,_}) alone and in a per-language carrier pattern in all 23 languages, judged whenever the grammar reads the spelling as one leaf, against a reference classifier; (b) every An+B string <= 5 (thorough 6) symbols over {n,N,+,-,0,1,2,9,space} plus long digit runs through the real nthChild rule on 12 siblings x reverse against unbounded-integer semantics; (c) substring on every text <= 4 chars over {a,é,crab} x 14x14 start/end pairs through the real transform path against Python slices; (d) every fix template <= 6 (thorough 7) symbols over {$,A,b,1,_,space}: used_vars and output against a reference scanner.",
    note="Spellings the statement does not fix are counted, not judged (sigil-free names containing `_`, digit-first names after a sigil, underscore-first names in templates); formulas whose coefficients exceed 32 bits may be refused with an error but must not crash.",
    technique="bounded-exhaustive enumeration of notation strings against reference models",
    design_ref="DESIGN.md §3 C20, Appendix A.5"),
  "C10": dict(level="model_checking", engine="E1-BFS",
    text="Explicit-state model checking over edit histories: states are document texts, transitions are edits (every char-boundary position x deletions {0,1,2,node length} x a 9-string insertion alphabet incl. newline and multi-byte, plus AstGrep::replace from real matches) executed by the real AstGrep::edit/replace; breadth-first to depth 2 (thorough 3) from corpus snippets and generated error-free programs in 7 (thorough 14) languages; after every transition source() must equal the reference splice and, when the new text parses without errors, the incremental tree (kind, named, byte range, points of every node) must equal a fresh parse. ~2e6 transitions in the quick tier, all executed on the implementation.",
    note="States with equal text are merged (sound while the invariant holds: the tree then is the fresh tree); deeper levels expand only error-free states below a length cap stated in the evidence; tree-sitter's own incremental parser is part of the subject.",
    technique="explicit-state BFS over operation histories with an invariant checked in every state (stateless re-execution of histories on the real code)",
    design_ref="DESIGN.md §3 C10"),
  "C04": dict(level="exploration", engine="E1",
    text="Bounded-exhaustive exploration of rule programs that share variable names: every operator (all/any/not, inside/has/precedes/follows x stopBy) applied to depth 2 (thorough: a slice of depth 3) over pattern atoms sharing $A/$B, plus matches-of-utility documents and constraints maps, on sources that contain every sequence (all permutations with repetition) of <= 3 (thorough 4) statements as siblings, arguments and nesting chains, so every 'failing candidate binds before the succeeding one' order exists. Verdict and bindings (by extent) on every node are compared with a reference evaluator that copies the environment on entry, so a failed alternative cannot leave a trace by construction. ~2.7e8 (document, node) evaluations in the quick tier.",
    note="Pattern atoms inside the reference are the real Pattern matcher on a cloned environment; constraints that re-bind a bound name or are keyed by a constraint-bound name are outside the alphabet (statement silent; order dependence there is C13's subject).",
    technique="bounded-exhaustive enumeration of rule programs x permuted inputs, differential against a copy-on-entry reference evaluator",
    design_ref="DESIGN.md §3 C04, Appendix A.2"),
  "C01": dict(level="exploration", engine="E1",
    text="Bounded-exhaustive exploration: for every matcher (accepted patterns <= 3 tokens and cut patterns x 5 strictness, contextual patterns, kind matchers, rule cores to depth 2, utility graphs whose dependencies run through composite operators, relations, stopBy and nthChild.ofRule in all 3! registration orders) and every tree of token strings <= L: Node::find_all equals per-node brute force, every brute-force match has its kind inside potential_kinds, overlap-free traversal and replace_all equal the outermost filter, and CombinedScan (both modes, every subset <= 3 of a rule pool, both input orders) equals per-rule brute force. CLI layer: sg run/scan over a grid of (pattern, strictness, selector, files) compared with the library result on the same bytes, including files that lack the pattern's longest literal.",
    note="Brute force uses the matcher's own match_node, so a kind cache that is wrong inside a composite (All/Any/RuleCore) is C05's subject (reference evaluator), not this check's; hash seeds owned via the getrandom shim.",
    technique="bounded-exhaustive enumeration of (matcher, source) pairs; accelerated search differential against per-node brute force",
    design_ref="DESIGN.md §3 C01"),
  "C02": dict(level="exploration", engine="E1",
    text="Bounded-exhaustive exploration in all 23 grammars: for every error-free node of every tree of token strings <= L (+ corpus), every way of replacing <= 2 (thorough 3) non-overlapping named descendants by distinct $V holes and every trailing run of named siblings by $$$V; whenever the cut pattern parses to the node's shape (checked on the public PatternNode tree) it must match the node at all five strictness levels and bind each hole to exactly the replaced extent. ~1.3e7 (cut, strictness) evaluations in the quick tier.",
    note="Cuts whose pattern text does not re-parse to the same shape are counted, not judged (the property's precondition); bindings are compared by byte extent.",
    technique="bounded-exhaustive enumeration of (source, node, hole set) cuts with a round-trip oracle",
    design_ref="DESIGN.md §3 C02"),
  "C03": dict(level="exploration", engine="E1",
    text="Bounded-exhaustive exploration: every (pattern, strictness, node) triple for all accepted patterns <= P tokens over source tokens + the six hole spellings, plus every pattern cut (0/1 hole or a trailing $$$ run) from another source, against every node of every tree of token strings <= L; each reported match must be justified by an independent backtracking alignment relation written from the strictness table (DESIGN A.1), and get_match_len must not panic, exceed the node or split a child. ~2.7e9 triples, ~6e7 reported matches in the quick tier.",
    note="ref_align is deliberately the most permissive legal alignment, so only the direction impl-match => legal is asserted; unnamed pattern tokens may stay unmatched at every strictness.",
    technique="bounded-exhaustive enumeration of (pattern, node, strictness) triples checked against a reference alignment relation",
    design_ref="DESIGN.md §3 C03, Appendix A.1"),
  "C05": dict(level="exploration", engine="E1",
    text="Bounded-exhaustive exploration of rule programs: every rule tree of depth <= 2 (thorough: same depth, L+1 sources, 8 languages) over per-language atoms and all operators (all/any/not, inside/has/precedes/follows x stopBy x field, nthChild An+B/reverse/ofRule, multi-key objects), loaded through the real YAML deserialiser, evaluated on every node of every tree from token strings <= L, and compared with an independent recursive reference evaluator (DESIGN A.2). ~7e8 (rule,node) evaluations in the quick tier.",
    note="Atoms (pattern/kind/regex) inside the reference are the real matchers (their semantics is C02/C03's subject); trees with zero-width nodes and trees where tree-sitter's cursor sibling walk disagrees with next()/prev() are excluded as stated in the evidence.",
    technique="bounded-exhaustive enumeration of rule programs x inputs, differential against a reference evaluator",
    design_ref="DESIGN.md §3 C05, Appendix A.2"),
  "C19": dict(level="exploration", engine="E1",
    text="Bounded-exhaustive exploration: every token string up to L (quick 4/3, thorough 5/4) over a per-language alphabet in all 23 grammars plus corpus snippets, every node; navigation, traversals and positions compared with a recursive child(i) baseline and a byte-level position reference. Small-scope coverage statement, not a proof.",
    note="Trusts tree-sitter's child(i)/parent()/next_sibling() as the baseline and the grammar tables compiled into ast-grep-language; dev profile with debug assertions.",
    technique="bounded-exhaustive explicit-state enumeration of inputs (all token strings <= L) against a reference model",
    design_ref="DESIGN.md §3 C19"),
}
PENDING = "check not built yet in this revision (planned: see DESIGN.md §3); not claimed until its quick tier runs clean"

def main():
    checks = []
    for pid in ALL:
        if pid not in CLAIMED: continue
        c = CLAIMED[pid]
        checks.append({
          "property_id": pid,
          "quick_cmd": f"./check {pid} --tier quick",
          "thorough_cmd": f"./check {pid} --tier thorough",
          "evidence_file": f"/verif/evidence/{pid}.json",
          "replay_cmd_template": "./check replay {path}",
          "engine": c["engine"],
          "level_claimed": {"category": c["level"], "text": c["text"], "design_ref": c["design_ref"]},
          "level_note": c["note"],
          "technique": c["technique"],
        })
    hooks_file = os.path.join(HERE, "hooks.json")
    hooks = json.load(open(hooks_file)) if os.path.exists(hooks_file) else {"source_commits": []}
    m = {
      "version": 1,
      "setup_cmd": "./check setup",
      "hooks": {
        "guard": "--cfg ast_grep_verif",
        "enable": "RUSTFLAGS='--cfg ast_grep_verif --check-cfg cfg(ast_grep_verif)' cargo build --offline -p ast-grep --target-dir /verif/.build/repo-hooks (done by ./check for the checks that need the hooked binary)",
        "baseline_off_cmd": "cd /repo && (cargo nextest run --workspace --no-fail-fast --tool-config-file pb:/w/lib/nextest.toml --profile pb --test-threads 8 --offline || cargo test --workspace --no-fail-fast --offline)",
        "source_commits": hooks["source_commits"],
        "add_only": True,
      },
      "engines": [
        {"name": "E1", "path": "/verif/harness/vcore", "serves_properties": [p for p in ALL if p in CLAIMED and CLAIMED[p]["engine"].startswith("E1")],
         "kind_free_text": "bounded-exhaustive explicit-state explorer over inputs / rule programs / operation histories, executing the real library (path dependency on /repo/crates) and comparing with reference models"},
      ],
      "checks": checks,
      "not_applicable": [{"property_id": p, "reason": PENDING} for p in ALL if p not in CLAIMED],
      "notes": "All checks are model checking in the sense of the brief: exhaustive enumeration of a bounded space (inputs, histories, schedules, orders) with the property evaluated on every element; see DESIGN.md.",
    }
    json.dump(m, open(os.path.join(HERE, "MANIFEST.json"), "w"), indent=1)
    print("MANIFEST.json written:", len(checks), "checks,", len(m["not_applicable"]), "not claimed")
main()
