pub mod sim;
