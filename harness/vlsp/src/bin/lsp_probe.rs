use vlsp::sim::Sim;
fn main() {
  let rules = r#"{"id": "r1", "language": "javascript", "rule": {"pattern": "foo($A)"}, "message": "found $A", "severity": "error", "fix": "bar($A)"}"#;
  let mut sim = Sim::new(rules, "/w").expect("rules");
  let open = sim.did_open("a.js", 1, "foo(1);\nfoo(2)\n", "javascript");
  sim.deliver(open);
  println!("in flight after deliver: {}", sim.in_flight());
  sim.settle();
  println!("quiescent={} published={}", sim.quiescent(), sim.published.len());
  println!("{}", serde_json::to_string_pretty(&sim.published.last()).unwrap());
}
