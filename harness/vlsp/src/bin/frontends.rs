//! Helper for the cross-front-end checks (C08, C09 part A): for each case (rule documents,
//! file name, text) print what the LIBRARY and the LANGUAGE SERVER propose, as JSON.
//! usage: frontends <cases.json> <out.json>
use ast_grep_config::{from_yaml_string, GlobalRules, RuleConfig};
use ast_grep_core::matcher::MatcherExt;
use ast_grep_core::{Language, Matcher};
use ast_grep_language::SupportLang;
use serde_json::{json, Value};
use vcore::report::{guarded, quiet_panics};
use vlsp::sim::Sim;

fn lib_part(rules_yaml: &str, file: &str, text: &str) -> Value {
  let globals = GlobalRules::default();
  let rules: Vec<RuleConfig<SupportLang>> = match from_yaml_string(rules_yaml, &globals) {
    Ok(r) => r,
    Err(e) => return json!({"error": format!("{e:?}")}),
  };
  let mut out = vec![];
  for rule in &rules {
    if SupportLang::from_path(file) != Some(rule.language) {
      continue;
    }
    let grep = rule.language.ast_grep(text);
    let root = grep.root();
    let fixer = rule.get_fixer().ok().flatten();
    let mut findings = vec![];
    let mut make_edits = vec![];
    for nm in root.find_all(&rule.matcher) {
      let r = nm.range();
      findings.push(json!({"range": [r.start, r.end], "message": rule.get_message(&nm)}));
      if let Some(f) = &fixer {
        let e = nm.make_edit(&rule.matcher, f);
        make_edits.push(json!({"range": [e.position, e.position + e.deleted_length], "text": String::from_utf8_lossy(&e.inserted_text), "match": [r.start, r.end]}));
      }
    }
    let (mut replace_first, mut replace_all, mut replace_first_owned) = (Value::Null, vec![], Value::Null);
    if let Some(f) = &fixer {
      // what `sg test` snapshots use: AstGrep::replace(&matcher, fixer) -> Node::replace
      if let Some(e) = root.replace(&rule.matcher, f) {
        replace_first = json!({"range": [e.position, e.position + e.deleted_length], "text": String::from_utf8_lossy(&e.inserted_text)});
      }
      for e in root.replace_all(&rule.matcher, f) {
        replace_all.push(json!({"range": [e.position, e.position + e.deleted_length], "text": String::from_utf8_lossy(&e.inserted_text)}));
      }
      // and the text AstGrep::replace leaves behind
      let mut g2 = rule.language.ast_grep(text);
      if let Ok(true) = g2.replace(&rule.matcher, f) {
        replace_first_owned = json!(g2.source());
      }
    }
    let kinds = rule.matcher.potential_kinds().is_some();
    out.push(json!({"id": rule.id, "severity": format!("{:?}", rule.severity), "has_kinds": kinds, "findings": findings, "make_edit": make_edits,
      "replace_first": replace_first, "replace_all": replace_all, "text_after_astgrep_replace": replace_first_owned}));
  }
  json!({"rules": out})
}

fn lsp_part(rules_yaml: &str, file: &str, text: &str) -> Value {
  let mut sim = match Sim::new(rules_yaml, "/w") {
    Ok(s) => s,
    Err(e) => return json!({"error": e}),
  };
  let open = sim.did_open(file, 1, text, "x");
  sim.deliver(open);
  sim.settle();
  let uri = sim.uri(file);
  let (version, diags) = match sim.last_published(&uri) {
    Some(p) => p,
    None => return json!({"published": false}),
  };
  // quick fix: one code action request carrying all diagnostics
  let whole = json!({"start": {"line": 0, "character": 0}, "end": {"line": 100000, "character": 0}});
  let req = sim.request("textDocument/codeAction", json!({"textDocument": {"uri": uri}, "range": whole, "context": {"diagnostics": diags}}));
  sim.deliver(req);
  sim.settle();
  let quick = sim.responses.last().cloned().unwrap_or(Value::Null);
  sim.responses.clear();
  let req = sim.request("textDocument/codeAction", json!({"textDocument": {"uri": uri}, "range": whole, "context": {"diagnostics": diags, "only": ["source.fixAll"]}}));
  sim.deliver(req);
  sim.settle();
  let fix_all = sim.responses.last().cloned().unwrap_or(Value::Null);
  // the same fixes through the command the editor extension uses: the server answers with a
  // workspace/applyEdit request to the client
  let req = sim.request("workspace/executeCommand", json!({"command": "ast-grep.applyAllFixes", "arguments": [{"uri": uri, "languageId": "x", "version": 1, "text": text}]}));
  sim.deliver(req);
  sim.settle();
  let applied = sim.applied_edits.clone();
  json!({"published": true, "version": version, "diagnostics": diags, "quickfix_response": quick, "fixall_response": fix_all, "apply_all_fixes_edits": applied})
}

fn main() {
  quiet_panics();
  let a: Vec<String> = std::env::args().collect();
  let input: Value = serde_json::from_str(&std::fs::read_to_string(&a[1]).expect("cases file")).expect("json");
  let mut out = vec![];
  for case in input["cases"].as_array().expect("cases") {
    let rules = case["rules"].as_str().unwrap().to_string();
    let file = case["file"].as_str().unwrap().to_string();
    let text = case["text"].as_str().unwrap().to_string();
    let (r2, f2, t2) = (rules.clone(), file.clone(), text.clone());
    let lib = guarded(move || lib_part(&r2, &f2, &t2)).unwrap_or_else(|p| json!({"panic": p}));
    let lsp = guarded(move || lsp_part(&rules, &file, &text)).unwrap_or_else(|p| json!({"panic": p}));
    out.push(json!({"lib": lib, "lsp": lsp}));
  }
  std::fs::write(&a[2], serde_json::to_string(&json!({"results": out})).unwrap()).expect("write out");
}
