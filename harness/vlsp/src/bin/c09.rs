//! C09 part B — after any sequence of open/change/close notifications the diagnostics last
//! published for a document are those of the highest-version text received.
//! (1) sequential delivery: explicit-state BFS over canonical document-map states, every
//!     transition executed on the real LspService<Backend>;
//! (2) interleaved delivery (engine E3): for every notification history up to a length bound,
//!     every environment schedule (Deliver / Drain one / Answer) with at most k deviations from
//!     "drain immediately, answer promptly, deliver when idle".
//! Runs of (2) execute in child processes under a watchdog: a handler that blocks the thread
//! (e.g. on a DashMap shard held across an await) is reported as a hang, not suffered.

use serde_json::{json, Value};
use std::collections::{BTreeMap, BTreeSet, VecDeque};
use std::io::{BufRead, BufReader, Write};
use std::process::{Command, Stdio};
use std::sync::mpsc;
use std::time::Duration;
use vcore::report::*;
use vlsp::sim::{Sim, MAX_IN_FLIGHT};

const RULES: &str = r#"{"id": "r1", "language": "javascript", "rule": {"pattern": "foo($A)"}, "message": "found $A", "severity": "error", "fix": "bar($A)"}
---
{"id": "r2", "language": "javascript", "rule": {"kind": "number", "regex": "^2$"}, "message": "two", "severity": "warning"}"#;
const TEXTS: [&str; 3] = ["bar(0)\n", "foo(1)\n", "foo(1)\nfoo(2)\n"];
const DOCS: [&str; 2] = ["a.js", "b.js"];

#[derive(Clone, Debug, PartialEq, Eq, PartialOrd, Ord, Hash)]
enum Op {
  Open(usize, i64, usize),
  Change(usize, i64, usize),
  Close(usize),
}
impl Op {
  fn json(&self) -> Value {
    match self {
      Op::Open(u, v, t) => json!({"open": {"doc": DOCS[*u], "version": v, "text": TEXTS[*t]}}),
      Op::Change(u, v, t) => json!({"change": {"doc": DOCS[*u], "version": v, "text": TEXTS[*t]}}),
      Op::Close(u) => json!({"close": {"doc": DOCS[*u]}}),
    }
  }
  fn from_json(v: &Value) -> Op {
    let doc = |d: &Value| DOCS.iter().position(|x| Some(*x) == d.as_str()).unwrap();
    let txt = |d: &Value| TEXTS.iter().position(|x| Some(*x) == d.as_str()).unwrap();
    if let Some(o) = v.get("open") {
      Op::Open(doc(&o["doc"]), o["version"].as_i64().unwrap(), txt(&o["text"]))
    } else if let Some(o) = v.get("change") {
      Op::Change(doc(&o["doc"]), o["version"].as_i64().unwrap(), txt(&o["text"]))
    } else {
      Op::Close(doc(&v["close"]["doc"]))
    }
  }
  fn request(&self, sim: &Sim) -> tower_lsp::jsonrpc::Request {
    match self {
      Op::Open(u, v, t) => sim.did_open(DOCS[*u], *v, TEXTS[*t], "javascript"),
      Op::Change(u, v, t) => sim.did_change(DOCS[*u], *v, TEXTS[*t]),
      Op::Close(u) => sim.did_close(DOCS[*u]),
    }
  }
}

/// ref_docs: uri -> (version, text) with "ignore older versions"
/// (version, text, open?) — a closed document keeps what it held when it was closed: a STALE change
/// that arrives after the close must still be ignored (its diagnostics must not be published last)
type RefState = BTreeMap<usize, (i64, usize, bool)>;

#[derive(PartialEq, Eq, Debug)]
enum Validity {
  Valid,
  /// protocol violation or a case the statement is silent about: executed, judged "no crash" only
  ProbeOnly,
}

fn apply_ref(s: &RefState, op: &Op) -> (RefState, Validity) {
  let mut n = s.clone();
  match op {
    Op::Open(u, v, t) => {
      if matches!(s.get(u), Some((_, _, true))) {
        return (n, Validity::ProbeOnly);
      }
      n.insert(*u, (*v, *t, true));
    }
    Op::Change(u, v, t) => match s.get(u) {
      None => return (n, Validity::ProbeOnly),
      Some((cv, _, _)) if cv == v => return (n, Validity::ProbeOnly),
      // closed document: only a stale change is judged (it must change nothing); a newer one is a
      // client protocol violation the statement is silent about
      Some((cv, _, false)) if v > cv => return (n, Validity::ProbeOnly),
      Some((_, _, false)) => {}
      Some((cv, _, true)) => {
        if v > cv {
          n.insert(*u, (*v, *t, true));
        }
      }
    },
    Op::Close(u) => match s.get(u) {
      Some((v, t, true)) => {
        n.insert(*u, (*v, *t, false));
      }
      _ => return (n, Validity::ProbeOnly),
    },
  }
  (n, Validity::Valid)
}

/// the finding list as a canonical (sorted) multiset: the statement fixes ids, ranges and
/// messages, not the order of the array
fn strip(diags: &[Value]) -> Vec<Value> {
  let mut v: Vec<Value> = diags
    .iter()
    .map(|d| json!({"range": d["range"], "code": d["code"], "message": d["message"], "severity": d["severity"], "data": d["data"]}))
    .collect();
  v.sort_by_key(|d| d.to_string());
  v
}

fn expected_diagnostics() -> Vec<Vec<Value>> {
  TEXTS
    .iter()
    .map(|t| {
      let mut sim = Sim::new(RULES, "/w").unwrap_or_else(|e| machinery(&format!("rules: {e}")));
      let open = sim.did_open("x.js", 1, t, "javascript");
      sim.deliver(open);
      sim.settle();
      let uri = sim.uri("x.js");
      strip(&sim.last_published(&uri).map(|p| p.1).unwrap_or_default())
    })
    .collect()
}

/// the property's oracle on a quiescent simulation
fn check_final(sim: &Sim, state: &RefState, expected: &[Vec<Value>]) -> Option<Value> {
  check_final_with(sim, state, expected, true)
}

/// `judge_closed`: also require that a closed document's last publication is still the one of the
/// text it held when it was closed (sequential delivery only: with overlapping handlers the
/// statement does not say which of close / change wins)
fn check_final_with(sim: &Sim, state: &RefState, expected: &[Vec<Value>], judge_closed: bool) -> Option<Value> {
  for (u, (v, t, open)) in state {
    if !open && !judge_closed {
      continue;
    }
    let uri = sim.uri(DOCS[*u]);
    match sim.last_published(&uri) {
      None => return Some(json!({"doc": DOCS[*u], "problem": "nothing published", "want_version": v})),
      Some((pv, diags)) => {
        if pv != Some(*v) || strip(&diags) != expected[*t] {
          return Some(json!({"doc": DOCS[*u], "published_version": pv, "want_version": v, "published": strip(&diags), "want": expected[*t]}));
        }
      }
    }
  }
  None
}

// ---------------------------------------------------------------------------------------
// (1) sequential BFS

fn all_ops() -> Vec<Op> {
  let mut v = vec![];
  for u in 0..2 {
    for ver in 1..=3 {
      for t in 0..3 {
        v.push(Op::Open(u, ver, t));
        v.push(Op::Change(u, ver, t));
      }
    }
    v.push(Op::Close(u));
  }
  v
}

fn run_sequential(hist: &[Op]) -> Result<Sim, String> {
  let h = hist.to_vec();
  guarded(std::panic::AssertUnwindSafe(move || {
    let mut sim = Sim::new(RULES, "/w").unwrap();
    for op in &h {
      let req = op.request(&sim);
      sim.deliver(req);
      sim.settle();
    }
    sim
  }))
}

struct SeqStats {
  states: usize,
  transitions: u64,
  probes: u64,
  max_depth: usize,
}

fn sequential(rep: &Reporter, expected: &[Vec<Value>], max_depth: usize, samples: &Samples) -> SeqStats {
  let ops = all_ops();
  let mut seen: BTreeMap<RefState, Vec<Op>> = BTreeMap::new();
  let mut frontier: VecDeque<(RefState, Vec<Op>)> = VecDeque::new();
  seen.insert(RefState::new(), vec![]);
  frontier.push_back((RefState::new(), vec![]));
  let mut st = SeqStats { states: 1, transitions: 0, probes: 0, max_depth: 0 };
  while let Some((state, hist)) = frontier.pop_front() {
    if hist.len() >= max_depth {
      continue;
    }
    for op in &ops {
      let (next, validity) = apply_ref(&state, op);
      let mut h = hist.clone();
      h.push(op.clone());
      let case = || json!({"mode": "sequential", "history": h.iter().map(|o| o.json()).collect::<Vec<_>>()});
      match run_sequential(&h) {
        Err(msg) => {
          rep.violation(&format!("sequential:panic:{}", msg.chars().take(50).collect::<String>()), case());
          continue;
        }
        Ok(sim) => {
          if !sim.quiescent() {
            let mut c = case();
            c["in_flight"] = json!(sim.in_flight());
            rep.violation("sequential:not-quiescent", c);
            continue;
          }
          if validity == Validity::ProbeOnly {
            st.probes += 1;
            continue;
          }
          st.transitions += 1;
          if let Some(problem) = check_final(&sim, &next, expected) {
            let kind = match op {
              Op::Open(..) => "open",
              Op::Change(_, v, _) => {
                let cur = state.get(&match op { Op::Change(u, ..) => *u, _ => 0 });
                if cur.map(|c| v < &c.0 && !c.2).unwrap_or(false) {
                  "stale-change-after-close"
                } else if cur.map(|c| v < &c.0).unwrap_or(false) {
                  "stale-change"
                } else {
                  "newer-change"
                }
              }
              Op::Close(..) => "close",
            };
            let mut c = case();
            c["problem"] = problem;
            rep.violation(&format!("sequential:wrong-final-diagnostics:after-{kind}"), c);
          }
        }
      }
      if !seen.contains_key(&next) {
        seen.insert(next.clone(), h.clone());
        st.states += 1;
        st.max_depth = st.max_depth.max(h.len());
        if st.states % 17 == 3 {
          samples.offer(|| json!({"mode": "sequential", "history": h.iter().map(|o| o.json()).collect::<Vec<_>>(), "ref_state": format!("{next:?}")}));
        }
        frontier.push_back((next, h));
      }
    }
  }
  st
}

// ---------------------------------------------------------------------------------------
// (2) interleaved exploration

#[derive(Clone, Copy, Debug, PartialEq, Eq, PartialOrd, Ord, Hash)]
enum Act {
  Drain,
  Answer,
  Deliver,
}
impl Act {
  fn ch(&self) -> char {
    match self {
      Act::Drain => 'D',
      Act::Answer => 'A',
      Act::Deliver => 'M',
    }
  }
  fn from(c: char) -> Act {
    match c {
      'D' => Act::Drain,
      'A' => Act::Answer,
      _ => Act::Deliver,
    }
  }
}

struct Trace {
  /// (action taken, alternatives that were enabled at that point)
  steps: Vec<(Act, Vec<Act>)>,
  hang: bool,
  sim: Sim,
  diverged: bool,
}

fn run_schedule(hist: &[Op], prefix: &[Act]) -> Trace {
  let mut sim = Sim::new(RULES, "/w").unwrap();
  let mut next = 0usize;
  let mut steps = vec![];
  let mut diverged = false;
  let mut horizon = 400;
  let mut i = 0;
  loop {
    horizon -= 1;
    if horizon == 0 {
      break;
    }
    let can_answer = !sim.unanswered.is_empty();
    let can_deliver = next < hist.len() && sim.in_flight() < MAX_IN_FLIGHT;
    if i < prefix.len() {
      match prefix[i] {
        Act::Drain => {
          if sim.drain_one().is_none() {
            diverged = true;
            break;
          }
        }
        Act::Answer => {
          if !sim.answer_one() {
            diverged = true;
            break;
          }
        }
        Act::Deliver => {
          if !can_deliver {
            diverged = true;
            break;
          }
          let req = hist[next].request(&sim);
          next += 1;
          sim.deliver(req);
        }
      }
      steps.push((prefix[i], vec![]));
      i += 1;
      continue;
    }
    // default policy: drain immediately, answer promptly, deliver when nothing else can move
    let mut alts = vec![];
    if sim.drain_one().is_some() {
      if can_answer {
        alts.push(Act::Answer);
      }
      if can_deliver {
        alts.push(Act::Deliver);
      }
      steps.push((Act::Drain, alts));
    } else if can_answer {
      if can_deliver {
        alts.push(Act::Deliver);
      }
      sim.answer_one();
      steps.push((Act::Answer, alts));
    } else if can_deliver {
      let req = hist[next].request(&sim);
      next += 1;
      sim.deliver(req);
      steps.push((Act::Deliver, alts));
    } else {
      break;
    }
    i += 1;
  }
  let hang = sim.in_flight() > 0 || next < hist.len();
  Trace { steps, hang, sim, diverged }
}

fn interleave_histories(max_len: usize) -> Vec<Vec<Op>> {
  let alphabet = vec![
    Op::Open(0, 1, 1),
    Op::Change(0, 2, 2),
    Op::Change(0, 3, 0),
    Op::Change(0, 1, 0),
    Op::Close(0),
    Op::Open(1, 1, 2),
    Op::Change(1, 2, 1),
  ];
  let mut out = vec![];
  fn rec(alpha: &[Op], cur: &mut Vec<Op>, state: &RefState, max_len: usize, out: &mut Vec<Vec<Op>>) {
    if !cur.is_empty() {
      out.push(cur.clone());
    }
    if cur.len() == max_len {
      return;
    }
    for op in alpha {
      let (n, v) = apply_ref(state, op);
      if v != Validity::Valid {
        continue;
      }
      cur.push(op.clone());
      rec(alpha, cur, &n, max_len, out);
      cur.pop();
    }
  }
  rec(&alphabet, &mut vec![], &RefState::new(), max_len, &mut out);
  out
}

fn final_state(hist: &[Op]) -> RefState {
  let mut s = RefState::new();
  for op in hist {
    s = apply_ref(&s, op).0;
  }
  s
}

fn acts_str(a: &[Act]) -> String {
  a.iter().map(|x| x.ch()).collect()
}

/// child: explore all schedules of one history with <= bound deviations. Prints protocol lines.
fn child(hist_json: &str, bound: usize, skip: &BTreeSet<String>) {
  let hist: Vec<Op> = serde_json::from_str::<Vec<Value>>(hist_json).unwrap().iter().map(Op::from_json).collect();
  let expected = expected_diagnostics();
  let want = final_state(&hist);
  let out = std::io::stdout();
  let mut stack: Vec<(Vec<Act>, usize)> = vec![(vec![], 0)];
  let mut runs = 0u64;
  let mut outcomes: BTreeSet<String> = BTreeSet::new();
  while let Some((prefix, devs)) = stack.pop() {
    let key = acts_str(&prefix);
    if skip.iter().any(|s| key.starts_with(s.as_str())) {
      continue;
    }
    {
      let mut o = out.lock();
      writeln!(o, "BEGIN {key}").unwrap();
      o.flush().unwrap();
    }
    let tr = run_schedule(&hist, &prefix);
    runs += 1;
    let actions: Vec<Act> = tr.steps.iter().map(|s| s.0).collect();
    let mut verdict = json!(null);
    if tr.diverged {
      verdict = json!({"sig": "MACHINERY:diverged"});
    } else if tr.hang {
      verdict = json!({"sig": "interleaved:hang:handlers-never-complete", "in_flight": tr.sim.in_flight()});
    } else if let Some(problem) = check_final_with(&tr.sim, &want, &expected, false) {
      // classify by the kinds of deviations on this path
      let dev_kinds: BTreeSet<String> = prefix_devs(&hist, &prefix);
      verdict = json!({"sig": format!("interleaved:wrong-final-diagnostics:{}", dev_kinds.into_iter().collect::<Vec<_>>().join("+")), "problem": problem});
    }
    let last: Vec<String> = want.keys().map(|u| format!("{:?}", tr.sim.last_published(&tr.sim.uri(DOCS[*u])).map(|p| (p.0, p.1.len())))).collect();
    outcomes.insert(last.join("|"));
    {
      let mut o = out.lock();
      writeln!(o, "END {} {}", acts_str(&actions), verdict).unwrap();
      o.flush().unwrap();
    }
    if devs < bound {
      for (i, (_, alts)) in tr.steps.iter().enumerate().skip(prefix.len()) {
        for alt in alts {
          let mut p: Vec<Act> = actions[..i].to_vec();
          p.push(*alt);
          stack.push((p, devs + 1));
        }
      }
    }
  }
  println!("DONE {runs} {}", outcomes.len());
}

/// which kinds of deviation a prefix contains (recomputed by replaying the default policy)
fn prefix_devs(hist: &[Op], prefix: &[Act]) -> BTreeSet<String> {
  let mut kinds = BTreeSet::new();
  // a deviation is a position where the explicit action differs from what the default policy
  // would have done in the same state
  for i in 0..prefix.len() {
    let tr = run_schedule(hist, &prefix[..i]);
    if let Some((default_act, _)) = tr.steps.get(i) {
      if *default_act != prefix[i] {
        kinds.insert(format!(
          "{}-instead-of-{}",
          match prefix[i] {
            Act::Deliver => "deliver",
            Act::Answer => "answer",
            Act::Drain => "drain",
          },
          match default_act {
            Act::Deliver => "deliver",
            Act::Answer => "answer",
            Act::Drain => "drain",
          }
        ));
      }
    }
  }
  kinds
}

struct IlStats {
  histories: usize,
  schedules: u64,
  distinct_outcome_sets: u64,
  hung_children: u64,
}

fn interleaved(rep: &Reporter, max_len: usize, bound: usize, samples: &Samples) -> IlStats {
  let hists = interleave_histories(max_len);
  let exe = std::env::current_exe().unwrap();
  let mut st = IlStats { histories: hists.len(), schedules: 0, distinct_outcome_sets: 0, hung_children: 0 };
  let results: Vec<(u64, u64, u64, Vec<(String, Value, Vec<Op>)>)> = {
    use std::sync::Mutex;
    let out = Mutex::new(vec![]);
    let next = std::sync::atomic::AtomicUsize::new(0);
    std::thread::scope(|s| {
      for _ in 0..16 {
        s.spawn(|| loop {
          let i = next.fetch_add(1, std::sync::atomic::Ordering::SeqCst);
          if i >= hists.len() {
            break;
          }
          let hist = &hists[i];
          let hist_json = serde_json::to_string(&hist.iter().map(|o| o.json()).collect::<Vec<_>>()).unwrap();
          let mut skip: BTreeSet<String> = BTreeSet::new();
          let (mut runs, mut outcomes, mut hung) = (0u64, 0u64, 0u64);
          let mut viols = vec![];
          loop {
            let mut cmd = Command::new(&exe);
            cmd.arg("--child").arg(&hist_json).arg(bound.to_string()).arg(skip.iter().cloned().collect::<Vec<_>>().join(","));
            cmd.stdout(Stdio::piped()).stderr(Stdio::null());
            let mut ch = cmd.spawn().expect("spawn child");
            let stdout = ch.stdout.take().unwrap();
            let (tx, rx) = mpsc::channel::<String>();
            let reader = std::thread::spawn(move || {
              for line in BufReader::new(stdout).lines().map_while(Result::ok) {
                if tx.send(line).is_err() {
                  break;
                }
              }
            });
            let mut current: Option<String> = None;
            let mut done = false;
            loop {
              match rx.recv_timeout(Duration::from_secs(30)) {
                Ok(line) => {
                  if let Some(p) = line.strip_prefix("BEGIN ") {
                    current = Some(p.to_string());
                  } else if let Some(rest) = line.strip_prefix("END ") {
                    let (acts, verdict) = rest.split_once(' ').unwrap_or((rest, "null"));
                    let v: Value = serde_json::from_str(verdict).unwrap_or(Value::Null);
                    if !v.is_null() {
                      viols.push((acts.to_string(), v, hist.clone()));
                    }
                    current = None;
                  } else if let Some(rest) = line.strip_prefix("DONE ") {
                    let mut it = rest.split(' ');
                    runs += it.next().unwrap().parse::<u64>().unwrap();
                    outcomes = outcomes.max(it.next().unwrap().parse::<u64>().unwrap());
                    done = true;
                  } else if line == "BEGIN " {
                    current = Some(String::new());
                  }
                }
                Err(mpsc::RecvTimeoutError::Timeout) => {
                  let _ = ch.kill();
                  break;
                }
                Err(mpsc::RecvTimeoutError::Disconnected) => break,
              }
            }
            let _ = ch.wait();
            let _ = reader.join();
            if done {
              break;
            }
            // the child died or blocked while `current` was running
            hung += 1;
            let cur = current.unwrap_or_default();
            viols.push((cur.clone(), json!({"sig": "interleaved:process-blocked-or-crashed", "schedule_prefix": cur}), hist.clone()));
            skip.insert(if cur.is_empty() { "\u{0}".into() } else { cur });
            if hung > 20 {
              break;
            }
          }
          out.lock().unwrap().push((runs, outcomes, hung, viols));
        });
      }
    });
    out.into_inner().unwrap()
  };
  for (runs, outcomes, hung, viols) in results {
    st.schedules += runs;
    st.distinct_outcome_sets += outcomes;
    st.hung_children += hung;
    for (acts, v, hist) in viols {
      let sig = v["sig"].as_str().unwrap_or("interleaved:?").to_string();
      if sig.starts_with("MACHINERY") {
        machinery(&format!("schedule replay diverged: {acts} on {hist:?}"));
      }
      rep.violation(&sig, json!({"mode": "interleaved", "history": hist.iter().map(|o| o.json()).collect::<Vec<_>>(), "schedule": acts, "legend": "D = client reads one message, A = client answers the oldest server request, M = next notification delivered", "detail": v}));
    }
  }
  if let Some(h) = hists.get(hists.len() / 2) {
    samples.offer(|| json!({"mode": "interleaved", "history": h.iter().map(|o| o.json()).collect::<Vec<_>>(), "deviation_bound": bound}));
  }
  st
}

fn main() {
  let argv: Vec<String> = std::env::args().collect();
  if argv.get(1).map(|s| s.as_str()) == Some("--child") {
    quiet_panics();
    let skip: BTreeSet<String> = argv.get(4).map(|s| s.split(',').filter(|x| !x.is_empty()).map(|x| if x == "\u{0}" { String::new() } else { x.to_string() }).collect()).unwrap_or_default();
    child(&argv[2], argv[3].parse().unwrap(), &skip);
    return;
  }
  let args = Args::parse();
  quiet_panics();
  let rep = Reporter::new("C09", args.clone());
  if let Some(p) = &args.replay {
    let v: Value = serde_json::from_str(&std::fs::read_to_string(p).unwrap()).unwrap();
    let case = &v["case"];
    let hist: Vec<Op> = case["history"].as_array().unwrap().iter().map(Op::from_json).collect();
    let expected = expected_diagnostics();
    let want = final_state(&hist);
    let sim = if case["mode"] == "interleaved" {
      let prefix: Vec<Act> = case["schedule"].as_str().unwrap_or("").chars().map(Act::from).collect();
      run_schedule(&hist, &prefix).sim
    } else {
      run_sequential(&hist).unwrap()
    };
    let problem = check_final_with(&sim, &want, &expected, case["mode"] != "interleaved");
    println!("history: {:?}\nreference state: {:?}\nproblem: {}", hist, want, problem.clone().unwrap_or(Value::Null));
    std::process::exit(if problem.is_some() { 1 } else { 0 });
  }
  let samples = Samples::new(8);
  let expected = expected_diagnostics();
  if expected[0].len() != 0 || expected[1].len() != 1 || expected[2].len() < 2 {
    machinery(&format!("expected diagnostics of the three texts are not 0/1/>=2: {:?}", expected.iter().map(|e| e.len()).collect::<Vec<_>>()));
  }
  let (depth, il_len, bound) = if args.thorough() { (5, 5, 3) } else { (4, 4, 2) };
  let seq = sequential(&rep, &expected, depth, &samples);
  let il = interleaved(&rep, il_len, bound, &samples);
  let cov = json!({
    "states": seq.states,
    "transitions": seq.transitions + il.schedules,
    "traces_validated_against_impl": seq.transitions + seq.probes + il.schedules,
    "samples": samples.take(),
    "evaluations": seq.transitions + seq.probes + il.schedules,
    "distinct_nontrivial": seq.states as u64 + il.distinct_outcome_sets,
    "rule": "sequential: canonical state = reference document map {doc -> (version, text)}; transitions = every open/change/close over 2 documents x versions {1,2,3} in any order (stale versions included) x 3 texts (0, 1, 2 findings), BFS to the depth bound, every transition replayed from the initial state on the real LspService<Backend> with each handler run to completion; protocol-violating or statement-silent operations (change before open, re-open, equal version) are executed as crash probes only. interleaved: every protocol-valid history up to the length bound over a 7-operation alphabet x every environment schedule (Deliver / Drain-one / Answer, at most 4 handlers in flight) with at most `deviation_bound` deviations from drain-immediately/answer-promptly/deliver-when-idle; distinct_nontrivial = canonical states + sum over histories of distinct final (version, #diagnostics) outcomes over schedules",
    "exhaustive": true,
    "sequential": {"states": seq.states, "transitions": seq.transitions, "crash_probes": seq.probes, "depth_bound": depth, "max_depth_of_a_new_state": seq.max_depth},
    "interleaved": {"histories": il.histories, "history_length_bound": il_len, "deviation_bound": bound, "schedules": il.schedules, "children_killed_by_watchdog": il.hung_children},
  });
  rep.finish(
    "model_checking",
    cov,
    vec![
      "the executor reproduces tower-lsp's Server::serve structure (in-order service.call, <= 4 futures in a real FuturesUnordered, the real bounded client channel); real socket timing is replaced by explicit Deliver/Drain/Answer steps".into(),
      "states with the same reference document map are merged (the server's map holds exactly that when the property holds)".into(),
      "expected diagnostics of a text are those a fresh server publishes on a single didOpen of it".into(),
    ],
  );
}
