//! E3: a single-threaded controlled executor around the REAL `LspService<Backend>`.
//! It reproduces the structure of `tower_lsp::Server::serve` (in-order `service.call(req)`, at
//! most 4 handler futures in flight in a real `FuturesUnordered`, the real bounded client
//! channel) and owns the only nondeterminism there is: when the next client message is
//! delivered, when the client socket is drained, when a client response arrives.

use ast_grep_config::{from_yaml_string, GlobalRules, RuleCollection};
use ast_grep_language::SupportLang;
use ast_grep_lsp::{Backend, LspService};
use futures::stream::FuturesUnordered;
use futures::task::noop_waker;
use futures::{Sink, Stream};
use serde_json::{json, Value};
use std::collections::VecDeque;
use std::future::Future;
use std::path::PathBuf;
use std::pin::Pin;
use std::task::{Context, Poll};
use tower::Service;
use tower_lsp::jsonrpc::{Request, Response};
use tower_lsp::ClientSocket;

type HandlerFut = Pin<Box<dyn Future<Output = Result<Option<Response>, tower_lsp::ExitedError>> + Send>>;

pub const MAX_IN_FLIGHT: usize = 4;

pub struct Sim {
  service: LspService<Backend<SupportLang>>,
  socket: ClientSocket,
  inflight: FuturesUnordered<HandlerFut>,
  /// server -> client requests that the client has read but not yet answered
  pub unanswered: VecDeque<Request>,
  /// every publishDiagnostics notification read from the socket, in order
  pub published: Vec<Value>,
  /// responses to client -> server requests (code actions ...)
  pub responses: Vec<Value>,
  /// params of the `workspace/applyEdit` requests the server sent to the client
  pub applied_edits: Vec<Value>,
  pub base: PathBuf,
  next_id: i64,
}

pub fn load_rules(yaml: &str) -> Result<RuleCollection<SupportLang>, String> {
  let globals = GlobalRules::default();
  let rules = from_yaml_string::<SupportLang>(yaml, &globals).map_err(|e| format!("{e:?}"))?;
  RuleCollection::try_new(rules).map_err(|e| format!("{e:?}"))
}

impl Sim {
  /// builds the service and performs the initialize / initialized handshake
  pub fn new(rules_yaml: &str, base: &str) -> Result<Sim, String> {
    let rules = load_rules(rules_yaml)?;
    let base = PathBuf::from(base);
    let b2 = base.clone();
    let (service, socket) = LspService::build(move |client| Backend::new(client, b2, Ok(rules))).finish();
    let mut sim = Sim {
      service,
      socket,
      inflight: FuturesUnordered::new(),
      unanswered: VecDeque::new(),
      published: vec![],
      responses: vec![],
      applied_edits: vec![],
      base,
      next_id: 1,
    };
    let root_uri = format!("file://{}", sim.base.display());
    let init = sim.request(
      "initialize",
      json!({"capabilities": {"textDocument": {"codeAction": {"codeActionLiteralSupport": {"codeActionKind": {"valueSet": ["quickfix", "source.fixAll"]}}}}}, "rootUri": root_uri,
             "workspaceFolders": [{"uri": root_uri, "name": "w"}]}),
    );
    sim.deliver(init);
    sim.settle();
    sim.deliver(Self::notification("initialized", json!({})));
    sim.settle();
    sim.responses.clear();
    Ok(sim)
  }

  pub fn notification(method: &'static str, params: Value) -> Request {
    Request::build(method).params(params).finish()
  }

  pub fn request(&mut self, method: &'static str, params: Value) -> Request {
    let id = self.next_id;
    self.next_id += 1;
    Request::build(method).params(params).id(id).finish()
  }

  pub fn in_flight(&self) -> usize {
    self.inflight.len()
  }

  /// Deliver: `service.call(msg)`, future pushed into the in-flight set, then Poll
  pub fn deliver(&mut self, req: Request) {
    let waker = noop_waker();
    let mut cx = Context::from_waker(&waker);
    // poll_ready is Pending only before `initialize`; afterwards always ready
    let _ = self.service.poll_ready(&mut cx);
    let fut = self.service.call(req);
    self.inflight.push(Box::pin(fut));
    self.poll();
  }

  /// Poll: poll the in-flight set until it reports Pending (mirrors buffer_unordered)
  pub fn poll(&mut self) {
    let waker = noop_waker();
    let mut cx = Context::from_waker(&waker);
    let mut idle_rounds = 0;
    loop {
      match Pin::new(&mut self.inflight).poll_next(&mut cx) {
        Poll::Ready(Some(Ok(Some(resp)))) => {
          self.responses.push(serde_json::to_value(&resp).unwrap());
          idle_rounds = 0;
        }
        Poll::Ready(Some(_)) => idle_rounds = 0,
        Poll::Ready(None) => break,
        Poll::Pending => {
          // a task woken during the poll is re-queued; poll once more to be sure nothing is ready
          idle_rounds += 1;
          if idle_rounds >= 2 {
            break;
          }
        }
      }
    }
  }

  /// Drain: take ONE message from the client socket (None if it is empty), then Poll
  pub fn drain_one(&mut self) -> Option<String> {
    let waker = noop_waker();
    let mut cx = Context::from_waker(&waker);
    match Pin::new(&mut self.socket).poll_next(&mut cx) {
      Poll::Ready(Some(req)) => {
        let method = req.method().to_string();
        if req.id().is_some() {
          if method == "workspace/applyEdit" {
            self.applied_edits.push(req.params().cloned().unwrap_or(Value::Null));
          }
          self.unanswered.push_back(req);
        } else if method == "textDocument/publishDiagnostics" {
          self.published.push(req.params().cloned().unwrap_or(Value::Null));
        }
        self.poll();
        Some(method)
      }
      _ => None,
    }
  }

  /// Answer: respond to the oldest unanswered server -> client request, then Poll
  pub fn answer_one(&mut self) -> bool {
    let Some(req) = self.unanswered.pop_front() else {
      return false;
    };
    let id = req.id().cloned().unwrap();
    let result = match req.method() {
      "workspace/workspaceFolders" => json!([{"uri": format!("file://{}", self.base.display()), "name": "w"}]),
      "workspace/applyEdit" => json!({"applied": true}),
      _ => Value::Null,
    };
    let resp = Response::from_ok(id, result);
    let waker = noop_waker();
    let mut cx = Context::from_waker(&waker);
    let _ = Pin::new(&mut self.socket).poll_ready(&mut cx);
    let _ = Pin::new(&mut self.socket).start_send(resp);
    self.poll();
    true
  }

  /// default environment: drain everything, answer promptly, until nothing moves
  pub fn settle(&mut self) {
    loop {
      let mut moved = false;
      while self.drain_one().is_some() {
        moved = true;
      }
      while self.answer_one() {
        moved = true;
      }
      if !moved {
        break;
      }
    }
  }

  pub fn quiescent(&self) -> bool {
    self.inflight.is_empty() && self.unanswered.is_empty()
  }

  pub fn uri(&self, name: &str) -> String {
    format!("file://{}/{}", self.base.display(), name)
  }

  pub fn did_open(&self, name: &str, version: i64, text: &str, lang_id: &str) -> Request {
    Self::notification(
      "textDocument/didOpen",
      json!({"textDocument": {"uri": self.uri(name), "languageId": lang_id, "version": version, "text": text}}),
    )
  }
  pub fn did_change(&self, name: &str, version: i64, text: &str) -> Request {
    Self::notification(
      "textDocument/didChange",
      json!({"textDocument": {"uri": self.uri(name), "version": version}, "contentChanges": [{"text": text}]}),
    )
  }
  pub fn did_close(&self, name: &str) -> Request {
    Self::notification("textDocument/didClose", json!({"textDocument": {"uri": self.uri(name)}}))
  }

  /// last published (version, diagnostics) for a uri
  pub fn last_published(&self, uri: &str) -> Option<(Option<i64>, Vec<Value>)> {
    self
      .published
      .iter()
      .rev()
      .find(|p| p["uri"].as_str() == Some(uri))
      .map(|p| (p["version"].as_i64(), p["diagnostics"].as_array().cloned().unwrap_or_default()))
  }
}
