//! Enumeration of rule ASTs up to a depth over a small atom list (simplest first).

use crate::rules::{Rel, Stop, R};

pub struct LangAtoms {
  pub name: &'static str,
  pub kinds: &'static [&'static str],
  pub fields: &'static [&'static str],
  pub patterns: &'static [&'static str],
  pub regexes: &'static [&'static str],
}

pub static LANG_ATOMS: &[LangAtoms] = &[
  LangAtoms {
    name: "javascript",
    kinds: &["identifier", "expression_statement", "number", "binary_expression", "statement_block"],
    fields: &["left", "right", "function", "arguments"],
    patterns: &["a", "$X + $Y"],
    regexes: &["^a", "1"],
  },
  LangAtoms {
    name: "typescript",
    kinds: &["identifier", "expression_statement", "number", "type_annotation", "statement_block"],
    fields: &["left", "right", "type", "body"],
    patterns: &["a", "$X = $Y"],
    regexes: &["^a", "1"],
  },
  LangAtoms {
    name: "tsx",
    kinds: &["identifier", "expression_statement", "number", "jsx_self_closing_element", "statement_block"],
    fields: &["left", "right", "name", "body"],
    patterns: &["a", "$X = $Y"],
    regexes: &["^a", "1"],
  },
  LangAtoms {
    name: "python",
    kinds: &["identifier", "expression_statement", "integer", "binary_operator", "block"],
    fields: &["left", "right", "condition", "consequence"],
    patterns: &["a", "$X + $Y"],
    regexes: &["^a", "1"],
  },
  LangAtoms {
    name: "rust",
    kinds: &["identifier", "expression_statement", "integer_literal", "block", "tuple_expression"],
    fields: &["left", "right", "name", "body"],
    patterns: &["a", "$X = $Y"],
    regexes: &["^a", "1"],
  },
  LangAtoms {
    name: "c",
    kinds: &["identifier", "expression_statement", "number_literal", "compound_statement", "declaration"],
    fields: &["left", "right", "declarator", "type"],
    patterns: &["a", "$X = $Y"],
    regexes: &["^a", "1"],
  },
  LangAtoms {
    name: "html",
    kinds: &["element", "start_tag", "text", "tag_name", "attribute"],
    fields: &[],
    patterns: &["<a>"],
    regexes: &["^<a", "t"],
  },
  LangAtoms {
    name: "css",
    kinds: &["rule_set", "declaration", "tag_name", "integer_value", "block"],
    fields: &[],
    patterns: &["a"],
    regexes: &["^a", "1"],
  },
];

pub fn atoms_for(name: &str) -> Option<&'static LangAtoms> {
  LANG_ATOMS.iter().find(|a| a.name == name)
}

pub fn atoms(la: &LangAtoms, n_kinds: usize, with_patterns: bool) -> Vec<R> {
  let mut v = vec![];
  for k in la.kinds.iter().take(n_kinds) {
    v.push(R::Kind(k.to_string()));
  }
  v.push(R::Regex(la.regexes[0].to_string()));
  if with_patterns {
    v.push(R::Pat(la.patterns[0].to_string()));
  }
  v
}

fn rel(kind: usize, r: Rel) -> R {
  match kind {
    0 => R::Inside(Box::new(r)),
    1 => R::Has(Box::new(r)),
    2 => R::Precedes(Box::new(r)),
    _ => R::Follows(Box::new(r)),
  }
}

pub const NTH_POS: &[&str] = &["1", "2", "2n", "2n+1", "-n+2", "n+2", "-2n+3"];

/// every operator applied once to atoms `xs` (the operand) with `aux` as side atoms
/// (stop rules, second conjunct, ofRule).
pub fn apply_ops(xs: &[R], aux: &[R], fields: &[&str], nth: bool) -> Vec<R> {
  let mut out = vec![];
  for x in xs {
    out.push(R::Not(Box::new(x.clone())));
  }
  for x in xs {
    for a in aux {
      out.push(R::All(vec![x.clone(), a.clone()]));
      out.push(R::Any(vec![x.clone(), a.clone()]));
      out.push(R::All(vec![a.clone(), R::Not(Box::new(x.clone()))]));
    }
  }
  for k in 0..4 {
    for x in xs {
      let mut stops = vec![Stop::Neighbor, Stop::End];
      for a in aux {
        stops.push(Stop::Rule(Box::new(a.clone())));
      }
      for s in stops {
        let mut fs: Vec<Option<String>> = vec![None];
        if k < 2 {
          for f in fields {
            fs.push(Some(f.to_string()));
          }
        }
        for f in fs {
          out.push(rel(
            k,
            Rel {
              rule: x.clone(),
              stop: s.clone(),
              field: f,
            },
          ));
        }
      }
    }
  }
  if nth {
    for pos in NTH_POS {
      for rev in [false, true] {
        out.push(R::Nth {
          pos: pos.to_string(),
          reverse: rev,
          of: None,
        });
        for x in xs {
          out.push(R::Nth {
            pos: pos.to_string(),
            reverse: rev,
            of: Some(Box::new(x.clone())),
          });
        }
      }
    }
  }
  out
}

/// depth-0 (atoms), depth-1 and optionally depth-2 rule trees
pub fn rules_up_to(la: &LangAtoms, depth: usize, n_kinds: usize, with_patterns: bool) -> Vec<R> {
  let at = atoms(la, n_kinds, with_patterns);
  let aux: Vec<R> = at.iter().take(2).cloned().collect();
  let mut all = at.clone();
  if depth == 0 {
    return all;
  }
  let d1 = apply_ops(&at, &aux, la.fields, true);
  all.extend(d1.iter().cloned());
  if depth >= 2 {
    // operators over depth-1 rules; aux restricted to one atom, two fields, no bare nth forms
    let aux1: Vec<R> = at.iter().take(1).cloned().collect();
    let f2: Vec<&str> = la.fields.iter().take(1).cloned().collect();
    let d2 = apply_ops(&d1, &aux1, &f2, false);
    all.extend(d2);
    // nthChild whose ofRule is relational / composite
    for r in d1.iter().filter(|r| !matches!(r, R::Nth { .. })) {
      for (pos, rev) in [("1", false), ("2n", true)] {
        all.push(R::Nth {
          pos: pos.to_string(),
          reverse: rev,
          of: Some(Box::new(r.clone())),
        });
      }
    }
    // multi-key objects: atomic + relational + composite keys in one object
    for k in at.iter().take(2) {
      for r in d1.iter().filter(|r| matches!(r, R::Inside(_) | R::Has(_) | R::Not(_))).take(40) {
        if r.key() != k.key() {
          all.push(R::Obj(vec![r.clone(), k.clone()]));
        }
      }
    }
  }
  all
}
