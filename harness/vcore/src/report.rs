//! Verdict plumbing shared by every check binary: argument parsing, violation grouping,
//! known-findings matching, replay files, evidence files, exit codes.
//!
//! exit 0: property held on everything explored (KNOWN-FINDING lines allowed)
//! exit 1: at least one violation whose signature is not listed in known_findings.json
//! exit 2: machinery failure (never a verdict)

use serde_json::{json, Value};
use std::collections::BTreeMap;
use std::path::PathBuf;
use std::sync::Mutex;
use std::time::Instant;

pub const VERIF_ROOT: &str = "/verif";

/// where evidence and replay files go: /verif, unless VERIF_OUT names a scratch directory
/// (used only when a check is tried against a mutated scratch copy of the subject)
pub fn out_root() -> String {
  std::env::var("VERIF_OUT").unwrap_or_else(|_| VERIF_ROOT.to_string())
}

#[derive(Clone, Debug)]
pub struct Args {
  pub tier: String,
  pub seed: i64,
  pub replay: Option<PathBuf>,
  pub extra: Vec<String>,
}

impl Args {
  pub fn parse() -> Args {
    let mut tier = std::env::var("VERIF_TIER").unwrap_or_else(|_| "quick".into());
    let seed = std::env::var("VERIF_SEED")
      .ok()
      .and_then(|s| s.parse().ok())
      .unwrap_or(0);
    let mut replay = None;
    let mut extra = vec![];
    let mut it = std::env::args().skip(1);
    while let Some(a) = it.next() {
      match a.as_str() {
        "--tier" => tier = it.next().unwrap_or_else(|| machinery("--tier needs a value")),
        "--replay" => {
          replay = Some(PathBuf::from(
            it.next().unwrap_or_else(|| machinery("--replay needs a path")),
          ))
        }
        _ => extra.push(a),
      }
    }
    if tier != "quick" && tier != "thorough" {
      machinery(&format!("unknown tier {tier}"));
    }
    Args {
      tier,
      seed,
      replay,
      extra,
    }
  }
  pub fn thorough(&self) -> bool {
    self.tier == "thorough"
  }
}

pub fn machinery(msg: &str) -> ! {
  eprintln!("MACHINERY-ERROR: {msg}");
  std::process::exit(2)
}

#[derive(Clone, Debug)]
struct Known {
  sig: String,
  prefix: bool,
  what: String,
}

struct Group {
  count: u64,
  example: Value,
  example_key: (usize, String),
}

pub struct Reporter {
  pub prop: String,
  pub args: Args,
  start: Instant,
  known: Vec<Known>,
  groups: Mutex<BTreeMap<String, Group>>,
}

impl Reporter {
  pub fn new(prop: &str, args: Args) -> Reporter {
    let path = format!("{VERIF_ROOT}/known_findings.json");
    let mut known = vec![];
    if let Ok(text) = std::fs::read_to_string(&path) {
      let v: Value = serde_json::from_str(&text)
        .unwrap_or_else(|e| machinery(&format!("known_findings.json does not parse: {e}")));
      for f in v["findings"].as_array().cloned().unwrap_or_default() {
        if f["property"].as_str() != Some(prop) || f["status"].as_str() != Some("known") {
          continue; // `fixed` entries suppress nothing
        }
        known.push(Known {
          sig: f["sig"].as_str().unwrap_or("").to_string(),
          prefix: f["sig_is_prefix"].as_bool().unwrap_or(false),
          what: f["what"].as_str().unwrap_or("").to_string(),
        });
      }
    }
    Reporter {
      prop: prop.to_string(),
      args,
      start: Instant::now(),
      known,
      groups: Mutex::new(BTreeMap::new()),
    }
  }

  /// Record one violation. `sig` names the *specific* failing class (it is what
  /// known_findings.json is keyed by); `case` is a self-contained replayable description.
  pub fn violation(&self, sig: &str, case: Value) {
    let s = case.to_string();
    let key = (s.len(), s);
    let mut g = self.groups.lock().unwrap();
    match g.get_mut(sig) {
      Some(gr) => {
        gr.count += 1;
        if key < gr.example_key {
          gr.example = case;
          gr.example_key = key;
        }
      }
      None => {
        g.insert(
          sig.to_string(),
          Group {
            count: 1,
            example: case,
            example_key: key,
          },
        );
      }
    }
  }

  pub fn violation_count(&self) -> u64 {
    self.groups.lock().unwrap().values().map(|g| g.count).sum()
  }

  fn is_known(&self, sig: &str) -> Option<&Known> {
    self.known.iter().find(|k| {
      if k.prefix {
        sig.starts_with(&k.sig)
      } else {
        sig == k.sig
      }
    })
  }

  pub fn elapsed(&self) -> f64 {
    self.start.elapsed().as_secs_f64()
  }

  /// Write evidence, print verdict lines, exit.
  pub fn finish(self, level: &str, mut coverage: Value, assumptions: Vec<String>) -> ! {
    let groups = self.groups.lock().unwrap();
    let dir = format!("{}/replays/{}", out_root(), self.prop);
    let _ = std::fs::create_dir_all(&dir);
    let mut unknown = 0u64;
    let mut unknown_classes = 0u64;
    let mut known_cnt = 0u64;
    let mut lines = vec![];
    let mut summary = vec![];
    let mut known_lines: BTreeMap<String, (u64, u64, String)> = BTreeMap::new();
    for (i, (sig, g)) in groups.iter().enumerate() {
      let replay = json!({"property": self.prop, "sig": sig, "count_in_run": g.count, "case": g.example});
      match self.is_known(sig) {
        Some(k) => {
          known_cnt += g.count;
          // one KNOWN-FINDING line per LISTED finding (an entry may cover several signatures)
          let e = known_lines.entry(k.sig.clone()).or_insert((0u64, 0u64, k.what.clone()));
          e.0 += g.count;
          e.1 += 1;
          summary.push(json!({"sig": sig, "known": true, "count": g.count, "example": g.example}));
        }
        None => {
          unknown += g.count;
          unknown_classes += 1;
          if unknown_classes > 20 {
            summary.push(json!({"sig": sig, "known": false, "count": g.count, "example": g.example}));
            continue;
          }
          let path = format!("{dir}/{}_{}.json", self.args.tier, i);
          std::fs::write(&path, serde_json::to_string_pretty(&replay).unwrap())
            .unwrap_or_else(|e| machinery(&format!("cannot write replay {path}: {e}")));
          lines.push(format!("VIOLATION property={} replay={}", self.prop, path));
          eprintln!(
            "violation class sig={sig} cases={} smallest={}",
            g.count, g.example
          );
          summary.push(json!({"sig": sig, "known": false, "count": g.count, "example": g.example}));
        }
      }
    }
    for (ksig, (cases, sigs, what)) in &known_lines {
      lines.push(format!(
        "KNOWN-FINDING: property={} sig={} cases={} distinct_sigs={} {}",
        self.prop, ksig, cases, sigs, what
      ));
    }
    let wall = self.start.elapsed().as_secs_f64();
    if let Some(obj) = coverage.as_object_mut() {
      obj.insert("violation_classes".into(), Value::Array(summary));
      obj.insert("known_finding_cases".into(), json!(known_cnt));
    }
    let ev = json!({
      "property_id": self.prop,
      "tier": self.args.tier,
      "seed": self.args.seed,
      "level": level,
      "coverage": coverage,
      "assumptions": assumptions,
      "wall_s": wall,
      "violations": unknown,
    });
    let evdir = format!("{}/evidence", out_root());
    let _ = std::fs::create_dir_all(&evdir);
    let evpath = format!("{evdir}/{}.json", self.prop);
    std::fs::write(&evpath, serde_json::to_string_pretty(&ev).unwrap())
      .unwrap_or_else(|e| machinery(&format!("cannot write evidence {evpath}: {e}")));
    for l in &lines {
      println!("{l}");
    }
    if unknown_classes > 20 {
      println!("({} further violation classes are listed in the evidence file only)", unknown_classes - 20);
    }
    println!(
      "{}: tier={} wall={:.1}s unknown_violations={} known_finding_cases={}",
      self.prop, self.args.tier, wall, unknown, known_cnt
    );
    std::process::exit(if unknown > 0 { 1 } else { 0 })
  }
}

/// Keep at most `n` samples, deterministically (first n pushed).
pub struct Samples {
  n: usize,
  v: Mutex<Vec<Value>>,
}
impl Samples {
  pub fn new(n: usize) -> Self {
    Samples {
      n,
      v: Mutex::new(vec![]),
    }
  }
  pub fn offer(&self, f: impl FnOnce() -> Value) {
    let mut v = self.v.lock().unwrap();
    if v.len() < self.n {
      v.push(f());
    }
  }
  pub fn take(&self) -> Vec<Value> {
    std::mem::take(&mut *self.v.lock().unwrap())
  }
}

/// Run `f`, turning a panic into Err(message). The default panic hook is silenced for the
/// duration by the caller (see `quiet_panics`).
pub fn guarded<T>(f: impl FnOnce() -> T + std::panic::UnwindSafe) -> Result<T, String> {
  match std::panic::catch_unwind(f) {
    Ok(v) => Ok(v),
    Err(e) => {
      let msg = if let Some(s) = e.downcast_ref::<&str>() {
        s.to_string()
      } else if let Some(s) = e.downcast_ref::<String>() {
        s.clone()
      } else {
        "panic".to_string()
      };
      Err(msg)
    }
  }
}

thread_local! {
  pub static LAST_PANIC_LOC: std::cell::RefCell<String> = const { std::cell::RefCell::new(String::new()) };
}

/// Install a panic hook that records `file:line` of the panic in a thread local instead of
/// printing. Subjects are always wrapped in `guarded`.
pub fn quiet_panics() {
  std::panic::set_hook(Box::new(|info| {
    let loc = info
      .location()
      .map(|l| format!("{}:{}", l.file(), l.line()))
      .unwrap_or_default();
    LAST_PANIC_LOC.with(|c| *c.borrow_mut() = loc);
  }));
}

pub fn last_panic_loc() -> String {
  LAST_PANIC_LOC.with(|c| c.borrow().clone())
}
