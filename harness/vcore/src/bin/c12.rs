//! C12 — accepted rules are self-consistent: variables, references and rewriters resolve.
//!
//! Space: every BASE rule document (JavaScript) of the cross product
//!   rule shape (R) x utilities and how they are used (U) x constraints (K) x transforms (T)
//!   x rewriters (W) x fix content and form (F),
//! and from each base EVERY document with exactly one perturbation at every applicable site
//! (rename / remove a variable, rename a `matches` / rewriter reference or its definition, close a
//! transform cycle of length 1..3, close a same-node utility cycle through every route, replace the
//! top-level rule by a shape without a kind-bearing atom).
//!
//! Oracle 1 (only-if): a perturbed document for which `ref_vars` (below, written from the
//!   statement) reports a broken condition must be rejected by `from_yaml_string` — no Ok, no
//!   panic, no crash. Documents `ref_vars` still considers valid are counted, not judged.
//! Oracle 2 (converse): for every base document (all must load) and its matching source, the fix
//!   text produced by `get_fixer` + `NodeMatch::make_edit` and the text of `get_message` equal the
//!   reference expansion of the template from the match environment.
//!
//! Every call into ast-grep happens in CHILD processes (`--child`, JSON lines on stdin/stdout):
//! a cyclic document may overflow the stack while loading or matching; the parent blames the case
//! in flight and restarts the child.

use ast_grep_config::{from_yaml_string, GlobalRules};
use ast_grep_core::Language;
use ast_grep_language::SupportLang;
use rayon::prelude::*;
use serde_json::{json, Map, Value};
use std::collections::{BTreeMap, BTreeSet, HashSet};
use std::io::{BufRead, BufReader, Read, Write};
use std::process::{Child, ChildStdin, ChildStdout, Command, Stdio};
use std::sync::atomic::{AtomicU64, Ordering};
use std::sync::Mutex;
use vcore::report::*;

// ------------------------------------------------------------------------------------------
// child: the only place where ast-grep is called
// ------------------------------------------------------------------------------------------

fn err_chain(e: &dyn std::error::Error) -> String {
  let mut s = e.to_string();
  let mut cur = e.source();
  while let Some(c) = cur {
    s.push_str(" <- ");
    s.push_str(&c.to_string());
    cur = c.source();
  }
  s
}

/// load `doc`; if `src` is given and the document loads, run it and report, per match, the
/// bindings of `names`, the fix text and the message
fn observe(doc: &str, src: Option<&str>, names: &[String]) -> Value {
  let loaded = guarded(std::panic::AssertUnwindSafe(|| {
    from_yaml_string::<SupportLang>(doc, &GlobalRules::default()).map_err(|e| err_chain(&e))
  }));
  let configs = match loaded {
    Err(p) => return json!({"load": "panic", "msg": p, "at": last_panic_loc()}),
    Ok(Err(e)) => return json!({"load": "err", "msg": e}),
    Ok(Ok(c)) => c,
  };
  let Some(src) = src else {
    return json!({"load": "ok"});
  };
  let run = guarded(std::panic::AssertUnwindSafe(|| {
    let mut out = vec![];
    for config in &configs {
      let grep = config.language.ast_grep(src);
      let fixer = match config.get_fixer() {
        Ok(f) => f,
        Err(e) => {
          out.push(json!({"get_fixer_error": err_chain(&e)}));
          continue;
        }
      };
      for nm in grep.root().find_all(&config.matcher) {
        let env = nm.get_env();
        let (mut single, mut multi, mut transformed) = (Map::new(), Map::new(), Map::new());
        for n in names {
          if let Some(node) = env.get_match(n) {
            single.insert(n.clone(), json!(node.text().to_string()));
          }
          let ms = env.get_multiple_matches(n);
          if !ms.is_empty() {
            let (s, e) = (ms[0].range().start, ms[ms.len() - 1].range().end);
            multi.insert(n.clone(), json!(src[s..e].to_string()));
          }
          if let Some(b) = env.get_transformed(n) {
            transformed.insert(n.clone(), json!(String::from_utf8_lossy(b).to_string()));
          }
        }
        let fix = fixer.as_ref().map(|f| {
          let e = nm.make_edit(&config.matcher, f);
          String::from_utf8_lossy(&e.inserted_text).to_string()
        });
        let message = config.get_message(&nm);
        out.push(json!({
          "range": [nm.range().start, nm.range().end],
          "single": single, "multi": multi, "transformed": transformed,
          "fix": fix, "message": message,
        }));
      }
    }
    out
  }));
  match run {
    Ok(m) => json!({"load": "ok", "matches": m}),
    Err(p) => json!({"load": "ok", "run_panic": p, "at": last_panic_loc()}),
  }
}

fn child_main() -> ! {
  quiet_panics();
  let stdin = std::io::stdin();
  let stdout = std::io::stdout();
  for line in stdin.lock().lines() {
    let Ok(line) = line else { break };
    if line.trim().is_empty() {
      continue;
    }
    let req: Value = match serde_json::from_str(&line) {
      Ok(v) => v,
      Err(e) => {
        eprintln!("child: bad request: {e}");
        std::process::exit(3);
      }
    };
    if let Some(gs) = req["globals"].as_array() {
      // a set of global utility rule files (utilDirs): accepted or rejected as a whole
      let gs = gs.clone();
      let doc_with_globals: Option<String> = req["doc"].as_str().map(String::from);
      let r = guarded(std::panic::AssertUnwindSafe(move || {
        let mut v = vec![];
        for g in gs {
          match serde_json::from_value(g) {
            Ok(x) => v.push(x),
            Err(e) => return Err(format!("deserialize: {e}")),
          }
        }
        let globals = ast_grep_config::DeserializeEnv::<SupportLang>::parse_global_utils(v).map_err(|e| err_chain(&e))?;
        // optionally a rule file loaded against these global utilities
        if let Some(d) = doc_with_globals.as_deref() {
          from_yaml_string::<SupportLang>(d, &globals).map(|_| ()).map_err(|e| format!("rule: {}", err_chain(&e)))?;
        }
        Ok(())
      }));
      let resp = match r {
        Err(p) => json!({"load": "panic", "msg": p, "at": last_panic_loc()}),
        Ok(Err(e)) => json!({"load": "err", "msg": e}),
        Ok(Ok(())) => json!({"load": "ok"}),
      };
      let mut o = stdout.lock();
      let _ = writeln!(o, "{resp}");
      let _ = o.flush();
      continue;
    }
    let names: Vec<String> = req["names"].as_array().map(|a| a.iter().filter_map(|x| x.as_str().map(String::from)).collect()).unwrap_or_default();
    let resp = observe(req["doc"].as_str().unwrap_or(""), req["src"].as_str(), &names);
    let mut o = stdout.lock();
    let _ = writeln!(o, "{resp}");
    let _ = o.flush();
  }
  std::process::exit(0)
}

// ------------------------------------------------------------------------------------------
// parent side of the child protocol
// ------------------------------------------------------------------------------------------

struct Worker {
  proc: Option<(Child, ChildStdin, BufReader<ChildStdout>)>,
}

impl Worker {
  fn new() -> Worker {
    Worker { proc: None }
  }
  fn spawn(&mut self) {
    let exe = std::env::current_exe().unwrap_or_else(|e| machinery(&format!("current_exe: {e}")));
    let mut c = Command::new(exe)
      .arg("--child")
      .stdin(Stdio::piped())
      .stdout(Stdio::piped())
      .stderr(Stdio::piped())
      .spawn()
      .unwrap_or_else(|e| machinery(&format!("cannot spawn child: {e}")));
    let i = c.stdin.take().unwrap();
    let o = BufReader::new(c.stdout.take().unwrap());
    self.proc = Some((c, i, o));
  }
  /// Ok(response) or Err(description of how the child died on this request)
  fn ask_globals(&mut self, globals: &[Value]) -> Result<Value, String> {
    self.ask_raw(json!({"globals": globals}))
  }

  fn ask_globals_doc(&mut self, globals: &[Value], doc: &Value) -> Result<Value, String> {
    self.ask_raw(json!({"globals": globals, "doc": doc.to_string()}))
  }

  fn ask(&mut self, doc: &str, src: Option<&str>, names: &[String]) -> Result<Value, String> {
    self.ask_raw(json!({"doc": doc, "src": src, "names": names}))
  }

  fn ask_raw(&mut self, req: Value) -> Result<Value, String> {
    if self.proc.is_none() {
      self.spawn();
    }
    let (_, i, o) = self.proc.as_mut().unwrap();
    let wrote = writeln!(i, "{req}").and_then(|_| i.flush());
    let mut line = String::new();
    let got = if wrote.is_ok() { o.read_line(&mut line).unwrap_or(0) } else { 0 };
    if got > 0 {
      if let Ok(v) = serde_json::from_str::<Value>(&line) {
        return Ok(v);
      }
    }
    // the child died (or answered garbage): collect how
    let (mut c, i, _) = self.proc.take().unwrap();
    drop(i);
    let _ = c.kill();
    let status = c.wait().ok();
    let mut err = String::new();
    if let Some(mut e) = c.stderr.take() {
      let _ = e.read_to_string(&mut err);
    }
    let how = if err.contains("overflowed its stack") {
      "stack-overflow".to_string()
    } else {
      use std::os::unix::process::ExitStatusExt;
      match status {
        Some(s) if s.signal().is_some() => format!("signal-{}", s.signal().unwrap()),
        Some(s) => format!("exit-{}", s.code().unwrap_or(-1)),
        None => "unknown".into(),
      }
    };
    Err(how)
  }
}

impl Drop for Worker {
  fn drop(&mut self) {
    if let Some((mut c, i, _)) = self.proc.take() {
      drop(i);
      let _ = c.wait();
    }
  }
}

// ------------------------------------------------------------------------------------------
// small scanners (written from the statement: `$NAME` single, `$$$NAME` multi)
// ------------------------------------------------------------------------------------------

#[derive(Clone, Debug, PartialEq)]
enum Piece {
  Lit(String),
  Var { multi: bool, name: String, start: usize, end: usize },
}

fn is_name_start(c: u8) -> bool {
  c.is_ascii_uppercase() || c == b'_'
}
fn is_name_char(c: u8) -> bool {
  c.is_ascii_uppercase() || c.is_ascii_digit() || c == b'_'
}

/// `$NAME` / `$$$NAME` occurrences of a text (pattern or template). `$$NAME` is not in the alphabet.
fn scan(t: &str) -> Vec<Piece> {
  let b = t.as_bytes();
  let mut out = vec![];
  let mut lit = String::new();
  let mut i = 0;
  while i < b.len() {
    if b[i] == b'$' {
      let mut k = 0;
      while i + k < b.len() && b[i + k] == b'$' && k < 3 {
        k += 1;
      }
      let ns = i + k;
      let mut j = ns;
      if j < b.len() && is_name_start(b[j]) {
        while j < b.len() && is_name_char(b[j]) {
          j += 1;
        }
      }
      if j > ns && (k == 1 || k == 3) {
        if !lit.is_empty() {
          out.push(Piece::Lit(std::mem::take(&mut lit)));
        }
        out.push(Piece::Var { multi: k == 3, name: t[ns..j].to_string(), start: i, end: j });
        i = j;
        continue;
      }
    }
    // literal byte (templates here are ASCII)
    lit.push(b[i] as char);
    i += 1;
  }
  if !lit.is_empty() {
    out.push(Piece::Lit(lit));
  }
  out
}

/// captured names of a text; names starting with `_` capture nothing
fn captures(t: &str) -> Vec<(bool, String, usize, usize)> {
  scan(t)
    .into_iter()
    .filter_map(|p| match p {
      Piece::Var { multi, name, start, end } if !name.starts_with('_') => Some((multi, name, start, end)),
      _ => None,
    })
    .collect()
}

// ------------------------------------------------------------------------------------------
// ref_vars: which conditions of the statement does a document break?
// ------------------------------------------------------------------------------------------

fn collect_pattern_vars(v: &Value, out: &mut BTreeSet<String>) {
  match v {
    Value::Object(m) => {
      for (k, x) in m {
        if k == "pattern" {
          if let Some(s) = x.as_str() {
            for (_, n, _, _) in captures(s) {
              out.insert(n);
            }
            continue;
          }
        }
        collect_pattern_vars(x, out);
      }
    }
    Value::Array(a) => a.iter().for_each(|x| collect_pattern_vars(x, out)),
    _ => {}
  }
}

fn collect_matches(v: &Value, out: &mut Vec<String>) {
  match v {
    Value::Object(m) => {
      for (k, x) in m {
        if k == "matches" {
          if let Some(s) = x.as_str() {
            out.push(s.to_string());
            continue;
          }
        }
        collect_matches(x, out);
      }
    }
    Value::Array(a) => a.iter().for_each(|x| collect_matches(x, out)),
    _ => {}
  }
}

/// `matches` references of a rule that are evaluated on the SAME node as the rule itself:
/// directly, under all / any / not, and under nthChild.ofRule (evaluated on the node among its
/// siblings). Relational operators move to another node and are not followed.
fn same_node_edges(rule: &Value, via: &mut Vec<&'static str>, out: &mut Vec<(String, String)>) {
  let Some(m) = rule.as_object() else { return };
  for (k, x) in m {
    match k.as_str() {
      "matches" => {
        if let Some(s) = x.as_str() {
          let label = if via.is_empty() { "matches".to_string() } else { via.join(">") };
          out.push((s.to_string(), label));
        }
      }
      "all" | "any" => {
        via.push(if k == "all" { "all" } else { "any" });
        if let Some(a) = x.as_array() {
          a.iter().for_each(|r| same_node_edges(r, via, out));
        }
        via.pop();
      }
      "not" => {
        via.push("not");
        same_node_edges(x, via, out);
        via.pop();
      }
      "nthChild" => {
        if let Some(of) = x.get("ofRule") {
          via.push("nthChild.ofRule");
          same_node_edges(of, via, out);
          via.pop();
        }
      }
      _ => {}
    }
  }
}

type Graph = BTreeMap<String, Vec<(String, String)>>;

fn util_graph(utils: &Map<String, Value>) -> Graph {
  let mut g = Graph::new();
  for (k, r) in utils {
    let mut e = vec![];
    same_node_edges(r, &mut vec![], &mut e);
    e.retain(|(t, _)| utils.contains_key(t));
    g.insert(k.clone(), e);
  }
  g
}

/// all simple cycles (each reported from its smallest member): (length, via labels)
fn util_cycles(g: &Graph) -> Vec<(usize, String)> {
  fn dfs(g: &Graph, start: &str, cur: &str, path: &mut Vec<String>, vias: &mut Vec<String>, out: &mut Vec<(usize, String)>) {
    for (t, via) in g.get(cur).map(|v| v.as_slice()).unwrap_or(&[]) {
      if t == start {
        let mut vs: Vec<String> = vias.clone();
        vs.push(via.clone());
        vs.sort();
        vs.dedup();
        out.push((path.len(), vs.join("+")));
      } else if t.as_str() > start && !path.contains(t) {
        path.push(t.clone());
        vias.push(via.clone());
        dfs(g, start, t, path, vias, out);
        path.pop();
        vias.pop();
      }
    }
  }
  let mut out = vec![];
  for k in g.keys() {
    dfs(g, k, k, &mut vec![k.clone()], &mut vec![], &mut out);
  }
  out
}

fn transform_source(t: &Value) -> Option<(&str, &str)> {
  let (op, body) = t.as_object()?.iter().next()?;
  Some((op.as_str(), body.get("source")?.as_str()?))
}

fn source_name(src: &str) -> String {
  src.trim_start_matches('$').to_string()
}

fn transform_cycles(tr: &Map<String, Value>) -> Vec<usize> {
  let dep = |k: &str| -> Option<String> {
    let n = source_name(transform_source(tr.get(k)?)?.1);
    tr.contains_key(&n).then_some(n)
  };
  let mut out = vec![];
  for k in tr.keys() {
    // follow the (functional) dependency chain from k; a cycle is reported from its smallest key
    let mut path = vec![k.clone()];
    let mut cur = k.clone();
    while let Some(n) = dep(&cur) {
      if &n == k {
        if path.iter().all(|p| p >= k) {
          out.push(path.len());
        }
        break;
      }
      if path.contains(&n) {
        break;
      }
      path.push(n.clone());
      cur = n;
    }
  }
  out
}

/// can the rule only match a known set of node kinds? (`utils` resolves `matches`)
fn kinds_known(rule: &Value, utils: &Map<String, Value>, depth: usize) -> bool {
  let Some(m) = rule.as_object() else { return false };
  // a rule object is the conjunction of its keys: known as soon as one conjunct is known
  m.iter().any(|(k, x)| match k.as_str() {
    "pattern" => x.as_str().map(|s| !matches!(scan(s).as_slice(), [Piece::Var { .. }])).unwrap_or(true),
    "kind" => true,
    "all" => x.as_array().map(|a| a.iter().any(|r| kinds_known(r, utils, depth))).unwrap_or(false),
    "any" => x.as_array().map(|a| !a.is_empty() && a.iter().all(|r| kinds_known(r, utils, depth))).unwrap_or(false),
    "matches" => match x.as_str().and_then(|id| utils.get(id)) {
      // a cyclic utility is judged by the cycle condition, not here
      Some(r) => depth > 8 || kinds_known(r, utils, depth + 1),
      None => true, // unresolved: judged by the resolution condition
    },
    "nthChild" => x.get("ofRule").map(|r| kinds_known(r, utils, depth)).unwrap_or(false),
    _ => false, // regex, range, not, inside, has, precedes, follows: any kind may match
  })
}

fn empty_map() -> &'static Map<String, Value> {
  static E: std::sync::OnceLock<Map<String, Value>> = std::sync::OnceLock::new();
  E.get_or_init(Map::new)
}

fn obj<'a>(v: &'a Value, key: &str) -> &'a Map<String, Value> {
  v.get(key).and_then(|x| x.as_object()).unwrap_or_else(|| empty_map())
}

fn fix_template(fix: &Value) -> Option<(&str, &'static str)> {
  match fix {
    Value::String(s) => Some((s, "string-form")),
    Value::Object(m) => m.get("template").and_then(|t| t.as_str()).map(|t| (t, "object-form")),
    _ => None,
  }
}

/// The reference analysis. Returns the tags of the broken conditions (empty = consistent).
/// It is deliberately permissive about what counts as "defined" (anything captured anywhere in the
/// rule / any utility / any constraint, any transformation key), so that it never demands a
/// rejection the statement does not demand.
fn ref_vars(doc: &Value) -> Vec<String> {
  let mut tags = BTreeSet::new();
  let rewriters: Vec<&Value> = doc.get("rewriters").and_then(|r| r.as_array()).map(|a| a.iter().collect()).unwrap_or_default();
  // every utility of the file
  let mut all_utils = obj(doc, "utils").clone();
  for rw in &rewriters {
    for (k, v) in obj(rw, "utils") {
      all_utils.insert(k.clone(), v.clone());
    }
  }
  let rewriter_ids: BTreeSet<String> = rewriters.iter().filter_map(|r| r["id"].as_str().map(String::from)).collect();
  let mut util_vars = BTreeSet::new();
  for r in all_utils.values() {
    collect_pattern_vars(r, &mut util_vars);
  }
  let scope_defs = |core: &Value| -> BTreeSet<String> {
    let mut d = util_vars.clone();
    collect_pattern_vars(&core["rule"], &mut d);
    for r in obj(core, "constraints").values() {
      collect_pattern_vars(r, &mut d);
    }
    for k in obj(core, "transform").keys() {
      d.insert(k.clone());
    }
    d
  };
  let main_defs = scope_defs(doc);
  let mut check_core = |core: &Value, defs: &BTreeSet<String>, who: &str| {
    for k in obj(core, "constraints").keys() {
      if !defs.contains(k) {
        tags.insert(format!("undefined-var:{who}constraints-key"));
      }
    }
    for t in obj(core, "transform").values() {
      if let Some((op, src)) = transform_source(t) {
        if !defs.contains(&source_name(src)) {
          tags.insert(format!("undefined-var:{who}transform-source"));
        }
        if op == "rewrite" {
          for id in t["rewrite"]["rewriters"].as_array().map(|a| a.as_slice()).unwrap_or(&[]) {
            if !id.as_str().map(|s| rewriter_ids.contains(s)).unwrap_or(false) {
              tags.insert(format!("unresolved-rewriter:in={who}transform"));
            }
          }
        }
      }
    }
    if let Some((tpl, form)) = core.get("fix").and_then(fix_template) {
      for p in scan(tpl) {
        if let Piece::Var { name, .. } = p {
          if !defs.contains(&name) {
            tags.insert(format!("undefined-var:{who}fix:{form}"));
          }
        }
      }
    }
    for len in transform_cycles(obj(core, "transform")) {
      tags.insert(format!("transform-cycle:{who}len={len}"));
    }
    // `matches` references, by place
    let mut places: Vec<(&str, Vec<String>)> = vec![];
    let mut m = vec![];
    collect_matches(&core["rule"], &mut m);
    places.push(("rule", m));
    let mut m = vec![];
    obj(core, "constraints").values().for_each(|r| collect_matches(r, &mut m));
    places.push(("constraints", m));
    let mut m = vec![];
    obj(core, "utils").values().for_each(|r| collect_matches(r, &mut m));
    places.push(("utils", m));
    let mut m = vec![];
    if let Some(f) = core.get("fix") {
      collect_matches(f, &mut m);
    }
    places.push(("fix-expansion", m));
    for (place, ids) in places {
      if ids.iter().any(|id| !all_utils.contains_key(id)) {
        tags.insert(format!("unresolved-matches:in={who}{place}"));
      }
    }
  };
  check_core(doc, &main_defs, "");
  for rw in &rewriters {
    let mut d = scope_defs(rw);
    d.extend(main_defs.iter().cloned());
    check_core(rw, &d, "rewriter-");
  }
  for (len, via) in util_cycles(&util_graph(&all_utils)) {
    // the crisp distinction: does the cycle pass through nthChild.ofRule, or only through
    // matches / all / any / not?
    if via.contains("nthChild.ofRule") {
      tags.insert("util-cycle:through-nthChild.ofRule".to_string());
    } else {
      tags.insert(format!("util-cycle:through-matches-all-any-not-only:len={len}"));
    }
  }
  if !kinds_known(&doc["rule"], &all_utils, 0) {
    tags.insert("no-kind-bearing-atom".to_string());
  }
  tags.into_iter().collect()
}

// ------------------------------------------------------------------------------------------
// base documents
// ------------------------------------------------------------------------------------------

#[derive(Clone)]
struct Base {
  label: String,
  doc: Value,
  src: String,
  /// names of all variables that a successful match binds by construction
  bound: Vec<String>,
}

struct Dims {
  r: Vec<&'static str>,
  u: Vec<&'static str>,
  k: Vec<&'static str>,
  t: Vec<&'static str>,
  w: Vec<&'static str>,
  fc: Vec<&'static str>,
  ff: Vec<&'static str>,
}

fn dims(thorough: bool) -> Dims {
  if thorough {
    Dims {
      r: vec!["one", "two", "multi"],
      u: vec!["none", "direct", "all", "any", "not", "inside", "has", "chain2", "chain3", "utilvar", "ofrule", "ofrulevar"],
      k: vec!["none", "regex", "two", "bindc", "matches"],
      t: vec!["none", "substring", "replace", "convert", "chain2", "chain3", "chain2r", "chain3r", "fromc", "indep"],
      w: vec!["none", "one", "two", "nested", "outer"],
      fc: vec!["captured", "transformed", "both"],
      ff: vec!["string", "object", "object-expand", "object-expand-matches", "object-expand-both"],
    }
  } else {
    Dims {
      r: vec!["one", "two", "multi"],
      u: vec!["none", "direct", "all", "any", "not", "inside", "has", "chain2", "chain3", "utilvar", "ofrule", "ofrulevar"],
      k: vec!["none", "two", "bindc", "matches"],
      t: vec!["none", "chain2", "chain3", "chain2r", "chain3r", "fromc"],
      w: vec!["none", "one", "two", "nested", "outer"],
      fc: vec!["captured", "both"],
      ff: vec!["string", "object", "object-expand-matches", "object-expand-both"],
    }
  }
}

fn build_base(r: &str, u: &str, k: &str, t: &str, w: &str, fc: &str, ff: &str) -> Option<Base> {
  // ---- rule shape
  let (pattern, mut singles, multis): (&str, Vec<&str>, Vec<&str>) = match r {
    "one" => ("foo($A)", vec!["A"], vec![]),
    "two" => ("foo($A, $B)", vec!["A", "B"], vec![]),
    _ => ("foo($$$ARGS)", vec![], vec!["ARGS"]),
  };
  let primary = if r == "multi" { "$$$ARGS" } else { "$A" };
  // ---- constraints
  let mut constraints = Map::new();
  match k {
    "none" => {}
    "regex" if r != "multi" => {
      constraints.insert("A".into(), json!({"regex": "name"}));
    }
    "two" if r == "two" => {
      constraints.insert("A".into(), json!({"regex": "name"}));
      constraints.insert("B".into(), json!({"kind": "identifier"}));
    }
    "bindc" if r != "multi" => {
      constraints.insert("A".into(), json!({"pattern": "bar($C)"}));
      singles.push("C");
    }
    "matches" if r != "multi" => {
      constraints.insert("A".into(), json!({"matches": "k-arg"}));
    }
    _ => return None,
  }
  let arg1 = if k == "bindc" { "bar(some_name)" } else { "some_name" };
  let src = match r {
    "one" => format!("foo({arg1})"),
    "two" => format!("foo({arg1}, two)"),
    _ => "foo(a_b, c, some_name)".to_string(),
  };
  // ---- utilities
  let mut utils = Map::new();
  if k == "matches" {
    utils.insert("k-arg".into(), json!({"any": [{"kind": "identifier"}, {"kind": "call_expression"}]}));
  }
  let mut rule = json!({"pattern": pattern});
  let first_util: Option<&str>;
  match u {
    "none" => first_util = None,
    "direct" => {
      utils.insert("is-call".into(), json!({"kind": "call_expression"}));
      rule["matches"] = json!("is-call");
      first_util = Some("is-call");
    }
    "all" => {
      utils.insert("is-call".into(), json!({"kind": "call_expression"}));
      rule = json!({"all": [{"pattern": pattern}, {"matches": "is-call"}]});
      first_util = Some("is-call");
    }
    "any" => {
      utils.insert("is-call".into(), json!({"kind": "call_expression"}));
      rule["any"] = json!([{"matches": "is-call"}, {"kind": "number"}]);
      first_util = Some("is-call");
    }
    "not" => {
      utils.insert("is-num".into(), json!({"kind": "number"}));
      rule["not"] = json!({"matches": "is-num"});
      first_util = Some("is-num");
    }
    "inside" => {
      utils.insert("is-stmt".into(), json!({"kind": "expression_statement"}));
      rule["inside"] = json!({"matches": "is-stmt"});
      first_util = Some("is-stmt");
    }
    "has" => {
      utils.insert("is-args".into(), json!({"kind": "arguments"}));
      rule["has"] = json!({"matches": "is-args"});
      first_util = Some("is-args");
    }
    "chain2" => {
      utils.insert("u1".into(), json!({"any": [{"matches": "u2"}, {"kind": "number"}]}));
      utils.insert("u2".into(), json!({"kind": "call_expression"}));
      rule["matches"] = json!("u1");
      first_util = Some("u1");
    }
    "chain3" => {
      utils.insert("u1".into(), json!({"matches": "u2"}));
      utils.insert("u2".into(), json!({"all": [{"matches": "u3"}, {"kind": "call_expression"}]}));
      utils.insert("u3".into(), json!({"not": {"kind": "number"}}));
      rule["matches"] = json!("u1");
      first_util = Some("u1");
    }
    "utilvar" => {
      utils.insert("callee".into(), json!({"has": {"field": "function", "pattern": "$F"}}));
      rule["matches"] = json!("callee");
      singles.push("F");
      first_util = Some("callee");
    }
    "ofrulevar" => {
      // a variable bound ONLY inside nthChild.ofRule: accepted by the checker (it is defined), so it
      // must be bound when the rule matches
      rule["nthChild"] = json!({"position": 1, "ofRule": {"has": {"field": "function", "pattern": "$G"}}});
      singles.push("G");
      first_util = None;
    }
    _ => {
      // "ofrule": the first call among the sibling calls
      utils.insert("is-call".into(), json!({"kind": "call_expression"}));
      utils.insert("first-call".into(), json!({"nthChild": {"position": 1, "ofRule": {"matches": "is-call"}}}));
      rule["matches"] = json!("first-call");
      first_util = Some("first-call");
    }
  }
  // ---- transforms
  let mut transform = Map::new();
  let mut tvars: Vec<&str> = vec![];
  let sub = |s: &str| json!({"substring": {"source": s, "startChar": 1}});
  let rep = |s: &str| json!({"replace": {"source": s, "replace": "a", "by": "X"}});
  let conv = |s: &str| json!({"convert": {"source": s, "toCase": "upperCase"}});
  match t {
    "none" => {}
    "substring" => {
      transform.insert("T1".into(), sub(primary));
      tvars = vec!["T1"];
    }
    "replace" => {
      transform.insert("T1".into(), rep(primary));
      tvars = vec!["T1"];
    }
    "convert" => {
      transform.insert("T1".into(), conv(primary));
      tvars = vec!["T1"];
    }
    "chain2" => {
      transform.insert("T1".into(), conv(primary));
      transform.insert("T2".into(), json!({"substring": {"source": "$T1", "endChar": -1}}));
      tvars = vec!["T1", "T2"];
    }
    "chain3" => {
      transform.insert("T1".into(), rep(primary));
      transform.insert("T2".into(), conv("$T1"));
      transform.insert("T3".into(), sub("$T2"));
      tvars = vec!["T1", "T2", "T3"];
    }
    // the same chains with names whose ALPHABETICAL order is not the dependency order
    "chain2r" => {
      transform.insert("T2".into(), conv(primary));
      transform.insert("T1".into(), json!({"substring": {"source": "$T2", "endChar": -1}}));
      tvars = vec!["T1", "T2"];
    }
    "chain3r" => {
      transform.insert("T2".into(), rep(primary));
      transform.insert("T3".into(), conv("$T2"));
      transform.insert("T1".into(), sub("$T3"));
      tvars = vec!["T1", "T2", "T3"];
    }
    "fromc" if k == "bindc" => {
      transform.insert("T1".into(), conv("$C"));
      tvars = vec!["T1"];
    }
    "indep" if r == "two" => {
      transform.insert("T1".into(), conv("$A"));
      transform.insert("T2".into(), sub("$B"));
      tvars = vec!["T1", "T2"];
    }
    _ => return None,
  }
  // ---- rewriters
  let mut rewriters: Vec<Value> = vec![];
  match w {
    "none" => {}
    "one" => {
      rewriters.push(json!({"id": "rw1", "rule": {"pattern": "$X", "kind": "identifier"}, "fix": "<$X>"}));
      transform.insert("R1".into(), json!({"rewrite": {"rewriters": ["rw1"], "source": primary}}));
      tvars.push("R1");
    }
    "two" => {
      rewriters.push(json!({"id": "rw1", "rule": {"pattern": "$X", "kind": "identifier"},
        "transform": {"XU": {"convert": {"source": "$X", "toCase": "upperCase"}}}, "fix": format!("<$XU of {primary}>")}));
      rewriters.push(json!({"id": "rw2", "utils": {"rw-num": {"kind": "number", "matches": "rw-small"}, "rw-small": {"regex": "^[0-9]+$"}}, "rule": {"matches": "rw-num"}, "fix": {"template": "#"}}));
      transform.insert("R1".into(), json!({"rewrite": {"rewriters": ["rw1", "rw2"], "source": primary}}));
      tvars.push("R1");
    }
    // the rewriter's fix uses a variable of the ENCLOSING rule that only a constraint binds
    "outer" if k == "bindc" => {
      rewriters.push(json!({"id": "rw-outer", "rule": {"pattern": "$X", "kind": "identifier"}, "fix": "<$X|$C>"}));
      transform.insert("R1".into(), json!({"rewrite": {"rewriters": ["rw-outer"], "source": primary}}));
      tvars.push("R1");
    }
    "outer" => return None,
    _ => {
      rewriters.push(json!({"id": "rw1", "rule": {"pattern": "$X", "kind": "identifier"},
        "transform": {"XR": {"rewrite": {"rewriters": ["rw2"], "source": "$X"}}}, "fix": "[$XR]"}));
      rewriters.push(json!({"id": "rw2", "rule": {"pattern": "$Z", "kind": "identifier"}, "constraints": {"Z": {"regex": "name"}}, "fix": "id:$Z"}));
      transform.insert("R1".into(), json!({"rewrite": {"rewriters": ["rw1"], "source": primary}}));
      tvars.push("R1");
    }
  }
  // ---- fix
  let mut items: Vec<String> = vec![];
  if fc != "transformed" {
    items.extend(singles.iter().map(|v| format!("${v}")));
    items.extend(multis.iter().map(|v| format!("$$${v}")));
  }
  if fc != "captured" {
    if tvars.is_empty() {
      return None;
    }
    items.extend(tvars.iter().map(|v| format!("${v}")));
  }
  // literal sigils that start no meta-variable (`$b`, `$ `) stand before every variable occurrence
  let template = format!("$bar({})", items.join(", $ "));
  let fix = match ff {
    "string" => json!(template),
    "object" => json!({"template": template}),
    "object-expand" => json!({"template": template, "expandEnd": {"regex": ","}}),
    "object-expand-both" => json!({"template": template, "expandStart": {"matches": first_util?}, "expandEnd": {"matches": first_util?}}),
    _ => json!({"template": template, "expandEnd": {"matches": first_util?}}),
  };
  let mut doc = json!({
    "id": "c12", "language": "JavaScript", "rule": rule, "fix": fix,
    "message": format!("msg {template}"),
  });
  if !utils.is_empty() {
    doc["utils"] = Value::Object(utils);
  }
  if !constraints.is_empty() {
    doc["constraints"] = Value::Object(constraints);
  }
  if !transform.is_empty() {
    doc["transform"] = Value::Object(transform);
  }
  if !rewriters.is_empty() {
    doc["rewriters"] = Value::Array(rewriters);
  }
  let mut bound: Vec<String> = singles.iter().chain(multis.iter()).chain(tvars.iter()).map(|s| s.to_string()).collect();
  bound.sort();
  Some(Base { label: format!("R={r} U={u} K={k} T={t} W={w} F={fc}/{ff}"), doc, src, bound })
}

fn all_bases(d: &Dims) -> Vec<Base> {
  let mut out = vec![];
  for r in &d.r {
    for u in &d.u {
      for k in &d.k {
        for t in &d.t {
          for w in &d.w {
            for fc in &d.fc {
              for ff in &d.ff {
                if let Some(b) = build_base(r, u, k, t, w, fc, ff) {
                  out.push(b);
                }
              }
            }
          }
        }
      }
    }
  }
  out
}

// ------------------------------------------------------------------------------------------
// perturbations: every document at distance one
// ------------------------------------------------------------------------------------------

struct Perturbed {
  kind: &'static str,
  site: String,
  doc: Value,
}

fn esc(k: &str) -> String {
  k.replace('~', "~0").replace('/', "~1")
}

/// paths of all string values stored under `key` anywhere in the document
fn find_keyed_strings(v: &Value, key: &str, path: &str, out: &mut Vec<String>) {
  match v {
    Value::Object(m) => {
      for (k, x) in m {
        let p = format!("{path}/{}", esc(k));
        if k == key && x.is_string() {
          out.push(p);
        } else {
          find_keyed_strings(x, key, &p, out);
        }
      }
    }
    Value::Array(a) => {
      for (i, x) in a.iter().enumerate() {
        find_keyed_strings(x, key, &format!("{path}/{i}"), out);
      }
    }
    _ => {}
  }
}

fn with(doc: &Value, path: &str, f: impl FnOnce(&mut Value)) -> Value {
  let mut d = doc.clone();
  f(d.pointer_mut(path).unwrap_or_else(|| machinery(&format!("perturbation path {path} missing"))));
  d
}

/// the core sections of a document: ("" = the rule itself, "/rewriters/i" = a rewriter)
fn cores(doc: &Value) -> Vec<String> {
  let mut v = vec![String::new()];
  if let Some(a) = doc.get("rewriters").and_then(|r| r.as_array()) {
    for i in 0..a.len() {
      v.push(format!("/rewriters/{i}"));
    }
  }
  v
}

fn at<'a>(doc: &'a Value, path: &str) -> &'a Value {
  if path.is_empty() {
    doc
  } else {
    doc.pointer(path).unwrap_or(&Value::Null)
  }
}

/// add `{key: val}` as one more conjunct of a rule object
fn add_conjunct(rule: &mut Value, key: &str, val: Value) {
  if rule.get(key).is_none() && rule.is_object() {
    rule[key] = val;
  } else {
    let old = rule.take();
    *rule = json!({"all": [old, {key: val}]});
  }
}

const ROUTES: &[&str] = &["matches", "all", "any", "not", "nthChild.ofRule", "all>not", "any>all", "not>any", "nthChild.ofRule>not", "nthChild.ofRule>any", "not>nthChild.ofRule"];

fn add_same_node_ref(rule: &mut Value, route: &str, target: &str) {
  let m = json!({"matches": target});
  let of = |inner: Value| json!({"position": 1, "ofRule": inner});
  match route {
    "matches" => add_conjunct(rule, "matches", json!(target)),
    "all" => {
      let old = rule.take();
      *rule = json!({"all": [old, m]});
    }
    "any" => {
      let old = rule.take();
      *rule = json!({"any": [old, m]});
    }
    "not" => add_conjunct(rule, "not", m),
    "nthChild.ofRule" => add_conjunct(rule, "nthChild", of(m)),
    "all>not" => {
      let old = rule.take();
      *rule = json!({"all": [old, {"not": m}]});
    }
    "any>all" => {
      let old = rule.take();
      *rule = json!({"any": [old, {"all": [m]}]});
    }
    "not>any" => add_conjunct(rule, "not", json!({"any": [m]})),
    "nthChild.ofRule>not" => add_conjunct(rule, "nthChild", of(json!({"not": m}))),
    "nthChild.ofRule>any" => add_conjunct(rule, "nthChild", of(json!({"any": [m, {"kind": "number"}]}))),
    _ => add_conjunct(rule, "not", json!({"nthChild": of(m)})),
  }
}

fn perturbations(base: &Base) -> Vec<Perturbed> {
  let doc = &base.doc;
  let mut out: Vec<Perturbed> = vec![];
  let mut push = |kind: &'static str, site: String, doc: Value| out.push(Perturbed { kind, site, doc });
  let pattern0 = doc.pointer("/rule/pattern").or_else(|| doc.pointer("/rule/all/0/pattern")).and_then(|p| p.as_str()).unwrap_or("foo($A)").to_string();

  for core in cores(doc) {
    let c = at(doc, &core);
    // P1: rename one variable occurrence of the fix template
    if let Some(fix) = c.get("fix") {
      let tpath = if fix.is_string() { format!("{core}/fix") } else { format!("{core}/fix/template") };
      if let Some((tpl, _)) = fix_template(fix) {
        for p in scan(tpl) {
          if let Piece::Var { multi, start, end, name } = p {
            let new = format!("{}{}ZZ{}", &tpl[..start], if multi { "$$$" } else { "$" }, &tpl[end..]);
            push("rename-fix-var", format!("{tpath}@{start}:{name}"), with(doc, &tpath, |v| *v = json!(new)));
          }
        }
      }
    }
    // P2 / P4b / P6a / P7: transforms
    let tr = obj(c, "transform");
    for (key, t) in tr {
      let Some((op, src)) = transform_source(t) else { continue };
      let spath = format!("{core}/transform/{key}/{op}/source");
      let sig = if src.starts_with("$$$") { "$$$" } else { "$" };
      push("rename-transform-source", spath.clone(), with(doc, &spath, |v| *v = json!(format!("{sig}ZZ"))));
      push("drop-transform", format!("{core}/transform/{key}"), with(doc, &format!("{core}/transform"), |v| {
        v.as_object_mut().unwrap().remove(key);
      }));
      if op == "rewrite" {
        for (j, _) in t["rewrite"]["rewriters"].as_array().map(|a| a.as_slice()).unwrap_or(&[]).iter().enumerate() {
          let p = format!("{core}/transform/{key}/rewrite/rewriters/{j}");
          push("rename-rewriter-ref", p.clone(), with(doc, &p, |v| *v = json!("nope")));
        }
      }
      // close a cycle: make `key` read a transformation that (transitively) reads `key`
      for (other, _) in tr {
        let mut cur = other.clone();
        let mut dist = 0;
        let reaches = loop {
          if &cur == key {
            break true;
          }
          let Some(n) = tr.get(&cur).and_then(transform_source).map(|(_, s)| source_name(s)) else { break false };
          if !tr.contains_key(&n) || dist > 4 {
            break false;
          }
          cur = n;
          dist += 1;
        };
        if reaches && dist < 3 {
          push("transform-cycle", format!("{spath}<-${other} (length {})", dist + 1), with(doc, &spath, |v| *v = json!(format!("${other}"))));
        }
      }
    }
    // P3 / P4c: constraints
    for key in obj(c, "constraints").keys() {
      push("rename-constraint-key", format!("{core}/constraints/{key}"), with(doc, &format!("{core}/constraints"), |v| {
        let m = v.as_object_mut().unwrap();
        let x = m.remove(key).unwrap();
        m.insert("ZZ".into(), x);
      }));
      push("drop-constraint", format!("{core}/constraints/{key}"), with(doc, &format!("{core}/constraints"), |v| {
        v.as_object_mut().unwrap().remove(key);
      }));
    }
    // P5b: rename a utility definition
    let utils = obj(c, "utils");
    for key in utils.keys() {
      push("rename-util-definition", format!("{core}/utils/{key}"), with(doc, &format!("{core}/utils"), |v| {
        let m = v.as_object_mut().unwrap();
        let x = m.remove(key).unwrap();
        m.insert("nope-def".into(), x);
      }));
    }
    // P8: make utility X reachable from itself on the same node: Y (reached from X) refers back to X
    let g = util_graph(utils);
    for x in utils.keys() {
      // same-node distance from x to every y
      let mut dist: BTreeMap<String, usize> = BTreeMap::new();
      dist.insert(x.clone(), 0);
      let mut frontier = vec![x.clone()];
      while let Some(n) = frontier.pop() {
        let d = dist[&n];
        for (t, _) in g.get(&n).map(|v| v.as_slice()).unwrap_or(&[]) {
          if !dist.contains_key(t) {
            dist.insert(t.clone(), d + 1);
            frontier.push(t.clone());
          }
        }
      }
      for (y, d) in &dist {
        for route in ROUTES {
          let p = format!("{core}/utils/{}", esc(y));
          push("util-cycle", format!("{p} -> {x} via {route} (length {})", d + 1), with(doc, &p, |v| add_same_node_ref(v, route, x)));
        }
      }
    }
    // P6b: rename a rewriter id
    if !core.is_empty() {
      let p = format!("{core}/id");
      push("rename-rewriter-id", p.clone(), with(doc, &p, |v| *v = json!("nope-id")));
    }
  }
  // P6c: drop the whole `rewriters` section while a transformation still refers to a rewriter
  if doc.get("rewriters").is_some() && doc.to_string().contains("\"rewrite\"") {
    let mut d = doc.clone();
    d.as_object_mut().unwrap().remove("rewriters");
    push("drop-rewriters-section", "/rewriters".to_string(), d);
  }
  // P4a: drop one capture from one pattern (the pattern keeps matching the same nodes)
  let mut pats = vec![];
  find_keyed_strings(doc, "pattern", "", &mut pats);
  for p in pats {
    let text = doc.pointer(&p).unwrap().as_str().unwrap().to_string();
    for (multi, name, start, end) in captures(&text) {
      let new = format!("{}{}{}", &text[..start], if multi { "$$$" } else { "$_" }, &text[end..]);
      push("drop-capture", format!("{p}@{start}:{name}"), with(doc, &p, |v| *v = json!(new)));
    }
  }
  // P5a: rename one `matches` reference
  let mut ms = vec![];
  find_keyed_strings(doc, "matches", "", &mut ms);
  for p in ms {
    push("rename-matches", p.clone(), with(doc, &p, |v| *v = json!("nope")));
  }
  // P9: top-level rule without a kind-bearing atom (the first six keep every capture)
  let p0 = pattern0.as_str();
  let mut shapes = vec![
    ("not", json!({"not": {"pattern": p0}})),
    ("inside", json!({"inside": {"pattern": p0, "stopBy": "end"}})),
    ("has", json!({"has": {"pattern": p0, "stopBy": "end"}})),
    ("precedes", json!({"precedes": {"pattern": p0}})),
    ("follows", json!({"follows": {"pattern": p0}})),
    ("any[pattern,regex]", json!({"any": [{"pattern": p0}, {"regex": "foo"}]})),
    ("all[not,regex]", json!({"all": [{"not": {"pattern": p0}}, {"regex": "foo"}]})),
    ("regex+not", json!({"regex": "foo", "not": {"pattern": p0}})),
    ("nthChild+inside", json!({"nthChild": 1, "inside": {"pattern": p0}})),
    ("regex", json!({"regex": "foo"})),
    ("nthChild", json!({"nthChild": 1})),
    ("range", json!({"range": {"start": {"line": 0, "column": 0}, "end": {"line": 0, "column": 3}}})),
  ];
  for u in obj(doc, "utils").keys() {
    shapes.push(("matches-util", json!({"matches": u, "not": {"pattern": p0}})));
  }
  for (name, shape) in shapes {
    push("no-kind-rule", format!("/rule := {name}"), with(doc, "/rule", |v| *v = shape));
  }
  out
}

// ------------------------------------------------------------------------------------------
// reference template expansion (oracle 2)
// ------------------------------------------------------------------------------------------

enum Expand {
  Text(String),
  Missing,
}

fn ref_expand(tpl: &str, m: &Value, drop_transformed: bool) -> Expand {
  let mut out = String::new();
  let get = |kind: &str, n: &str| m[kind].get(n).and_then(|x| x.as_str()).map(String::from);
  for p in scan(tpl) {
    match p {
      Piece::Lit(s) => out.push_str(&s),
      Piece::Var { multi: true, name, .. } => match get("multi", &name) {
        Some(v) => out.push_str(&v),
        None => return Expand::Missing,
      },
      Piece::Var { multi: false, name, .. } => {
        if let Some(v) = get("transformed", &name) {
          if !drop_transformed {
            out.push_str(&v);
          }
        } else if let Some(v) = get("single", &name) {
          out.push_str(&v);
        } else {
          return Expand::Missing;
        }
      }
    }
  }
  Expand::Text(out)
}

fn template_names(doc: &Value) -> Vec<String> {
  let mut names = BTreeSet::new();
  let mut texts = vec![];
  if let Some((t, _)) = doc.get("fix").and_then(fix_template) {
    texts.push(t.to_string());
  }
  if let Some(m) = doc["message"].as_str() {
    texts.push(m.to_string());
  }
  for t in texts {
    for p in scan(&t) {
      if let Piece::Var { name, .. } = p {
        names.insert(name);
      }
    }
  }
  names.into_iter().collect()
}

/// everything oracle 2 wants to see in the environment: the template variables, the top-level
/// transformation keys and their sources
fn observe_names(doc: &Value) -> Vec<String> {
  let mut names: BTreeSet<String> = template_names(doc).into_iter().collect();
  for (k, t) in obj(doc, "transform") {
    names.insert(k.clone());
    if let Some((_, src)) = transform_source(t) {
      names.insert(source_name(src));
    }
  }
  names.into_iter().collect()
}

/// reference value of every top-level transformation made of the three string operations of the
/// alphabet (substring startChar/endChar, replace of a literal, convert upperCase), computed in
/// DEPENDENCY order from the captured values of match `m`. `rewrite` and anything whose source has
/// no value are left out (None).
fn ref_transformed(doc: &Value, m: &Value) -> BTreeMap<String, (String, bool)> {
  let tr = obj(doc, "transform");
  let mut done: BTreeMap<String, (String, bool)> = BTreeMap::new();
  let mut dead: BTreeSet<String> = BTreeSet::new();
  loop {
    let mut progress = false;
    for (k, t) in tr {
      if done.contains_key(k) || dead.contains(k) {
        continue;
      }
      let Some((op, src)) = transform_source(t) else {
        dead.insert(k.clone());
        continue;
      };
      let name = source_name(src);
      let multi = src.starts_with("$$$");
      let via_transform = !multi && tr.contains_key(&name);
      let input: Option<String> = if via_transform {
        if dead.contains(&name) {
          dead.insert(k.clone());
          progress = true;
          continue;
        }
        match done.get(&name) {
          Some((v, _)) => Some(v.clone()),
          None => continue, // not computed yet: next round
        }
      } else if multi {
        m["multi"].get(&name).and_then(|x| x.as_str()).map(String::from)
      } else {
        m["single"].get(&name).and_then(|x| x.as_str()).map(String::from)
      };
      let body = &t[op];
      let out = match (op, input) {
        (_, None) => None,
        ("substring", Some(v)) => {
          let cs: Vec<char> = v.chars().collect();
          let n = cs.len() as i64;
          let norm = |x: Option<i64>, dflt: i64| -> i64 {
            match x {
              None => dflt,
              Some(i) if i < 0 => (n + i).max(0),
              Some(i) => i.min(n),
            }
          };
          let a = norm(body.get("startChar").and_then(|x| x.as_i64()), 0);
          let b = norm(body.get("endChar").and_then(|x| x.as_i64()), n);
          Some(if a < b { cs[a as usize..b as usize].iter().collect() } else { String::new() })
        }
        ("replace", Some(v)) => match (body["replace"].as_str(), body["by"].as_str()) {
          (Some(pat), Some(by)) if pat.chars().all(|c| c.is_ascii_alphanumeric()) && !by.contains('$') => Some(v.replace(pat, by)),
          _ => None,
        },
        ("convert", Some(v)) if body["toCase"] == "upperCase" => Some(v.to_uppercase()),
        // the one rewriter whose output the reference can spell: every identifier of the source
        // text becomes `<identifier|value of $C>` ($C comes from the enclosing rule's constraint)
        ("rewrite", Some(v)) if body["rewriters"] == json!(["rw-outer"]) && body.get("joinBy").is_none() => {
          m["single"].get("C").and_then(|x| x.as_str()).map(|c| {
            let cs: Vec<char> = v.chars().collect();
            let mut out = String::new();
            let mut i = 0;
            while i < cs.len() {
              let prev_word = i > 0 && (cs[i - 1].is_alphanumeric() || cs[i - 1] == '_');
              if (cs[i].is_alphabetic() || cs[i] == '_') && !prev_word {
                let mut j = i;
                while j < cs.len() && (cs[j].is_alphanumeric() || cs[j] == '_') {
                  j += 1;
                }
                let id: String = cs[i..j].iter().collect();
                out.push_str(&format!("<{id}|{c}>"));
                i = j;
              } else {
                out.push(cs[i]);
                i += 1;
              }
            }
            out
          })
        }
        _ => None,
      };
      match out {
        Some(v) => {
          done.insert(k.clone(), (v, via_transform));
        }
        None => {
          dead.insert(k.clone());
        }
      }
      progress = true;
    }
    if !progress {
      break;
    }
  }
  done
}

/// judge one base document's observation; returns violations (sig, detail)
fn judge_base(doc: &Value, resp: &Value, bound: Option<&[String]>) -> Result<Vec<(String, Value)>, String> {
  let mut v = vec![];
  if resp["load"] != "ok" {
    return Err(format!("base document does not load: {resp}"));
  }
  if let Some(p) = resp["run_panic"].as_str() {
    let msg: String = p.chars().map(|c| if c.is_ascii_digit() { '#' } else { c }).take(80).collect();
    v.push((format!("run-panic:{msg}"), json!({"panic": p, "at": resp["at"]})));
    return Ok(v);
  }
  let matches = resp["matches"].as_array().cloned().unwrap_or_default();
  if matches.is_empty() {
    return Err("base document does not match its source".into());
  }
  let (tpl, form) = doc.get("fix").and_then(fix_template).ok_or("base without fix")?;
  for m in &matches {
    if let Some(e) = m["get_fixer_error"].as_str() {
      v.push(("get-fixer-error-on-accepted-rule".into(), json!({"error": e})));
      continue;
    }
    if let Some(bound) = bound {
      let asked = template_names(doc);
      for n in bound.iter().filter(|n| asked.contains(n)) {
        let present = ["single", "multi", "transformed"].iter().any(|k| m[*k].get(n.as_str()).is_some());
        if !present {
          v.push((format!("fix-output:{form}:variable-of-a-successful-match-has-no-value"), json!({"variable": n, "env": m})));
        }
      }
    }
    // transformed values: each equals its operation applied to its source's value
    for (k, (want, via_transform)) in ref_transformed(doc, m) {
      let got = m["transformed"].get(&k).and_then(|x| x.as_str());
      if got != Some(want.as_str()) {
        let op = transform_source(&obj(doc, "transform")[&k]).map(|x| x.0).unwrap_or("?");
        let dep = if via_transform { ":source-is-a-transformation" } else { "" };
        v.push((format!("transformed-value:{op}{dep}:differs-from-operation-applied-to-source"), json!({"variable": k, "want": want, "got": got, "env": m})));
      }
    }
    for (what, template, got) in [("fix-output", tpl, &m["fix"]), ("message-output", doc["message"].as_str().unwrap_or(""), &m["message"])] {
      let form = if what == "fix-output" { form } else { "string-form" };
      let Some(got) = got.as_str() else {
        v.push((format!("{what}:{form}:absent"), json!({"env": m})));
        continue;
      };
      match ref_expand(template, m, false) {
        Expand::Missing => {} // an occurrence without a value: reported above if it must have one
        Expand::Text(want) => {
          if got != want {
            let crisp = match ref_expand(template, m, true) {
              Expand::Text(t) if t == got => "transformed-var-dropped",
              _ => "differs",
            };
            v.push((format!("{what}:{form}:{crisp}"), json!({"template": template, "want": want, "got": got, "env": m})));
          }
        }
      }
    }
  }
  Ok(v)
}

// ------------------------------------------------------------------------------------------

fn digits_out(s: &str) -> String {
  s.chars().map(|c| if c.is_ascii_digit() { '#' } else { c }).take(90).collect()
}

/// judge one perturbed (or any) document against oracle 1. Returns (tags, outcome, violation)
fn consequence(w: &mut Worker, doc: &Value, src: &str) -> Value {
  match w.ask(&doc.to_string(), Some(src), &template_names(doc)) {
    Err(how) => json!(format!("child process died: {how}")),
    Ok(r2) => r2.get("matches").cloned().or_else(|| r2.get("run_panic").cloned()).unwrap_or(Value::Null),
  }
}

fn judge_perturbed(w: &mut Worker, doc: &Value, src: &str, run_it: bool) -> (Vec<String>, String, Option<(String, Value)>) {
  let tags = ref_vars(doc);
  let text = doc.to_string();
  let resp = w.ask(&text, None, &[]);
  let broken = tags.join("|");
  match resp {
    Err(how) => {
      let sig = if tags.is_empty() { format!("load-crash:{how}:valid-by-reference") } else { format!("load-crash:{how}:{broken}") };
      (tags, format!("crash:{how}"), Some((sig, json!({"crash": how}))))
    }
    Ok(r) => match r["load"].as_str().unwrap_or("") {
      "panic" => {
        let msg = digits_out(r["msg"].as_str().unwrap_or(""));
        (tags, "panic".into(), Some((format!("load-panic:{msg}"), json!({"panic": r["msg"], "at": r["at"]}))))
      }
      "err" => (tags, format!("err:{}", r["msg"].as_str().unwrap_or("")), None),
      _ => {
        if tags.is_empty() {
          return (tags, "ok".into(), None);
        }
        // accepted although a condition is broken. What happens when it runs is asked in a
        // separate request, so that a crash is blamed on the run, not on the load
        let mut detail = json!({"broken_conditions": broken});
        if run_it {
          detail["running_this_document"] = consequence(w, doc, src);
        }
        (tags, "ok".into(), Some((format!("accepted:{broken}"), detail)))
      }
    },
  }
}

fn replay(path: &std::path::Path) -> ! {
  let v: Value = serde_json::from_str(&std::fs::read_to_string(path).unwrap_or_else(|e| machinery(&format!("replay file: {e}")))).unwrap_or_else(|e| machinery(&format!("replay file: {e}")));
  let case = &v["case"];
  let doc = &case["doc"];
  let src = case["source"].as_str().unwrap_or("");
  let mut w = Worker::new();
  println!("document: {doc}\nsource:   {src:?}");
  let bad = if case["oracle"] == 2 {
    let names = observe_names(doc);
    match w.ask(&doc.to_string(), Some(src), &names) {
      Err(how) => {
        println!("observed: child died ({how}); expected: fix and message equal the reference expansion");
        true
      }
      Ok(resp) => match judge_base(doc, &resp, None) {
        Err(e) => {
          println!("observed: {e}");
          true
        }
        Ok(vs) => {
          for (sig, d) in &vs {
            println!("observed: {sig} {d}");
          }
          if vs.is_empty() {
            println!("observed: fix and message equal the reference expansion: {}", resp["matches"]);
          }
          !vs.is_empty()
        }
      },
    }
  } else {
    let (tags, outcome, viol) = judge_perturbed(&mut w, doc, src, true);
    println!("reference: broken conditions = {tags:?} -> expected: {}", if tags.is_empty() { "no demand" } else { "rejected (Err)" });
    println!("observed:  {outcome}");
    if let Some((sig, d)) = &viol {
      println!("violation: {sig} {d}");
    }
    viol.is_some()
  };
  std::process::exit(if bad { 1 } else { 0 })
}

fn main() {
  let args = Args::parse();
  if args.extra.iter().any(|a| a == "--child") {
    child_main();
  }
  if args.extra.iter().any(|a| a == "--probe") {
    // developer aid: documents (one JSON per line) on stdin -> reference tags + observation
    let mut w = Worker::new();
    for line in std::io::stdin().lock().lines().map_while(Result::ok) {
      let Ok(v) = serde_json::from_str::<Value>(&line) else { continue };
      let src = v["source"].as_str().unwrap_or("foo(some_name)").to_string();
      let doc = v.get("doc").cloned().unwrap_or(v.clone());
      let names = template_names(&doc);
      println!("tags={:?}\n  -> {:?}", ref_vars(&doc), w.ask(&doc.to_string(), Some(&src), &names));
    }
    std::process::exit(0);
  }
  quiet_panics();
  if let Some(p) = &args.replay {
    replay(p);
  }
  let rep = Reporter::new("C12", args.clone());
  let d = dims(args.thorough());
  let bases = all_bases(&d);
  let debug = std::env::var("VERIF_DEBUG").is_ok();
  if debug {
    eprintln!("{} base documents", bases.len());
  }

  // ---- oracle 2 over all base documents (and: every base must be consistent and load)
  let defects: Mutex<Vec<String>> = Mutex::new(vec![]);
  let matches_judged = AtomicU64::new(0);
  let bases_with_transformed = AtomicU64::new(0);
  bases.par_iter().for_each_init(Worker::new, |w, b| {
    let tags = ref_vars(&b.doc);
    if !tags.is_empty() {
      defects.lock().unwrap().push(format!("reference calls base document inconsistent {tags:?}: {} {}", b.label, b.doc));
      return;
    }
    let names = observe_names(&b.doc);
    match w.ask(&b.doc.to_string(), Some(&b.src), &names) {
      Err(how) => rep.violation(&format!("base-crash:{how}"), json!({"oracle": 2, "base": b.label, "doc": b.doc, "source": b.src})),
      Ok(resp) => match judge_base(&b.doc, &resp, Some(&b.bound)) {
        Err(e) => defects.lock().unwrap().push(format!("{e}: {} {}", b.label, b.doc)),
        Ok(vs) => {
          matches_judged.fetch_add(resp["matches"].as_array().map(|a| a.len()).unwrap_or(0) as u64, Ordering::Relaxed);
          if b.doc.get("transform").is_some() {
            bases_with_transformed.fetch_add(1, Ordering::Relaxed);
          }
          for (sig, detail) in vs {
            rep.violation(&sig, json!({"oracle": 2, "base": b.label, "doc": b.doc, "source": b.src, "detail": detail}));
          }
        }
      },
    }
  });
  let defects = defects.into_inner().unwrap();
  if !defects.is_empty() {
    let mut d = defects.clone();
    d.sort();
    machinery(&format!("{} base documents are not valid/accepted (harness defect, or the subject rejects a consistent rule); first: {}", d.len(), d[0]));
  }
  if debug {
    eprintln!("oracle 2 done t={:.1}s", rep.elapsed());
  }

  // ---- global utilities (utilDirs): same-node cycles through the rules' own `rule` sections and
  // through their LOCAL utils must be rejected; the acyclic twin of each set must be accepted
  let (mut g_sets, mut g_cyclic_rejected, mut g_acyclic_accepted) = (0u64, 0u64, 0u64);
  {
    let routes: Vec<(&str, Box<dyn Fn(&str) -> Value>)> = vec![
      ("matches", Box::new(|t: &str| json!({"matches": t}))),
      ("all", Box::new(|t: &str| json!({"all": [{"matches": t}, {"kind": "number"}]}))),
      ("any", Box::new(|t: &str| json!({"any": [{"kind": "number"}, {"matches": t}]}))),
      ("not", Box::new(|t: &str| json!({"kind": "number", "not": {"matches": t}}))),
      ("nthChild.ofRule", Box::new(|t: &str| json!({"nthChild": {"position": 1, "ofRule": {"matches": t}}}))),
      ("matches+sibling-key", Box::new(|t: &str| json!({"matches": "leaf-free", "not": {"matches": t}}))),
    ];
    // where the reference sits: in the global rule's `rule`, or in a local util that `rule` uses
    let places = ["rule", "local-util", "local-util-chain"];
    let mut w = Worker::new();
    for n in 1..=(if args.thorough() { 3 } else { 2 }) {
      let mut combos: Vec<Vec<(usize, usize)>> = vec![vec![]];
      for _ in 0..n {
        combos = combos.into_iter().flat_map(|c| (0..routes.len()).flat_map(move |r| (0..3).map(move |p| (r, p))).map(move |x| { let mut c2 = c.clone(); c2.push(x); c2 })).collect();
      }
      for combo in combos {
        for cyclic in [true, false] {
          let mut globals = vec![];
          for (i, (r, p)) in combo.iter().enumerate() {
            // the acyclic twin sends the last edge to a leaf utility instead of closing the cycle
            let target = if i + 1 == n && !cyclic { "leaf".to_string() } else { format!("g{}", (i + 1) % n) };
            let edge = routes[*r].1(&target);
            let mut g = json!({"id": format!("g{i}"), "language": "JavaScript"});
            match places[*p] {
              "rule" => g["rule"] = edge,
              "local-util" => {
                g["rule"] = json!({"matches": "loc"});
                g["utils"] = json!({"loc": edge});
              }
              _ => {
                g["rule"] = json!({"matches": "loc1"});
                g["utils"] = json!({"loc1": {"all": [{"matches": "loc2"}]}, "loc2": edge});
              }
            }
            globals.push(g);
          }
          globals.push(json!({"id": "leaf", "language": "JavaScript", "rule": {"kind": "number"}}));
          globals.push(json!({"id": "leaf-free", "language": "JavaScript", "rule": {"kind": "number"}}));
          g_sets += 1;
          let label: Vec<String> = combo.iter().map(|(r, p)| format!("{}@{}", routes[*r].0, places[*p])).collect();
          match w.ask_globals(&globals) {
            Err(how) => rep.violation(&format!("global-utils:load-crash:{how}"), json!({"oracle": 1, "globals": globals, "route": label})),
            Ok(resp) => match (cyclic, resp["load"].as_str().unwrap_or("")) {
              (_, "panic") => rep.violation("global-utils:load-panic", json!({"oracle": 1, "globals": globals, "route": label, "panic": resp["msg"]})),
              (true, "ok") => {
                let via_local = combo.iter().any(|(_, p)| *p > 0);
                rep.violation(
                  &format!("accepted:global-util-cycle:{}", if via_local { "through-a-local-util" } else { "through-rule-sections-only" }),
                  json!({"oracle": 1, "globals": globals, "route": label, "broken_conditions": "a global utility requires itself on the same node"}),
                );
              }
              (true, _) => g_cyclic_rejected += 1,
              (false, "ok") => g_acyclic_accepted += 1,
              (false, _) => rep.violation("global-utils:acyclic-set-rejected", json!({"oracle": 1, "globals": globals, "route": label, "error": resp["msg"]})),
            },
          }
        }
      }
    }
  }

  // ---- a LOCAL utility shadows a global one of the same id: whether the rule has a known set of
  // node kinds is decided by the local utility (`matches` resolves to it)
  let (mut shadow_cases, mut shadow_must_reject) = (0u64, 0u64);
  {
    let mut w = Worker::new();
    let global = json!({"id": "shared", "language": "JavaScript", "rule": {"kind": "identifier"}});
    let locals: Vec<(&str, Value, bool)> = vec![
      ("regex", json!({"regex": "^foo$"}), false),
      ("not-kind", json!({"not": {"kind": "number"}}), false),
      ("has-kind", json!({"has": {"kind": "number"}}), false),
      ("kind", json!({"kind": "number"}), true),
      ("pattern", json!({"pattern": "foo($A)"}), true),
    ];
    let uses: Vec<(&str, Value)> = vec![
      ("matches", json!({"matches": "shared"})),
      ("all", json!({"all": [{"matches": "shared"}, {"regex": "o"}]})),
      ("any", json!({"any": [{"matches": "shared"}, {"kind": "string"}]})),
    ];
    for (lname, local, has_kinds) in &locals {
      for (uname, usage) in &uses {
        for with_local in [true, false] {
          let mut doc = json!({"id": "s", "language": "JavaScript", "rule": usage});
          if with_local {
            doc["utils"] = json!({"shared": local});
          }
          shadow_cases += 1;
          let must_load = !with_local || *has_kinds;
          if !must_load {
            shadow_must_reject += 1;
          }
          match w.ask_globals_doc(&[global.clone()], &doc) {
            Err(how) => rep.violation(&format!("shadowed-global-util:load-crash:{how}"), json!({"oracle": 1, "globals": [global], "doc": doc})),
            Ok(resp) => match (must_load, resp["load"].as_str().unwrap_or("")) {
              (_, "panic") => rep.violation("shadowed-global-util:load-panic", json!({"oracle": 1, "globals": [global], "doc": doc, "panic": resp["msg"]})),
              (false, "ok") => rep.violation(
                &format!("accepted:no-kind-bearing-atom:kind-less-local-util-shadows-a-global-util:{lname}:{uname}"),
                json!({"oracle": 1, "globals": [global], "doc": doc, "broken_conditions": "the rule cannot name a set of node kinds: `matches: shared` resolves to the local utility, which has none"}),
              ),
              (true, "err") => rep.violation("shadowed-global-util:consistent-rule-rejected", json!({"oracle": 1, "globals": [global], "doc": doc, "error": resp["msg"]})),
              _ => {}
            },
          }
        }
      }
    }
  }

  // ---- oracle 1 over every document at distance one
  // distinct documents only: a document reachable from two bases is judged once, at the first
  // base in enumeration order (decided sequentially, so the choice does not depend on timing).
  // Documents are regenerated per base in the judging pass instead of being kept in memory.
  fn doc_hash(d: &Value) -> u128 {
    use std::hash::{Hash, Hasher};
    let s = d.to_string();
    let mut h1 = std::collections::hash_map::DefaultHasher::new();
    s.hash(&mut h1);
    let mut h2 = std::collections::hash_map::DefaultHasher::new();
    (&s, 0x9e3779b97f4a7c15u64).hash(&mut h2);
    ((h1.finish() as u128) << 64) | h2.finish() as u128
  }
  let hashes: Vec<Vec<u128>> = bases.par_iter().map(|b| perturbations(b).iter().map(|p| doc_hash(&p.doc)).collect()).collect();
  let generated_total: u64 = hashes.iter().map(|h| h.len() as u64).sum();
  let mut seen: HashSet<u128> = HashSet::new();
  let keep: Vec<Vec<bool>> = hashes.iter().map(|hs| hs.iter().map(|h| seen.insert(*h)).collect()).collect();
  let n_cases = seen.len();
  drop(seen);
  drop(hashes);
  if debug {
    eprintln!("{n_cases} distinct perturbed documents of {generated_total} generated t={:.1}s", rep.elapsed());
  }
  #[derive(Default)]
  struct KindStat {
    generated: u64,
    judged_broken: u64,
    still_valid: u64,
    rejected: u64,
    accepted: u64,
  }
  let stats: Mutex<BTreeMap<&'static str, KindStat>> = Mutex::new(BTreeMap::new());
  let tag_counts: Mutex<BTreeMap<String, u64>> = Mutex::new(BTreeMap::new());
  let errors: Mutex<BTreeMap<String, u64>> = Mutex::new(BTreeMap::new());
  let samples = Samples::new(8);
  let pending: Mutex<Vec<(String, Value)>> = Mutex::new(vec![]);
  struct Case {
    p: Perturbed,
  }
  bases.par_iter().enumerate().for_each_init(Worker::new, |w, (bi, b)| {
   for c in perturbations(b).into_iter().zip(&keep[bi]).filter(|(_, k)| **k).map(|(p, _)| Case { p }) {
    let (tags, outcome, viol) = judge_perturbed(w, &c.p.doc, &b.src, false);
    {
      let mut st = stats.lock().unwrap();
      let s = st.entry(c.p.kind).or_default();
      s.generated += 1;
      if tags.is_empty() {
        s.still_valid += 1;
      } else {
        s.judged_broken += 1;
        if outcome.starts_with("err:") {
          s.rejected += 1;
        } else if outcome == "ok" {
          s.accepted += 1;
        }
      }
    }
    if !tags.is_empty() {
      *tag_counts.lock().unwrap().entry(tags.join("|")).or_default() += 1;
    }
    if let Some(e) = outcome.strip_prefix("err:") {
      // error message with quoted names removed: the distinct rejection reasons
      let mut key = String::new();
      let mut inq = false;
      for ch in e.chars() {
        if ch == '`' {
          inq = !inq;
          key.push('`');
        } else if !inq {
          key.push(ch);
        }
      }
      *errors.lock().unwrap().entry(key).or_default() += 1;
    }
    if let Some((sig, detail)) = viol {
      let case = json!({"oracle": 1, "base": b.label, "perturbation": c.p.kind, "site": c.p.site, "doc": c.p.doc, "source": b.src, "detail": detail});
      pending.lock().unwrap().push((sig, case));
    }
   }
  });
  // what running an accepted inconsistent document leads to is tried once per class, on the
  // smallest document of the class (it may kill the child), and recorded with every case of it
  let mut by_sig: BTreeMap<String, Vec<Value>> = BTreeMap::new();
  for (sig, case) in pending.into_inner().unwrap() {
    by_sig.entry(sig).or_default().push(case);
  }
  let mut w = Worker::new();
  for (sig, cs) in by_sig {
    let mut note = Value::Null;
    if sig.starts_with("accepted:") {
      // the smallest case of every perturbation site (path + route) of the class
      let mut per_site: BTreeMap<String, &Value> = BTreeMap::new();
      let key = |c: &Value| {
        let s = c.to_string();
        (s.len(), s)
      };
      for c in &cs {
        let site = c["site"].as_str().unwrap_or("").to_string();
        match per_site.get(&site) {
          Some(old) if key(old) <= key(c) => {}
          _ => {
            per_site.insert(site, c);
          }
        }
      }
      let mut outcomes: BTreeMap<String, u64> = BTreeMap::new();
      let mut worst: Option<&Value> = None;
      let mut first: Option<(&Value, Value)> = None;
      let mut runs: Vec<&Value> = per_site.values().cloned().collect();
      runs.sort_by_key(|c| key(c));
      for c in runs {
        let r = consequence(&mut w, &c["doc"], c["source"].as_str().unwrap_or(""));
        let died = r.as_str().map(|s| s.starts_with("child process died")).unwrap_or(false);
        let label = if died { r.as_str().unwrap().to_string() } else { format!("ran to completion, {} match(es)", r.as_array().map(|a| a.len()).unwrap_or(0)) };
        *outcomes.entry(label).or_default() += 1;
        if died && worst.is_none() {
          worst = Some(c);
        }
        if first.is_none() {
          first = Some((c, r));
        }
      }
      let (fc, fr) = first.unwrap();
      note = json!({
        "documents_run": per_site.len(), "outcomes": outcomes,
        "smallest_document": {"doc": fc["doc"], "source": fc["source"], "result": fr},
        "smallest_document_that_killed_the_process": worst.map(|c| json!({"doc": c["doc"], "source": c["source"]})),
      });
    }
    for mut c in cs.clone() {
      if !note.is_null() {
        c["detail"]["running_the_smallest_document_of_every_site_of_this_class"] = note.clone();
      }
      rep.violation(&sig, c);
    }
  }
  // samples: the first perturbed document of 8 different kinds (deterministic order)
  let mut sampled = BTreeSet::new();
  for p in bases.iter().take(1).chain(bases.iter().rev().take(1)).flat_map(|b| perturbations(b).into_iter().map(move |p| (b, p))) {
    let (b, p) = p;
    if sampled.insert(p.kind) {
      samples.offer(|| json!({"base": b.label, "perturbation": p.kind, "site": p.site, "reference_says_broken": ref_vars(&p.doc), "doc": p.doc}));
    }
  }
  let stats = stats.into_inner().unwrap();
  let judged: u64 = stats.values().map(|s| s.judged_broken).sum();
  let still_valid: u64 = stats.values().map(|s| s.still_valid).sum();
  let per_kind: Value = stats
    .iter()
    .map(|(k, s)| (k.to_string(), json!({"generated": s.generated, "reference_says_broken": s.judged_broken, "still_valid_not_judged": s.still_valid, "rejected": s.rejected, "accepted": s.accepted})))
    .collect::<Map<String, Value>>()
    .into();
  let errors = errors.into_inner().unwrap();
  let tag_counts = tag_counts.into_inner().unwrap();
  let mj = matches_judged.load(Ordering::Relaxed);
  let cov = json!({
    "evaluations": n_cases as u64 + bases.len() as u64,
    "distinct_nontrivial": judged + mj,
    "rule": "evaluations = distinct perturbed documents loaded + base documents loaded and run. distinct_nontrivial = distinct perturbed documents for which the reference analysis reports at least one broken condition (so a rejection was demanded) + matches of base documents whose fix text and message were compared with the reference expansion",
    "exhaustive": true,
    "base_documents": bases.len(),
    "base_matches_judged": mj,
    "base_documents_with_transform": bases_with_transformed.load(Ordering::Relaxed),
    "perturbed_documents_generated": generated_total,
    "perturbed_documents_distinct": n_cases,
    "perturbed_reference_says_broken": judged,
    "perturbed_still_valid_counted_not_judged": still_valid,
    "per_perturbation_kind": per_kind,
    "broken_condition_classes": tag_counts,
    "distinct_rejection_messages": errors.len(),
    "rejection_messages": errors,
    "shadowed_global_utility_documents": shadow_cases, "shadowed_global_utility_documents_that_must_be_rejected": shadow_must_reject,
    "global_utility_sets": g_sets, "global_utility_cycles_rejected": g_cyclic_rejected, "global_utility_acyclic_twins_accepted": g_acyclic_accepted,
    "dimensions": {"rule": d.r, "utils": d.u, "constraints": d.k, "transform": d.t, "rewriters": d.w, "fix_content": d.fc, "fix_form": d.ff},
    "same_node_routes": ROUTES,
    "samples": samples.take(),
  });
  rep.finish(
    "exploration",
    cov,
    vec![
      "the reference analysis is permissive about definitions (a name captured anywhere in the rule, any utility or any constraint, or any transformation key counts as defined), so it never demands a rejection the statement does not demand; only the only-if direction is asserted".into(),
      "cycles through inside/has/precedes/follows are not generated (the statement does not require their rejection)".into(),
      "all base sources are single-line and the match starts at column 0, so indentation handling of the replacer plays no part; `$$NAME` and arity-mismatched spellings (`$ARGS` for a `$$$ARGS` capture) are not in the alphabet".into(),
      "text produced by rewriters is taken from the environment as the transformed value; the rewriters' own fix expansion is not judged".into(),
      "perturbed documents reachable from several bases are judged once; equality of documents is decided by a 128-bit hash of their text".into(),
      "what running an accepted inconsistent document leads to (e.g. a stack overflow) is tried once per violation class and perturbation site, for the record only; the verdict is the acceptance itself".into(),
      "all ast-grep calls run in child processes; dev profile (debug assertions on), opt-level 1".into(),
    ],
  );
}
