//! C04 — meta-variable bindings are coherent and failed alternatives leave no trace.
//! Space: rule trees (depth <= 2, thorough 3 for a slice) over atoms that SHARE variable names,
//! with utils and constraints, x sources made of every sequence (hence every permutation and
//! duplication) of <= k sibling statements / arguments / nesting chains.
//! Oracle: ref_rule with copy-on-entry environments: same verdict on every node, and for a
//! match the same single and multi bindings (by byte extent).

use ast_grep_core::matcher::MatcherExt;
use ast_grep_core::{AstGrep, Language};
use rayon::prelude::*;
use serde_json::json;
use std::collections::BTreeMap;
use std::sync::atomic::{AtomicU64, Ordering};
use vcore::dump::*;
use vcore::gen;
use vcore::langs::spec_by_name;
use vcore::report::*;
use vcore::rulegen::apply_ops;
use vcore::rules::*;

struct LangPlan {
  lang: &'static str,
  stmts: &'static [&'static str],
  sep: &'static str,
  wrap: &'static [(&'static str, &'static str, &'static str)], // (prefix, joiner, suffix)
  atoms: &'static [&'static str],
  kinds: &'static [&'static str],
}

static PLANS: &[LangPlan] = &[
  LangPlan {
    lang: "javascript",
    stmts: &["f(a)", "f(b)", "f(a, a)", "f(a, b)", "a + a", "a + b", "f(b, a)"],
    sep: ";\n",
    wrap: &[("", ";\n", ";\n"), ("h(", ", ", ");\n"), ("{ ", "; ", " }\n")],
    atoms: &["$A", "f($A)", "f($A, $A)", "$A + $B", "f($A, $B)", "f($$$A)", "$A + $A", "f($B, $A)"],
    kinds: &["call_expression", "identifier"],
  },
  LangPlan {
    lang: "python",
    stmts: &["f(a)", "f(b)", "f(a, a)", "f(a, b)", "a + a", "a + b", "f(b, a)"],
    sep: "\n",
    wrap: &[("", "\n", "\n"), ("h(", ", ", ")\n"), ("[", ", ", "]\n")],
    atoms: &["$A", "f($A)", "f($A, $A)", "$A + $B", "f($A, $B)", "f($$$A)", "$A + $A", "f($B, $A)"],
    kinds: &["call", "identifier"],
  },
  LangPlan {
    lang: "rust",
    stmts: &["f(a)", "f(b)", "f(a, a)", "f(a, b)", "a + a", "a + b", "f(b, a)"],
    sep: ";\n",
    wrap: &[("fn m() { ", "; ", "; }\n"), ("fn m() { h(", ", ", "); }\n")],
    atoms: &["$A", "f($A)", "f($A, $A)", "$A + $B", "f($A, $B)", "f($$$A)", "$A + $A", "f($B, $A)"],
    kinds: &["call_expression", "identifier"],
  },
];

fn sources(p: &LangPlan, k: usize) -> Vec<String> {
  let n = p.stmts.len();
  let mut out = vec![];
  for (pre, join, suf) in p.wrap {
    for i in 0..gen::count(n, k) {
      let seq = gen::nth_tokens(n, k, i);
      let body: Vec<&str> = seq.iter().map(|&t| p.stmts[t]).collect();
      out.push(format!("{pre}{}{suf}", body.join(join)));
    }
  }
  // nesting chains: g(f(X)), f(g(f(X))) ... ancestors that bind before the right one
  for a in ["a", "b"] {
    for b in ["a", "b"] {
      for c in ["a", "b"] {
        out.push(format!("f({a}, f({b}, f({c}, {c}))){}", p.sep));
        out.push(format!("f(f(f({a}, {b}), {c}), {a}){}", p.sep));
        out.push(format!("f({a} + {b}, f({b} + {c}, {c} + {a})){}", p.sep));
        // curried calls: a node that is the CALLEE (field `function`) of one call and sits in the
        // arguments of a nearer one
        out.push(format!("f({a})({b}, {c}){}", p.sep));
        out.push(format!("f(f({a})({b}))({c}){}", p.sep));
      }
    }
  }
  out.sort();
  out.dedup();
  out
}

#[derive(Default)]
struct Stats {
  evals: AtomicU64,
  matches: AtomicU64,
  bound: AtomicU64,
  rejected: AtomicU64,
  nontrivial_docs: AtomicU64,
}

fn run_doc(rep: &Reporter, lang: &str, doc: &RuleDoc, trees: &[(String, AstGrep<D>)], st: &Stats, class: &str) {
  let spec = spec_by_name(lang).unwrap();
  let core = match doc.load_core(spec.lang) {
    Ok(c) => c,
    Err(_) => {
      st.rejected.fetch_add(1, Ordering::Relaxed);
      return;
    }
  };
  let comp = match compile_doc(doc, spec.lang) {
    Ok(c) => c,
    Err(e) => machinery(&format!("reference cannot compile {}: {e}", doc.core_json())),
  };
  let names = ["A", "B", "C"];
  let (mut evals, mut matches, mut bound) = (0u64, 0u64, 0u64);
  for (src, g) in trees {
    let mut nodes = vec![];
    all_nodes(&g.root(), &mut nodes);
    for n in &nodes {
      evals += 1;
      let imp = guarded(std::panic::AssertUnwindSafe(|| core.match_node(n.clone()).map(|nm| env_summary(nm.get_env(), &names))));
      let imp = match imp {
        Ok(i) => i,
        Err(msg) => {
          rep.violation(
            &format!("panic:{class}"),
            json!({"lang": lang, "doc": doc.core_json(), "src": src, "node": [n.range().start, n.range().end], "panic": msg, "at": last_panic_loc()}),
          );
          continue;
        }
      };
      let ev = Eval::new(&comp);
      let rf: Option<BTreeMap<String, serde_json::Value>> = ev.doc(n).map(|e| env_summary(&e, &names));
      if imp.is_some() {
        matches += 1;
        if imp.as_ref().map(|m| !m.is_empty()).unwrap_or(false) {
          bound += 1;
        }
      }
      if imp.is_some() != rf.is_some() {
        rep.violation(
          &format!("verdict:{}:{class}", if imp.is_some() { "impl-only" } else { "ref-only" }),
          json!({"lang": lang, "doc": doc.core_json(), "globals": doc.globals_json(), "src": src, "node": {"kind": n.kind(), "range": [n.range().start, n.range().end]}, "impl_bindings": imp, "ref_bindings": rf}),
        );
      } else if imp != rf {
        rep.violation(
          &format!("bindings:{class}"),
          json!({"lang": lang, "doc": doc.core_json(), "globals": doc.globals_json(), "src": src, "node": {"kind": n.kind(), "range": [n.range().start, n.range().end]}, "impl_bindings": imp, "ref_bindings": rf}),
        );
      }
    }
  }
  st.evals.fetch_add(evals, Ordering::Relaxed);
  st.matches.fetch_add(matches, Ordering::Relaxed);
  st.bound.fetch_add(bound, Ordering::Relaxed);
  if matches > 0 && matches < evals && bound > 0 {
    st.nontrivial_docs.fetch_add(1, Ordering::Relaxed);
  }
}

/// Coherence of repeated variables, checked WITHOUT the implementation's own notion of
/// "structurally identical": a pattern with a repeated variable (`f($A, $A)`) must match a
/// node exactly when its linearised version (`f($A, $B)`) matches AND the two captures spell
/// the same sequence of leaf tokens.
fn leaf_tokens(n: &ast_grep_core::Node<D>, out: &mut Vec<String>) {
  let ks = children_vec(n);
  if ks.is_empty() {
    if !n.range().is_empty() {
      out.push(n.text().to_string());
    }
    return;
  }
  for k in ks {
    leaf_tokens(&k, out);
  }
}

fn linearization(rep: &Reporter, lang: &str, st: &Stats) -> (u64, u64) {
  use ast_grep_core::Pattern;
  let spec = spec_by_name(lang).unwrap();
  let exprs: &[&str] = match lang {
    "javascript" => &["new F", "new F()", "new F(1)", "new G", "a", "a.b", "(p) => p", "(p, q) => p", "a ? b : c", "[a]", "[a, a]"],
    "python" => &["a", "a.b", "a[0]", "a[0:1]", "f(a)", "f(a, b)", "(a, b)", "(a, b, c)", "lambda: a", "not a"],
    _ => &["a", "F {}", "F { x: 1 }", "f(a)", "f(a, b)", "(a, b)", "(a, b, c)", "&a", "a.b"],
  };
  let forms: &[(&str, &str, &str)] = &[("f($A, $A)", "f($A, $B)", "f({x}, {y})"), ("$A + $A", "$A + $B", "{x} + {y}"), ("g($A, 1, $A)", "g($A, 1, $B)", "g({x}, 1, {y})")];
  let (mut cases, mut equal_pairs) = (0u64, 0u64);
  for (orig, lin, form) in forms {
    let (Ok(po), Ok(pl)) = (Pattern::try_new(orig, spec.lang), Pattern::try_new(lin, spec.lang)) else { continue };
    for x in exprs {
      for y in exprs {
        let src = format!("{}\n", form.replace("{x}", x).replace("{y}", y));
        let g = spec.lang.ast_grep(&src);
        let mut nodes = vec![];
        all_nodes(&g.root(), &mut nodes);
        for n in &nodes {
          cases += 1;
          let ml = pl.match_node(n.clone());
          let mo = po.match_node(n.clone()).is_some();
          let want = match &ml {
            None => false,
            Some(nm) => {
              let (a, b) = (nm.get_env().get_match("A").cloned(), nm.get_env().get_match("B").cloned());
              match (a, b) {
                (Some(a), Some(b)) => {
                  let (mut ta, mut tb) = (vec![], vec![]);
                  leaf_tokens(&a, &mut ta);
                  leaf_tokens(&b, &mut tb);
                  if ta == tb {
                    equal_pairs += 1;
                  }
                  ta == tb
                }
                _ => false,
              }
            }
          };
          if mo != want {
            rep.violation(
              &format!("repeated-variable:{}", if mo { "matched-although-occurrences-differ" } else { "rejected-although-occurrences-identical" }),
              json!({"lang": lang, "pattern": orig, "linearised": lin, "src": src, "node": {"kind": n.kind(), "range": [n.range().start, n.range().end]}}),
            );
          }
        }
      }
    }
  }
  // the same for `$$$A`: both occurrences must capture lists that spell the same tokens; an EMPTY
  // list is a binding like any other (whichever occurrence is matched first)
  let lists: &[&str] = &["", "a", "b", "a, b", "b, a", "a, a", "a, b, a"];
  let mforms: &[(&str, &str, &str)] = &[
    ("h(f($$$A), g($$$A))", "h(f($$$A), g($$$B))", "h(f({x}), g({y}))"),
    ("h(f($$$A), $$$A)", "h(f($$$A), $$$B)", "h(f({x}), {y})"),
    ("h($$$A, f($$$A))", "h($$$A, f($$$B))", "h({x}, f({y}))"),
  ];
  for (orig, lin, form) in mforms {
    let (Ok(po), Ok(pl)) = (Pattern::try_new(orig, spec.lang), Pattern::try_new(lin, spec.lang)) else { continue };
    for x in lists {
      for y in lists {
        let mut body = form.replace("{x}", x).replace("{y}", y);
        body = body.replace("(, ", "(").replace(", )", ")");
        let src = match lang {
          "rust" => format!("fn m() {{ {body}; }}\n"),
          _ => format!("{body}\n"),
        };
        let g = spec.lang.ast_grep(&src);
        if g.root().dfs().any(|n| n.is_error()) {
          continue;
        }
        let mut nodes = vec![];
        all_nodes(&g.root(), &mut nodes);
        for n in &nodes {
          cases += 1;
          let ml = pl.match_node(n.clone());
          let mo = po.match_node(n.clone()).is_some();
          let want = match &ml {
            None => false,
            Some(nm) => {
              let toks = |v: &str| {
                let mut t = vec![];
                for k in nm.get_env().get_multiple_matches(v).iter().filter(|k| k.is_named()) {
                  let mut one = vec![];
                  leaf_tokens(k, &mut one);
                  t.push(one);
                }
                t
              };
              let (ta, tb) = (toks("A"), toks("B"));
              if ta == tb {
                equal_pairs += 1;
              }
              ta == tb
            }
          };
          if mo != want {
            rep.violation(
              &format!("repeated-multi-variable:{}", if mo { "matched-although-the-lists-differ" } else { "rejected-although-the-lists-are-identical" }),
              json!({"lang": lang, "pattern": orig, "linearised": lin, "src": src, "node": {"kind": n.kind(), "range": [n.range().start, n.range().end]}}),
            );
          }
        }
      }
    }
  }
  st.evals.fetch_add(cases, Ordering::Relaxed);
  (cases, equal_pairs)
}

/// In-pattern alternatives: the scan that follows an ellipsis tries the next pattern node on one
/// sibling after the other; a sibling on which that attempt FAILS after having bound a variable is
/// a failed alternative and must leave no trace.
/// Patterns `h(PRE M, T)`: PRE in {none, `$A, `}, M in {`$$$`, `$$$R`}, T a one-variable pattern
/// that binds `$A` before it can fail. Sources `h(c1, .., cn)`, every sequence of <= k arguments.
/// Reference (atoms real, scan own): T is tried IN ISOLATION on each argument after PRE (fresh
/// environment; coherence with PRE's `$A` decided by token-sequence equality). With i = the first
/// argument on which it succeeds: none => the pattern must not match; i is the last argument =>
/// the pattern must match, `$A` having the extent found in isolation and `$$$R` the arguments
/// between; otherwise (a later argument follows the first success) nothing is asserted: the
/// statement does not promise backtracking.
fn ellipsis_scan(rep: &Reporter, lang: &str, st: &Stats, k: usize) -> (u64, u64, u64) {
  use ast_grep_core::{MatchStrictness, Pattern};
  let spec = spec_by_name(lang).unwrap();
  let args_alpha: &[&str] = &["f(a, a)", "f(b, b)", "f(a, b)", "f(b, a)", "a + b", "b + b", "a", "b"];
  let targets: &[&str] = &["f($A, b)", "f($A, $A)", "f($A, a)", "$A + b", "f(b, $A)"];
  let (mut cases, mut must_match, mut unjudged) = (0u64, 0u64, 0u64);
  let wrap = |call: &str| match lang {
    "rust" => format!("fn m() {{ {call}; }}\n"),
    "python" => format!("{call}\n"),
    _ => format!("{call};\n"),
  };
  let strictness = [("cst", MatchStrictness::Cst), ("smart", MatchStrictness::Smart), ("ast", MatchStrictness::Ast), ("relaxed", MatchStrictness::Relaxed)];
  for pre in [false, true] {
    for named in [false, true] {
      for t in targets {
        let ptxt = format!("h({}{}, {t})", if pre { "$A, " } else { "" }, if named { "$$$R" } else { "$$$" });
        for (sname, s) in &strictness {
          let (Ok(p), Ok(pt)) = (Pattern::try_new(&ptxt, spec.lang), Pattern::try_new(t, spec.lang)) else { continue };
          let (p, pt) = (p.with_strictness(s.clone()), pt.with_strictness(s.clone()));
          for n_args in 1..=k {
            for i in 0..args_alpha.len().pow(n_args as u32) {
              let mut idx = i;
              let mut a = vec![];
              for _ in 0..n_args {
                a.push(args_alpha[idx % args_alpha.len()]);
                idx /= args_alpha.len();
              }
              let call = format!("h({})", a.join(", "));
              let src = wrap(&call);
              let g = spec.lang.ast_grep(&src);
              let mut nodes = vec![];
              all_nodes(&g.root(), &mut nodes);
              let Some(call_node) = nodes.iter().find(|n| n.text() == call && children_vec(n).len() >= 2) else { continue };
              let kids = children_vec(call_node);
              let Some(arg_list) = kids.last() else { continue };
              let cs: Vec<_> = children_vec(arg_list).into_iter().filter(|c| c.is_named()).collect();
              if cs.len() != n_args {
                continue;
              }
              cases += 1;
              let start = if pre { 1 } else { 0 };
              let mut pre_tokens = vec![];
              if pre {
                leaf_tokens(&cs[0], &mut pre_tokens);
              }
              let mut first: Option<(usize, (usize, usize))> = None;
              for (j, c) in cs.iter().enumerate().skip(start) {
                if let Some(nm) = pt.match_node(c.clone()) {
                  let Some(av) = nm.get_env().get_match("A").cloned() else { continue };
                  if pre {
                    let mut tk = vec![];
                    leaf_tokens(&av, &mut tk);
                    if tk != pre_tokens {
                      continue;
                    }
                  }
                  first = Some((j, (av.range().start, av.range().end)));
                  break;
                }
              }
              let got = p.match_node(call_node.clone());
              let case = |what: &str| json!({"lang": lang, "pattern": ptxt, "strictness": sname, "src": src, "scan_target": t, "what": what});
              match first {
                None => {
                  if pre && cs.len() < 2 {
                    // `$A, $$$, T` needs two arguments anyway
                  }
                  if got.is_some() {
                    rep.violation("ellipsis-scan:matched-although-no-sibling-matches-the-next-pattern-node", case("no argument after PRE matches T in isolation"));
                  }
                }
                Some((j, a_ext)) if j + 1 == cs.len() => {
                  must_match += 1;
                  match got {
                    None => rep.violation(
                      &format!("ellipsis-scan:rejected-after-a-failed-sibling-bound-a-variable{}", if pre { ":with-earlier-binding" } else { "" }),
                      case("the first argument that matches T in isolation is the last one, so the pattern must match"),
                    ),
                    Some(nm) => {
                      let env = nm.get_env();
                      // which of several identical occurrences is kept is not fixed by the statement:
                      // the reported node must be the one found in isolation or spell the same tokens
                      let a_got = env.get_match("A").map(|n| (n.range().start, n.range().end));
                      let mut tk = vec![];
                      if let Some(n) = env.get_match("A") {
                        leaf_tokens(n, &mut tk);
                      }
                      let ok = if pre { tk == pre_tokens } else { a_got == Some(a_ext) };
                      if !ok {
                        rep.violation("ellipsis-scan:binding-comes-from-a-failed-sibling", case(&format!("$A bound to {a_got:?} {tk:?}, isolated match gives {a_ext:?}")));
                      }
                      if named {
                        let r: Vec<(usize, usize)> = env.get_multiple_matches("R").iter().filter(|n| n.is_named()).map(|n| (n.range().start, n.range().end)).collect();
                        let want: Vec<(usize, usize)> = cs[start..j].iter().map(|n| (n.range().start, n.range().end)).collect();
                        if r != want {
                          rep.violation("ellipsis-scan:ellipsis-capture-differs", case(&format!("$$$R = {r:?}, expected {want:?}")));
                        }
                      }
                    }
                  }
                }
                Some(_) => unjudged += 1,
              }
            }
          }
        }
      }
    }
  }
  st.evals.fetch_add(cases, Ordering::Relaxed);
  (cases, must_match, unjudged)
}

fn top_op(r: &R) -> String {
  fn sk(r: &R, d: usize) -> String {
    if d == 0 {
      return r.key().to_string();
    }
    match r {
      R::All(rs) | R::Any(rs) | R::Obj(rs) => format!("{}({})", r.key(), rs.iter().map(|x| sk(x, d - 1)).collect::<Vec<_>>().join(",")),
      R::Not(x) => format!("not({})", sk(x, d - 1)),
      R::Inside(rl) | R::Has(rl) | R::Precedes(rl) | R::Follows(rl) => {
        let s = match &rl.stop {
          Stop::Neighbor => "n",
          Stop::End => "e",
          Stop::Rule(_) => "r",
        };
        format!("{}[{s}]({})", r.key(), sk(&rl.rule, d - 1))
      }
      R::Nth { of: Some(o), .. } => format!("nth(of:{})", sk(o, d - 1)),
      _ => r.key().to_string(),
    }
  }
  sk(r, 2)
}

fn main() {
  let args = Args::parse();
  quiet_panics();
  let rep = Reporter::new("C04", args.clone());
  if args.replay.is_some() {
    let v: serde_json::Value = serde_json::from_str(&std::fs::read_to_string(args.replay.as_ref().unwrap()).unwrap()).unwrap();
    let case = &v["case"];
    let lang = case["lang"].as_str().unwrap();
    let spec = spec_by_name(lang).unwrap();
    let core = load_core_json(&case["doc"], spec.lang).unwrap();
    let g = spec.lang.ast_grep(case["src"].as_str().unwrap());
    let mut nodes = vec![];
    all_nodes(&g.root(), &mut nodes);
    for n in &nodes {
      let m = core.match_node(n.clone()).map(|nm| env_summary(nm.get_env(), &["A", "B", "C"]));
      println!("{}@{}..{} impl={:?}", n.kind(), n.range().start, n.range().end, m);
    }
    println!("expected (reference) for the recorded node: {}", case["ref_bindings"]);
    std::process::exit(0);
  }
  let st = Stats::default();
  let samples = Samples::new(8);
  let mut per_lang = vec![];
  let plans: Vec<&LangPlan> = if args.thorough() { PLANS.iter().collect() } else { PLANS.iter().take(1).collect() };
  for p in plans {
    let spec = spec_by_name(p.lang).unwrap();
    // thorough: every document on sources of <= 3 siblings; in javascript the documents of depth
    // <= 1 also on sources of 4 siblings (all documents on 4 siblings took > 20 min)
    let k = 3;
    let srcs = sources(p, k);
    let deep_trees: Vec<(String, AstGrep<D>)> = if args.thorough() && p.lang == "javascript" {
      // (4 siblings as top-level statements only; call arguments and block members stay at <= 3:
      // with 7 statements and 8 atoms two wrappers took the tier to 19 min)
      let two_wraps = LangPlan { lang: p.lang, stmts: p.stmts, sep: p.sep, wrap: &p.wrap[..1], atoms: p.atoms, kinds: p.kinds };
      sources(&two_wraps, 4).into_iter().filter(|s| !srcs.contains(s)).map(|s| { let g = spec.lang.ast_grep(&s); (s, g) }).collect()
    } else {
      vec![]
    };
    let trees: Vec<(String, AstGrep<D>)> = srcs.iter().map(|s| (s.clone(), spec.lang.ast_grep(s))).collect();
    let mut atoms: Vec<R> = p.atoms.iter().map(|a| R::Pat(a.to_string())).collect();
    atoms.extend(p.kinds.iter().map(|k| R::Kind(k.to_string())));
    // nthChild whose ofRule binds variables while it filters the siblings
    atoms.push(R::Nth { pos: "1".into(), reverse: false, of: Some(Box::new(R::Pat(p.atoms[1].to_string()))) });
    atoms.push(R::Nth { pos: "2".into(), reverse: false, of: Some(Box::new(R::Pat(p.atoms[0].to_string()))) });
    let aux: Vec<R> = vec![R::Pat(p.atoms[1].to_string()), R::Pat(p.atoms[0].to_string()), R::Kind(p.kinds[0].to_string())];
    // relations with `field: function` as well (inside/has through a field reject candidates AFTER
    // the sub-rule has been tried on them)
    let d1 = apply_ops(&atoms, &aux, &["function"], false);
    let aux2: Vec<R> = vec![R::Pat(p.atoms[1].to_string()), R::Kind(p.kinds[0].to_string())];
    let d2 = apply_ops(&d1, &aux2, &[], false);
    let mut docs: Vec<(String, RuleDoc)> = vec![];
    for r in atoms.iter().chain(d1.iter()).chain(d2.iter()) {
      docs.push((top_op(r), RuleDoc::simple(r.clone())));
    }
    let n_shallow = atoms.len() + d1.len();
    if args.thorough() {
      // a slice of depth 3: every 7th depth-2 rule under each operator once
      let slice: Vec<R> = d2.iter().step_by(7).cloned().collect();
      for r in apply_ops(&slice, &aux2[..1], &[], false) {
        docs.push((top_op(&r), RuleDoc::simple(r)));
      }
    }
    // utils: `matches` of a utility whose body shares variable names with the caller
    for body in d1.iter().step_by(3) {
      for caller in [R::Pat(p.atoms[1].to_string()), R::Pat(p.atoms[4].to_string())] {
        let mut d = RuleDoc::simple(R::All(vec![caller.clone(), R::Matches("u".into())]));
        d.utils.insert("u".into(), body.clone());
        docs.push((format!("all(pattern,matches:{})", top_op(body)), d));
        let mut d = RuleDoc::simple(R::Any(vec![R::All(vec![R::Matches("u".into()), R::Kind(p.kinds[1].to_string())]), caller.clone()]));
        d.utils.insert("u".into(), body.clone());
        docs.push((format!("any(all(matches:{},kind),pattern)", top_op(body)), d));
      }
    }
    // global utilities with constraints of their own: `matches: g` must leave no trace when
    // g's rule matches but g's constraint fails
    let gcons: Vec<(&str, R)> = vec![("A", R::Pat("a".into())), ("A", R::Regex("^b$".into())), ("B", R::Pat("b".into())), ("A", R::Not(Box::new(R::Pat("a".into()))))];
    for gbody in [p.atoms[1], p.atoms[4], p.atoms[3], p.atoms[0]] {
      for (cv, cr) in &gcons {
        let mut cons = BTreeMap::new();
        cons.insert(cv.to_string(), cr.clone());
        let g = (R::Pat(gbody.to_string()), cons);
        let m = R::Matches("g".into());
        let callers: Vec<R> = vec![
          m.clone(),
          R::Any(vec![m.clone(), R::Pat(p.atoms[1].to_string())]),
          R::Any(vec![R::Pat(p.atoms[1].to_string()), m.clone()]),
          R::Any(vec![m.clone(), R::Pat(p.atoms[4].to_string())]),
          R::All(vec![R::Pat(p.atoms[4].to_string()), m.clone()]),
          R::All(vec![R::Kind(p.kinds[0].to_string()), R::Not(Box::new(m.clone()))]),
          R::Has(Box::new(Rel { rule: m.clone(), stop: Stop::End, field: None })),
          R::Has(Box::new(Rel { rule: m.clone(), stop: Stop::Neighbor, field: None })),
          R::Inside(Box::new(Rel { rule: m.clone(), stop: Stop::End, field: None })),
          R::Precedes(Box::new(Rel { rule: m.clone(), stop: Stop::End, field: None })),
          R::Follows(Box::new(Rel { rule: m.clone(), stop: Stop::End, field: None })),
          R::Obj(vec![R::Kind(p.kinds[0].to_string()), R::Has(Box::new(Rel { rule: R::All(vec![m.clone(), R::Kind(p.kinds[0].to_string())]), stop: Stop::End, field: None }))]),
        ];
        for c in callers {
          let mut d = RuleDoc::simple(c.clone());
          d.globals.insert("g".into(), g.clone());
          docs.push((format!("global-util-with-constraint:{}", top_op(&c)), d));
        }
      }
    }
    // constraints
    // Constraint rules are variable-free or introduce one FRESH variable ($C) that has no
    // constraint of its own: the statement is silent on constraints that re-bind an already
    // bound name or that are keyed by a name only another constraint binds (both make the
    // reported extents depend on evaluation order; that order dependence is C13's subject).
    let cons: Vec<R> = vec![
      R::Pat("a".into()),
      R::Kind(p.kinds[1].to_string()),
      R::Regex("^b$".into()),
      R::Not(Box::new(R::Pat("a".into()))),
      R::Pat("$C".into()),
      R::Any(vec![R::Pat("b".into()), R::Pat("$C".into())]),
      R::Not(Box::new(R::Pat("$C".into()))),
    ];
    for main in [p.atoms[4], p.atoms[3], p.atoms[1]] {
      for ca in &cons {
        let mut d = RuleDoc::simple(R::Pat(main.to_string()));
        d.constraints.insert("A".into(), ca.clone());
        docs.push((format!("constraints:A:{}", top_op(ca)), d.clone()));
        for cb in &cons {
          // two constraints sharing the fresh variable would again be order dependent
          let mentions_c = |r: &R| r.to_json().to_string().contains("$C");
          if mentions_c(ca) && mentions_c(cb) {
            continue;
          }
          let mut d2 = d.clone();
          d2.constraints.insert("B".into(), cb.clone());
          docs.push((format!("constraints:A:{},B:{}", top_op(ca), top_op(cb)), d2));
        }
      }
    }
    for (i, (_, d)) in docs.iter().enumerate() {
      if i % 2500 == 11 {
        samples.offer(|| json!({"lang": p.lang, "doc": d.core_json(), "src": srcs[srcs.len() / 3]}));
      }
    }
    docs.par_iter().for_each(|(class, d)| run_doc(&rep, p.lang, d, &trees, &st, class));
    if !deep_trees.is_empty() {
      docs[..n_shallow].par_iter().for_each(|(class, d)| run_doc(&rep, p.lang, d, &deep_trees, &st, class));
    }
    let (lin_cases, lin_equal) = linearization(&rep, p.lang, &st);
    let (es_cases, es_must, es_unjudged) = ellipsis_scan(&rep, p.lang, &st, if args.thorough() { 4 } else { 3 });
    per_lang.push(json!({"lang": p.lang, "sources": srcs.len(), "max_siblings": k, "extra_sources_of_4_siblings_for_depth_le1_documents": deep_trees.len(), "rule_documents": docs.len(),
      "ellipsis_scan_cases": es_cases, "ellipsis_scan_cases_that_must_match": es_must, "ellipsis_scan_cases_not_judged_first_success_is_not_last": es_unjudged,
      "repeated_variable_linearisation_cases": lin_cases, "of_which_captures_spell_identical_tokens": lin_equal}));
  }
  let cov = json!({
    "evaluations": st.evals.load(Ordering::Relaxed),
    "distinct_nontrivial": st.nontrivial_docs.load(Ordering::Relaxed),
    "rule": "rule documents = every operator (all/any/not, inside/has/precedes/follows x stopBy neighbor|end|rule) applied up to depth 2 over pattern atoms sharing $A/$B ($A, f($A), f($A,$A), $A+$B, f($A,$B), f($$$A), $A+$A, f($B,$A): binds a NEW variable before it can fail on a bound one) and kinds, plus matches-of-utility documents and constraints maps, plus the in-pattern family h([$A,] $$$[R], T) (a sibling on which T fails after binding is a failed alternative); sources = every sequence (all permutations with repetition) of <= k statements from a 7-statement alphabet (incl. f(b, a): binds $A, then fails against a later f(a, a)) as top-level statements, call arguments and block members, plus nesting chains; one evaluation = one (document, node); distinct_nontrivial = documents that matched some node, rejected some node and produced at least one non-empty binding",
    "samples": samples.take(),
    "exhaustive": true,
    "matches": st.matches.load(Ordering::Relaxed),
    "matches_with_bindings": st.bound.load(Ordering::Relaxed),
    "documents_rejected_by_loader": st.rejected.load(Ordering::Relaxed),
    "per_language": per_lang,
  });
  rep.finish(
    "exploration",
    cov,
    vec![
      "pattern atoms inside the reference are the real Pattern matcher called on a clone of the environment; all combinators, relations, utils and constraints are the reference's own".into(),
      "bindings are compared by byte extent; the internal `secondary` label list is ignored".into(),
      "dev profile (debug assertions on), opt-level 1".into(),
    ],
  );
}
