//! C06 — rewrites touch only what was matched: edits are well-formed and local.
//!
//! Three rewriting front ends of the library are driven over every token string <= L of the
//! per-language token tables (multi-byte identifiers, syntax errors), the corpus and the CRLF
//! variant of the corpus:
//!  part 1  `Node::replace_all(pattern, template)` / `Node::replace(pattern, template)` for every
//!          accepted pattern <= 3 tokens over (7 source tokens + 6 hole spellings) x 6 templates;
//!  part 2  rule + fix loaded with `from_yaml_string`: string fix and object-form fix with every
//!          combination of 7 `expandStart` x 7 `expandEnd` variants; edits made the way the CLI
//!          does (`NodeMatch::make_edit(&rule.matcher, &fixer)` for every `find_all` match), plus
//!          `replace_all` / `replace` with the same matcher and fixer;
//!  part 3  rule + `rewrite` transformation over 1-2 rewriters (string and object-form fixes with
//!          expansions, with and without `joinBy`), source `$A` (every named node is a captured
//!          subtree) or `$$$A` (sibling runs).
//!
//! Oracle (written from the statement):
//!  * every edit (p, d, t) on a source of n bytes: p + d <= n, p and p + d on char boundaries,
//!    t valid UTF-8;
//!  * no expansion configured: p == match.start and p + d <= match.end;
//!  * expansion configured: p / p + d equal the start / end of the sibling selected by a
//!    sibling-list model of expandStart / expandEnd (nearest first; `stopBy` neighbor = first
//!    sibling only, end = all, rule = up to and including the first sibling satisfying it; no
//!    sibling selected = the match's own start / end); in particular p <= match.start and
//!    p + d >= match.end. Where a zero-width (MISSING) node sits among the siblings only these
//!    bounds are asserted (sibling enumeration next to zero-width nodes is not covered by any
//!    statement; C19 restricts its sibling clauses the same way), and likewise where the
//!    tree-sitter cursor walk behind Node::prev_all / next_all disagrees with the parent's child
//!    list about the matched node's siblings (node, extent or kind: C19's known finding; c05 does
//!    the same) - both are counted in the evidence;
//!  * `replace_all` edits: one per outermost match (pre-order, a match hides its descendants;
//!    with an expanding fixer: paired in order with a subsequence of them), p_i + d_i <= p_{i+1};
//!    `replace` / `replace_all` with a fixer may yield the match itself or the expanded range
//!    (which one is C08's question);
//!  * the bytes obtained by applying the kept edits (an edit beginning before the end of the
//!    previously kept one is dropped, as the CLI does) with `AstGrep::edit` from last to first
//!    equal `refs::splice(source, edits)`, are valid UTF-8 and have length n - sum d + sum |t|;
//!  * rewriters: the transformed string equals the captured slice with the rewriter edits
//!    spliced in. The edits are recomputed independently: plain recursion over the captured
//!    nodes in pre-order, at each node the first rewriter of the list whose rule matches (each
//!    rewriter loaded as a stand-alone rule) contributes the edit its own fix makes there, an
//!    edit beginning before the end of the previously accepted one is dropped; with `joinBy`
//!    the accepted replacement texts joined by the joiner. When a recomputed edit reaches
//!    outside the captured text only "no panic" is asserted. The rule with the transformation is
//!    run on each matched node separately (`match_node`) so that a panic is blamed on one match.
//!
//! Extra arguments (debugging): `--lang <name>` restricts to one language, `--parts 13` to parts.

use ast_grep_config::{from_str, from_yaml_string, DeserializeEnv, Fixer, GlobalRules, RuleConfig, RuleCore, SerializableRuleCore};
use ast_grep_core::matcher::MatcherExt;
use ast_grep_core::source::Edit;
use ast_grep_core::{Language, Matcher, Node};
use ast_grep_language::SupportLang;
use rayon::prelude::*;
use serde_json::{json, Value};
use std::collections::{BTreeMap, HashMap, HashSet};
use std::panic::AssertUnwindSafe as Aus;
use std::sync::atomic::{AtomicU64, Ordering::Relaxed};
use vcore::dump::*;
use vcore::gen;
use vcore::langs::{spec_by_name, LangSpec, SPECS};
use vcore::pats::{accepted_patterns, Pat};
use vcore::refs::splice;
use vcore::report::*;
use vcore::rules::D;

type Ed = (usize, usize, Vec<u8>);
type Core = RuleCore<SupportLang>;

const TEMPLATES: &[&str] = &["x", "$A", "($A)", "$$$A", "", "é$B"];

static REPLAY_VERBOSE: std::sync::atomic::AtomicBool = std::sync::atomic::AtomicBool::new(false);

/// every violation goes through here; in replay mode the observed/expected details are printed
fn viol(rep: &Reporter, sig: &str, case: Value) {
  if REPLAY_VERBOSE.load(Relaxed) {
    let mut shown = case.clone();
    if let Some(o) = shown.as_object_mut() {
      o.remove("config");
      o.remove("src");
    }
    println!("  violated: {sig}\n    observed/expected details: {shown}");
  }
  rep.violation(sig, case);
}

fn to_ed(e: Edit<String>) -> Ed {
  (e.position, e.deleted_length, e.inserted_text)
}

fn ed_json(e: &Ed) -> Value {
  json!([e.0, e.1, String::from_utf8_lossy(&e.2)])
}

fn eds_json(v: &[Ed]) -> Value {
  Value::Array(v.iter().map(ed_json).collect())
}

fn psig(msg: &str) -> String {
  // every maximal run of digits becomes one `#`
  let mut out = String::new();
  let mut in_run = false;
  for c in msg.chars() {
    if c.is_ascii_digit() {
      if !in_run {
        out.push('#');
      }
      in_run = true;
    } else {
      in_run = false;
      out.push(c);
    }
  }
  out.chars().take(70).collect()
}

#[derive(Default)]
struct Stats {
  p1_evals: AtomicU64,
  p1_with_edits: AtomicU64,
  p1_edits: AtomicU64,
  p1_replace: AtomicU64,
  p2_evals: AtomicU64,
  p2_with_matches: AtomicU64,
  p2_edits: AtomicU64,
  p2_edits_widened: AtomicU64,
  p2_overlaps_dropped: AtomicU64,
  p2_exact_model_not_applicable: AtomicU64,
  p2_sibling_api_disagrees: AtomicU64,
  p2_front_edits: AtomicU64,
  p3_evals: AtomicU64,
  p3_matches: AtomicU64,
  p3_judged_exact: AtomicU64,
  p3_judged_modulo_indent: AtomicU64,
  p3_rewritten: AtomicU64,
  p3_with_dropped_overlap: AtomicU64,
  p3_escaping_not_judged: AtomicU64,
  p3_empty_capture: AtomicU64,
  p3_rewriter_edits: AtomicU64,
  applied_real: AtomicU64,
  applied_multibyte: AtomicU64,
  parse_errors_on_edit: AtomicU64,
}

/// deterministic samples: the n smallest offered cases (by length, then text) per part
struct MinSamples {
  n: usize,
  v: std::sync::Mutex<std::collections::BTreeSet<(usize, String)>>,
}
impl MinSamples {
  fn new(n: usize) -> Self {
    MinSamples { n, v: Default::default() }
  }
  fn offer(&self, f: impl FnOnce() -> Value) {
    if self.n == 0 {
      return;
    }
    let s = f().to_string();
    let mut v = self.v.lock().unwrap();
    v.insert((s.len(), s));
    if v.len() > self.n {
      let last = v.iter().next_back().cloned().unwrap();
      v.remove(&last);
    }
  }
  fn take(&self) -> Vec<Value> {
    self.v.lock().unwrap().iter().map(|(_, s)| serde_json::from_str(s).unwrap()).collect()
  }
}

struct Samp {
  p1: MinSamples,
  p2: MinSamples,
  p3: MinSamples,
}
impl Samp {
  fn new(n: usize) -> Self {
    Samp { p1: MinSamples::new(n), p2: MinSamples::new(n), p3: MinSamples::new(n) }
  }
  fn take(&self) -> Vec<Value> {
    let mut v = self.p1.take();
    v.extend(self.p2.take());
    v.extend(self.p3.take());
    v
  }
}

// ------------------------------------------------------------------------------------------
// shared oracle pieces

/// problems of one edit against the first clause of the statement
fn wf_problems(src: &str, e: &Ed) -> Vec<&'static str> {
  let mut v = vec![];
  match e.0.checked_add(e.1) {
    None => v.push("range-arithmetic-overflows"),
    Some(end) => {
      if end > src.len() {
        v.push("range-outside-file");
      } else if !src.is_char_boundary(e.0) || !src.is_char_boundary(end) {
        v.push("range-splits-a-character");
      }
    }
  }
  if std::str::from_utf8(&e.2).is_err() {
    v.push("inserted-text-not-utf8");
  }
  v
}

struct FileCtx<'a> {
  rep: &'a Reporter,
  st: &'a Stats,
  lang: SupportLang,
  src: &'a str,
  /// edit lists already pushed through AstGrep::edit for this source
  applied: HashSet<Vec<Ed>>,
}

impl FileCtx<'_> {
  /// report the ill-formed edits; true if all are well-formed
  fn wf_all(&self, front: &str, edits: &[Ed], case: &dyn Fn() -> Value) -> bool {
    let mut ok = true;
    for e in edits {
      for p in wf_problems(self.src, e) {
        ok = false;
        let mut c = case();
        c["edit"] = ed_json(e);
        c["source_len"] = json!(self.src.len());
        viol(self.rep, &format!("{front}:edit:{p}"), c);
      }
    }
    ok
  }

  /// file-level clauses: order/disjointness, substitution, preservation, UTF-8
  fn check_file(&mut self, front: &str, edits: &[Ed], must_be_disjoint: bool, case: &dyn Fn() -> Value) {
    if edits.is_empty() || edits.iter().any(|e| !wf_problems(self.src, e).is_empty()) {
      return; // ill-formed edits were reported by wf_all; they cannot be applied
    }
    if must_be_disjoint {
      for w in edits.windows(2) {
        if w[0].0 + w[0].1 > w[1].0 {
          let mut c = case();
          c["edits"] = eds_json(edits);
          viol(self.rep, &format!("{front}:edits-not-ordered-and-disjoint"), c);
          return;
        }
      }
    }
    // overlap-free selection as the statement words it: a later edit that begins inside (or
    // before the end of) an already kept one is not applied
    let mut kept: Vec<Ed> = vec![];
    let mut cur = 0usize;
    for e in edits {
      if e.0 < cur {
        continue;
      }
      cur = e.0 + e.1;
      kept.push(e.clone());
    }
    if kept.len() < edits.len() {
      self.st.p2_overlaps_dropped.fetch_add(1, Relaxed);
    }
    let expected = splice(self.src.as_bytes(), edits);
    if std::str::from_utf8(&expected).is_err() {
      let mut c = case();
      c["edits"] = eds_json(&kept);
      viol(self.rep, &format!("{front}:rewritten-text-not-utf8"), c);
      return;
    }
    if !self.applied.insert(kept.clone()) {
      return;
    }
    let (lang, src) = (self.lang, self.src);
    let real = guarded(Aus(|| {
      let mut g = lang.ast_grep(src);
      for e in kept.iter().rev() {
        let edit = Edit::<String> { position: e.0, deleted_length: e.1, inserted_text: e.2.clone() };
        if g.edit(edit).is_err() {
          return None;
        }
      }
      Some(g.generate())
    }));
    self.st.applied_real.fetch_add(1, Relaxed);
    if !src.is_ascii() {
      self.st.applied_multibyte.fetch_add(1, Relaxed);
    }
    match real {
      Err(msg) => {
        let mut c = case();
        c["edits"] = eds_json(&kept);
        c["panic"] = json!(msg);
        viol(self.rep, &format!("{front}:astgrep-edit:panic:{}", psig(&msg)), c);
      }
      Ok(None) => {
        self.st.parse_errors_on_edit.fetch_add(1, Relaxed);
      }
      Ok(Some(out)) => {
        let del: usize = kept.iter().map(|e| e.1).sum();
        let ins: usize = kept.iter().map(|e| e.2.len()).sum();
        if out.as_bytes() != expected.as_slice() {
          let mut c = case();
          c["edits"] = eds_json(&kept);
          c["expected"] = json!(String::from_utf8_lossy(&expected));
          c["got"] = json!(out);
          viol(self.rep, &format!("{front}:astgrep-edit-result-differs-from-splice"), c);
        } else if out.len() + del != src.len() + ins {
          let mut c = case();
          c["edits"] = eds_json(&kept);
          viol(self.rep, &format!("{front}:length-arithmetic"), c);
        }
      }
    }
  }
}

/// overlap-free matches written from the statement: pre-order, a matched node hides its subtree
fn outermost<'t, M: Matcher<SupportLang>>(n: &Node<'t, D>, m: &M, out: &mut Vec<Node<'t, D>>) {
  if m.match_node(n.clone()).is_some() {
    out.push(n.clone());
    return;
  }
  for c in children_vec(n) {
    outermost(&c, m, out);
  }
}

fn sources(spec: &LangSpec, l: usize) -> Vec<String> {
  let total = gen::count(spec.tokens.len(), l);
  let mut v: Vec<String> = (0..total).map(|i| gen::nth(spec.tokens, l, i)).collect();
  for c in spec.corpus {
    v.push(c.to_string());
    v.push(c.replace('\n', "\r\n"));
  }
  v
}

// ------------------------------------------------------------------------------------------
// part 1: pattern + template

fn part1_source(rep: &Reporter, st: &Stats, samples: &Samp, spec: &LangSpec, src: &str, pats: &[Pat], only_template: Option<&str>) {
  let grep = spec.lang.ast_grep(src);
  let root = grep.root();
  let mut fc = FileCtx { rep, st, lang: spec.lang, src, applied: HashSet::new() };
  for pat in pats {
    st.p1_evals.fetch_add(1, Relaxed);
    let case0 = |tpl: &str| json!({"part": 1, "lang": spec.name, "src": src, "pattern": pat.text, "template": tpl});
    // matching does not depend on the template: a pattern without edits for the first template is
    // not tried with the others
    let first = guarded(Aus(|| root.replace_all(&pat.pattern, TEMPLATES[0]).into_iter().map(to_ed).collect::<Vec<_>>()));
    let first = match first {
      Ok(v) => v,
      Err(msg) => {
        let mut c = case0(TEMPLATES[0]);
        c["panic"] = json!(msg);
        viol(rep, &format!("p1:replace_all:panic:{}", psig(&msg)), c);
        continue;
      }
    };
    if first.is_empty() {
      continue;
    }
    st.p1_with_edits.fetch_add(1, Relaxed);
    let reference = guarded(Aus(|| {
      let mut outer = vec![];
      outermost(&root, &pat.pattern, &mut outer);
      // every node the pattern accepts, by plain recursion (not find_all: its kind pre-filter is
      // another property's subject)
      let mut nodes = vec![];
      all_nodes(&root, &mut nodes);
      let all: Vec<(usize, usize)> = nodes.iter().filter(|n| pat.pattern.match_node((*n).clone()).is_some()).map(|n| (n.range().start, n.range().end)).collect();
      (outer.iter().map(|n| (n.range().start, n.range().end)).collect::<Vec<_>>(), all)
    }));
    let Ok((outer, all)) = reference else { continue };
    for tpl in TEMPLATES {
      if only_template.map(|t| t != *tpl).unwrap_or(false) {
        continue;
      }
      let case = || case0(tpl);
      let edits = if *tpl == TEMPLATES[0] {
        Ok(first.clone())
      } else {
        guarded(Aus(|| root.replace_all(&pat.pattern, *tpl).into_iter().map(to_ed).collect::<Vec<_>>()))
      };
      let edits = match edits {
        Ok(v) => v,
        Err(msg) => {
          let mut c = case();
          c["panic"] = json!(msg);
          viol(rep, &format!("p1:replace_all:panic:{}", psig(&msg)), c);
          continue;
        }
      };
      st.p1_edits.fetch_add(edits.len() as u64, Relaxed);
      if *tpl == "($A)" && pat.text.contains("$A") && edits.len() >= 2 && !src.is_ascii() && edits.iter().all(|e| e.2.len() > 2) {
        samples.p1.offer(|| json!({"part": 1, "lang": spec.name, "src": src, "pattern": pat.text, "template": tpl, "edits": eds_json(&edits)}));
      }
      let wf = fc.wf_all("p1:replace_all", &edits, &case);
      if edits.len() != outer.len() {
        let mut c = case();
        c["edits"] = eds_json(&edits);
        c["outermost_matches"] = json!(outer);
        viol(rep, "p1:replace_all:not-one-edit-per-outermost-match", c);
      } else if wf {
        for (e, m) in edits.iter().zip(&outer) {
          if e.0 != m.0 {
            let mut c = case();
            c["edit"] = ed_json(e);
            c["match"] = json!(m);
            viol(rep, "p1:replace_all:edit-does-not-start-at-match", c);
          } else if e.0 + e.1 > m.1 {
            let mut c = case();
            c["edit"] = ed_json(e);
            c["match"] = json!(m);
            viol(rep, "p1:replace_all:edit-exceeds-match", c);
          }
        }
      }
      fc.check_file("p1:replace_all", &edits, true, &case);
      // Node::replace: one edit, inside one of the matches
      let one = guarded(Aus(|| root.replace(&pat.pattern, *tpl).map(to_ed)));
      match one {
        Err(msg) => {
          let mut c = case();
          c["panic"] = json!(msg);
          viol(rep, &format!("p1:replace:panic:{}", psig(&msg)), c);
        }
        Ok(None) => {}
        Ok(Some(e)) => {
          st.p1_replace.fetch_add(1, Relaxed);
          let one = [e];
          if fc.wf_all("p1:replace", &one, &case) {
            let e = &one[0];
            if !all.iter().any(|m| e.0 == m.0 && e.0 + e.1 <= m.1) {
              let mut c = case();
              c["edit"] = ed_json(e);
              c["matches"] = json!(all);
              viol(rep, "p1:replace:edit-not-inside-a-match", c);
            }
            fc.check_file("p1:replace", &one, true, &case);
          }
        }
      }
    }
  }
}

// ------------------------------------------------------------------------------------------
// part 2: rule + fix (string / object form with expansions)

enum StopM {
  Neighbor,
  End,
  Rule(Core),
}
struct ExpM {
  rule: Core,
  stop: StopM,
}
#[derive(Default)]
struct FixM {
  start: Option<ExpM>,
  end: Option<ExpM>,
}

fn load_core(v: &Value, lang: SupportLang) -> Result<Core, String> {
  let text = v.to_string();
  match guarded(move || {
    let ser: SerializableRuleCore = from_str(&text).map_err(|e| format!("yaml: {e}"))?;
    ser.get_matcher(DeserializeEnv::new(lang)).map_err(|e| format!("{e:?}"))
  }) {
    Ok(r) => r,
    Err(p) => Err(format!("PANIC:{p}")),
  }
}

fn load_config(v: &Value) -> Result<RuleConfig<SupportLang>, String> {
  let text = v.to_string();
  match guarded(move || {
    let globals = GlobalRules::default();
    from_yaml_string::<SupportLang>(&text, &globals).map_err(|e| format!("{e:?}")).and_then(|mut v| v.pop().ok_or("no rule".to_string()))
  }) {
    Ok(r) => r,
    Err(p) => Err(format!("PANIC:{p}")),
  }
}

/// the model of one expansion is read off the fix JSON itself: the object without `stopBy`
/// is the sibling rule
fn exp_model(v: &Value, lang: SupportLang) -> Result<Option<ExpM>, String> {
  if v.is_null() {
    return Ok(None);
  }
  let mut atom = v.clone();
  let stop = atom.as_object_mut().ok_or("expansion is not an object")?.remove("stopBy");
  let stop = match stop {
    None => StopM::Neighbor,
    Some(Value::String(s)) if s == "neighbor" => StopM::Neighbor,
    Some(Value::String(s)) if s == "end" => StopM::End,
    Some(r) => StopM::Rule(load_core(&json!({ "rule": r }), lang)?),
  };
  Ok(Some(ExpM { rule: load_core(&json!({ "rule": atom }), lang)?, stop }))
}

fn fix_model(fix: &Value, lang: SupportLang) -> Result<FixM, String> {
  if fix.is_string() {
    return Ok(FixM::default());
  }
  Ok(FixM { start: exp_model(&fix["expandStart"], lang)?, end: exp_model(&fix["expandEnd"], lang)? })
}

/// the sibling an expansion selects among `cands` (nearest first)
fn select<'t>(exp: &ExpM, cands: &[Node<'t, D>]) -> Option<Node<'t, D>> {
  for (k, c) in cands.iter().enumerate() {
    let mut last = false;
    match &exp.stop {
      StopM::Neighbor => {
        if k >= 1 {
          return None;
        }
      }
      StopM::End => {}
      StopM::Rule(r) => last = r.match_node(c.clone()).is_some(),
    }
    if exp.rule.match_node(c.clone()).is_some() {
      return Some(c.clone());
    }
    if last {
      return None;
    }
  }
  None
}

/// preceding siblings (nearest first) and following siblings of a node; None when the node
/// cannot be located among its parent's children or a zero-width node sits among them
fn sibling_lists<'t>(m: &Node<'t, D>) -> Option<(Vec<Node<'t, D>>, Vec<Node<'t, D>>)> {
  match m.parent() {
    None => Some((vec![], vec![])),
    Some(p) => {
      let ks = children_vec(&p);
      // sibling enumeration next to zero-width (MISSING) nodes is outside what is stated about
      // siblings (C19 restricts its sibling clauses the same way): not judged by the exact model
      if ks.iter().any(|k| k.range().is_empty()) {
        return None;
      }
      let i = ks.iter().position(|k| k.node_id() == m.node_id())?;
      let mut before: Vec<_> = ks[..i].to_vec();
      before.reverse();
      Some((before, ks[i + 1..].to_vec()))
    }
  }
}

/// reference replaced range of a match under a fix model; None = not judged by the exact model
fn ref_range(model: &FixM, m: &Node<D>) -> Option<(usize, usize)> {
  let r = m.range();
  if model.start.is_none() && model.end.is_none() {
    return Some((r.start, r.end));
  }
  let (before, after) = sibling_lists(m)?;
  let s = model.start.as_ref().and_then(|e| select(e, &before)).map(|n| n.range().start).unwrap_or(r.start);
  let e = model.end.as_ref().and_then(|e| select(e, &after)).map(|n| n.range().end).unwrap_or(r.end);
  Some((s, e))
}

/// tree-sitter's cursor-based sibling walk (Node::prev_all / next_all, which the expansions use)
/// disagrees with the parent's child list around this node: other node (a same-range descendant
/// of a sibling) or other kind (an aliased kind is lost). That is the parser library disagreeing
/// with itself (C19's known finding, c05 skips such trees as well): the exact sibling model is
/// not judged there, the case is counted
fn sibling_api_disagrees(m: &Node<D>, before: &[Node<D>], after: &[Node<D>], check_before: bool, check_after: bool) -> bool {
  // decided with tree-sitter's own cursor (the primitive under prev_all / next_all), not through
  // Node::prev_all / next_all themselves: a fault in those must be judged, not skipped
  let key = |x: &Node<D>| (x.node_id(), x.range().start, x.range().end, x.kind_id());
  let ts = m.get_ts_node();
  let Some(p) = ts.parent() else { return false };
  if check_before {
    let mut cur = p.walk();
    cur.goto_first_child_for_byte(ts.start_byte());
    let mut a = vec![];
    while cur.goto_previous_sibling() && a.len() < 1000 {
      let x = cur.node();
      a.push((x.id() as usize, x.start_byte() as usize, x.end_byte() as usize, x.kind_id()));
    }
    let b: Vec<_> = before.iter().map(key).collect();
    if a != b {
      return true;
    }
  }
  if check_after {
    let mut cur = p.walk();
    cur.goto_first_child_for_byte(ts.start_byte());
    if cur.node().id() != ts.id() {
      return true;
    }
    let mut a = vec![];
    while cur.goto_next_sibling() && a.len() < 1000 {
      let x = cur.node();
      a.push((x.id() as usize, x.start_byte() as usize, x.end_byte() as usize, x.kind_id()));
    }
    let b: Vec<_> = after.iter().map(key).collect();
    if a != b {
      return true;
    }
  }
  false
}

struct Cfg2 {
  json: Value,
  cfg: RuleConfig<SupportLang>,
  fixer: Fixer<SupportLang>,
  model: FixM,
  expands: bool,
}

fn load_cfg2(json: &Value, lang: SupportLang) -> Result<Cfg2, String> {
  let cfg = load_config(json)?;
  let fixer = match guarded(Aus(|| cfg.get_fixer())) {
    Ok(Ok(Some(f))) => f,
    Ok(Ok(None)) => return Err("no fixer".into()),
    Ok(Err(e)) => return Err(format!("{e:?}")),
    Err(p) => return Err(format!("PANIC:{p}")),
  };
  let model = fix_model(&json["fix"], lang)?;
  let expands = model.start.is_some() || model.end.is_some();
  Ok(Cfg2 { json: json.clone(), cfg, fixer, model, expands })
}

/// language-dependent atoms, computed from the trees themselves: the two most frequent named
/// kinds among nodes that have a sibling, and the separator used by `regex` expansions
struct Atoms {
  k1: String,
  k2: String,
  sep: String,
  /// up to 10 most frequent such kinds: `{pattern: $A, any: [{kind: ..}, ..]}` is the
  /// "any of these nodes" rule (a rule file must name its kinds)
  kinds: Vec<String>,
}

impl Atoms {
  fn any_node_rule(&self) -> Value {
    json!({"pattern": "$A", "any": self.kinds.iter().map(|k| json!({ "kind": k })).collect::<Vec<_>>()})
  }
}

fn atoms(spec: &LangSpec) -> Atoms {
  let mut freq: BTreeMap<String, usize> = BTreeMap::new();
  for src in sources(spec, 2) {
    let g = spec.lang.ast_grep(&src);
    let mut nodes = vec![];
    all_nodes(&g.root(), &mut nodes);
    for n in &nodes {
      if !n.is_named() || n.kind() == "ERROR" || is_missing(n) {
        continue;
      }
      let Some(p) = n.parent() else { continue };
      if children_vec(&p).len() >= 2 {
        *freq.entry(n.kind().to_string()).or_default() += 1;
      }
    }
  }
  let mut v: Vec<(usize, String)> = freq.into_iter().map(|(k, c)| (c, k)).collect();
  v.sort_by(|a, b| b.0.cmp(&a.0).then(a.1.cmp(&b.1)));
  if v.len() < 2 {
    machinery(&format!("{}: fewer than two sibling kinds", spec.name));
  }
  let sep = [",", ";", ">", ":"].iter().find(|s| spec.tokens.contains(s)).unwrap_or(&",").to_string();
  Atoms { k1: v[0].1.clone(), k2: v[1].1.clone(), sep, kinds: v.iter().take(10).map(|x| x.1.clone()).collect() }
}

fn expansion_variants(a: &Atoms) -> Vec<Value> {
  vec![
    Value::Null,
    json!({"regex": a.sep}),
    json!({"regex": a.sep, "stopBy": "end"}),
    json!({"kind": a.k1}),
    json!({"kind": a.k1, "stopBy": "end"}),
    json!({"regex": a.sep, "stopBy": {"kind": a.k1}}),
    json!({"kind": a.k2, "stopBy": {"regex": a.sep}}),
  ]
}

fn part2_configs(spec: &LangSpec, a: &Atoms) -> Vec<Value> {
  let rules = [
    (a.any_node_rule(), "[$A]"),
    (json!({"pattern": "$A", "kind": a.k1}), "$A$A"),
    (json!({"kind": a.k2}), "é"),
  ];
  let xs = expansion_variants(a);
  let mut out = vec![];
  for (rule, tpl) in &rules {
    let base = json!({"id": "c06", "language": spec.name, "rule": rule});
    let mut c = base.clone();
    c["fix"] = json!(tpl);
    out.push(c);
    for s in &xs {
      for e in &xs {
        let mut fix = json!({ "template": tpl });
        if !s.is_null() {
          fix["expandStart"] = s.clone();
        }
        if !e.is_null() {
          fix["expandEnd"] = e.clone();
        }
        let mut c = base.clone();
        c["fix"] = fix;
        out.push(c);
      }
    }
  }
  out
}

enum Verdict {
  Ok,
  Widened,
  /// zero-width node among the siblings: bounds only
  BoundsOnly,
  /// sibling iterator disagrees with the child list: bounds only
  SiblingApi,
  Bad(String),
}

/// one edit of a rule+fix front end against the statement. `strict`: the front end is the one
/// that is stated to honour expansions (make_edit, what the CLI does); otherwise an edit that
/// ignores the expansions (the match itself) is accepted as well (C08 compares front ends)
fn judge(cfg: &Cfg2, m: &Node<D>, e: &Ed, strict: bool) -> Verdict {
  let (ms, me) = (m.range().start, m.range().end);
  let (p, q) = (e.0, e.0 + e.1);
  if !cfg.expands {
    return if p != ms {
      Verdict::Bad("no-expansion:edit-does-not-start-at-match".into())
    } else if q > me {
      Verdict::Bad("no-expansion:edit-exceeds-match".into())
    } else {
      Verdict::Ok
    };
  }
  if !strict && p == ms && q <= me {
    return Verdict::Ok;
  }
  if p > ms || q < me {
    return Verdict::Bad("expansion:range-does-not-contain-match".into());
  }
  if cfg.model.start.is_none() && p != ms {
    return Verdict::Bad("expansion:start-moved-without-expandStart".into());
  }
  if cfg.model.end.is_none() && q != me {
    return Verdict::Bad("expansion:end-moved-without-expandEnd".into());
  }
  let Some((rs, re)) = ref_range(&cfg.model, m) else {
    return Verdict::BoundsOnly;
  };
  if let Some((before, after)) = sibling_lists(m) {
    if sibling_api_disagrees(m, &before, &after, cfg.model.start.is_some(), cfg.model.end.is_some()) {
      return Verdict::SiblingApi;
    }
  }
  if p != rs {
    return Verdict::Bad("expansion:start-differs-from-sibling-model".into());
  }
  if q != re {
    return Verdict::Bad("expansion:end-differs-from-sibling-model".into());
  }
  if (p, q) != (ms, me) {
    Verdict::Widened
  } else {
    Verdict::Ok
  }
}

fn part2_source(rep: &Reporter, st: &Stats, samples: &Samp, spec: &LangSpec, src: &str, cfgs: &[Cfg2]) {
  let grep = spec.lang.ast_grep(src);
  let root = grep.root();
  let mut fc = FileCtx { rep, st, lang: spec.lang, src, applied: HashSet::new() };
  for cfg in cfgs {
    st.p2_evals.fetch_add(1, Relaxed);
    let case = || json!({"part": 2, "lang": spec.name, "src": src, "config": cfg.json});
    let matches = match guarded(Aus(|| root.find_all(&cfg.cfg.matcher).collect::<Vec<_>>())) {
      Ok(m) => m,
      Err(msg) => {
        let mut c = case();
        c["panic"] = json!(msg);
        viol(rep, &format!("p2:find_all:panic:{}", psig(&msg)), c);
        continue;
      }
    };
    if matches.is_empty() {
      continue;
    }
    st.p2_with_matches.fetch_add(1, Relaxed);
    let report = |front: &str, what: &str, e: &Ed, m: &Node<D>| {
      let mut c = case();
      c["edit"] = ed_json(e);
      c["match"] = json!([m.range().start, m.range().end]);
      c["reference_range"] = json!(guarded(Aus(|| ref_range(&cfg.model, m))).ok().flatten());
      // cause first, front end last: one prefix names a cause across the three front ends
      viol(rep, &format!("p2:{what}:{front}"), c);
    };
    // --- the CLI's way: make_edit for every match
    let mut edits = vec![];
    let mut failed = false;
    for m in &matches {
      let r = m.range();
      match guarded(Aus(|| to_ed(m.make_edit(&cfg.cfg.matcher, &cfg.fixer)))) {
        Err(msg) => {
          let mut c = case();
          c["match"] = json!([r.start, r.end]);
          c["panic"] = json!(msg);
          viol(rep, &format!("p2:make_edit:panic:{}", psig(&msg)), c);
          failed = true;
        }
        Ok(e) => edits.push(e),
      }
    }
    if failed {
      continue;
    }
    st.p2_edits.fetch_add(edits.len() as u64, Relaxed);
    if fc.wf_all("p2:make_edit", &edits, &case) {
      for (e, m) in edits.iter().zip(&matches) {
        match guarded(Aus(|| judge(cfg, m.get_node(), e, true))) {
          Err(_) | Ok(Verdict::Ok) => {}
          Ok(Verdict::BoundsOnly) => {
            st.p2_exact_model_not_applicable.fetch_add(1, Relaxed);
          }
          Ok(Verdict::SiblingApi) => {
            st.p2_sibling_api_disagrees.fetch_add(1, Relaxed);
          }
          Ok(Verdict::Widened) => {
            st.p2_edits_widened.fetch_add(1, Relaxed);
            let r = m.range();
            if src.len() >= 5 && src.len() <= 16 && cfg.model.start.is_some() && cfg.model.end.is_some() && e.0 < r.start && e.0 + e.1 > r.end {
              samples.p2.offer(|| json!({"part": 2, "lang": spec.name, "src": src, "fix": cfg.json["fix"], "rule": cfg.json["rule"], "match": [r.start, r.end], "edit": ed_json(e)}));
            }
          }
          Ok(Verdict::Bad(what)) => report("make_edit", &what, e, m.get_node()),
        }
      }
      fc.check_file("p2:make_edit", &edits, false, &case);
    }
    // --- the same fixer asked for its range with a core Pattern as the matcher (a matcher that
    // REPORTS A MATCH LENGTH, which a rule does not): for the rules whose pattern is `$A` every
    // matched node is matched by the pattern `$A` over its whole extent, so the same judgement applies
    if cfg.json["rule"]["pattern"] == json!("$A") {
      if let Ok(pat) = ast_grep_core::Pattern::try_new("$A", spec.lang) {
        let mut pedits = vec![];
        let mut ok = true;
        for m in &matches {
          match guarded(Aus(|| to_ed(m.make_edit(&pat, &cfg.fixer)))) {
            Err(msg) => {
              let mut c = case();
              c["match"] = json!([m.range().start, m.range().end]);
              c["panic"] = json!(msg);
              viol(rep, &format!("p2:make_edit:pattern-matcher:panic:{}", psig(&msg)), c);
              ok = false;
            }
            Ok(e) => pedits.push(e),
          }
        }
        if ok && fc.wf_all("p2:make_edit:pattern-matcher", &pedits, &case) {
          st.p2_front_edits.fetch_add(pedits.len() as u64, Relaxed);
          for (e, m) in pedits.iter().zip(&matches) {
            if let Ok(Verdict::Bad(what)) = guarded(Aus(|| judge(cfg, m.get_node(), e, true))) {
              report("make_edit:pattern-matcher", &what, e, m.get_node());
            }
          }
        }
      }
    }
    // --- the library's replace_all / replace with the same matcher and fixer: each edit is
    // individually well-formed (whether expansions are honoured there is C08's question)
    let outer = {
      let mut o = vec![];
      match guarded(Aus(|| outermost(&root, &cfg.cfg.matcher, &mut o))) {
        Ok(()) => o,
        Err(_) => continue,
      }
    };
    // with an expanding fixer the overlap-free traversal does not by itself keep the EDITS
    // disjoint: that combination gets its own signature
    let ra = if cfg.expands { "p2:replace_all:expanding-fixer" } else { "p2:replace_all" };
    match guarded(Aus(|| root.replace_all(&cfg.cfg.matcher, &cfg.fixer).into_iter().map(to_ed).collect::<Vec<_>>())) {
      Err(msg) => {
        let mut c = case();
        c["panic"] = json!(msg);
        viol(rep, &format!("p2:replace_all:panic:{}", psig(&msg)), c);
      }
      Ok(es) => {
        st.p2_front_edits.fetch_add(es.len() as u64, Relaxed);
        let wf = fc.wf_all("p2:replace_all", &es, &case);
        if !cfg.expands {
          if es.len() != outer.len() {
            let mut c = case();
            c["edits"] = eds_json(&es);
            c["outermost_matches"] = json!(outer.iter().map(|n| (n.range().start, n.range().end)).collect::<Vec<_>>());
            viol(rep, "p2:replace_all:not-one-edit-per-outermost-match", c);
          } else if wf {
            for (e, n) in es.iter().zip(&outer) {
              if let Ok(Verdict::Bad(what)) = guarded(Aus(|| judge(cfg, n, e, false))) {
                report("replace_all", &what, e, n);
              }
            }
          }
        } else if wf {
          // with expansions an edit may swallow later matches (and an implementation may then
          // leave those without edit): every edit must be acceptable for one of the outermost
          // matches, taken in order
          let mut k = 0;
          for e in &es {
            let from = k;
            let mut found = false;
            let mut first_bad: Option<(String, usize)> = None;
            while k < outer.len() {
              let n = &outer[k];
              k += 1;
              match guarded(Aus(|| judge(cfg, n, e, false))) {
                Ok(Verdict::Bad(w)) => {
                  if first_bad.is_none() {
                    first_bad = Some((w, k - 1));
                  }
                }
                _ => {
                  found = true;
                  break;
                }
              }
            }
            if !found {
              match first_bad {
                Some((w, i)) => report("replace_all", &w, e, &outer[i]),
                None => {
                  let mut c = case();
                  c["edit"] = ed_json(e);
                  c["matches_already_paired"] = json!(from);
                  viol(rep, "p2:replace_all:expanding-fixer:edit-without-a-match", c);
                }
              }
              break;
            }
          }
        }
        if wf {
          fc.check_file(ra, &es, true, &case);
        }
      }
    }
    match guarded(Aus(|| root.replace(&cfg.cfg.matcher, &cfg.fixer).map(to_ed))) {
      Err(msg) => {
        let mut c = case();
        c["panic"] = json!(msg);
        viol(rep, &format!("p2:replace:panic:{}", psig(&msg)), c);
      }
      Ok(None) => {}
      Ok(Some(e)) => {
        st.p2_front_edits.fetch_add(1, Relaxed);
        let one = [e];
        if fc.wf_all("p2:replace", &one, &case) {
          // the edit belongs to one of the matches: judged against the match it starts in or
          // was expanded from (any match for which it is acceptable)
          let mut verdicts = vec![];
          for m in &matches {
            match guarded(Aus(|| judge(cfg, m.get_node(), &one[0], false))) {
              Ok(Verdict::Bad(w)) => verdicts.push(Some((w, m.get_node().clone()))),
              _ => {
                verdicts.clear();
                verdicts.push(None);
                break;
              }
            }
          }
          if let Some(Some((what, n))) = verdicts.first() {
            // acceptable for no match: report against the first match (replace = first match)
            report("replace", what, &one[0], n);
          }
          fc.check_file("p2:replace", &one, true, &case);
        }
      }
    }
  }
}

// ------------------------------------------------------------------------------------------
// part 3: rewrite transformation

/// identical rule/rewriter texts get one number, so that per-source work on them is shared
fn intern(text: String) -> usize {
  static TABLE: std::sync::Mutex<Option<std::collections::HashMap<String, usize>>> = std::sync::Mutex::new(None);
  let mut g = TABLE.lock().unwrap();
  let t = g.get_or_insert_with(Default::default);
  let n = t.len();
  *t.entry(text).or_insert(n)
}

struct Cfg3 {
  outer_id: usize,
  rw_ids: Vec<usize>,
  json: Value,
  cfg: RuleConfig<SupportLang>,
  fixer: Fixer<SupportLang>,
  /// the same outer rule without transform (used to blame a panic)
  plain: RuleConfig<SupportLang>,
  multi: bool,
  rws: Vec<Core>,
  join_by: Option<String>,
}

fn load_cfg3(json: &Value, lang: SupportLang) -> Result<Cfg3, String> {
  let cfg = load_config(json)?;
  let fixer = match guarded(Aus(|| cfg.get_fixer())) {
    Ok(Ok(Some(f))) => f,
    other => return Err(format!("fixer: {:?}", other.map(|r| r.map(|o| o.is_some()).map_err(|e| format!("{e:?}"))))),
  };
  let plain = load_config(&json!({"id": "plain", "language": json["language"], "rule": json["rule"]}))?;
  let rw = &json["transform"]["B"]["rewrite"];
  let multi = rw["source"].as_str().unwrap_or("").starts_with("$$$");
  let mut rws = vec![];
  let mut rw_ids = vec![];
  for id in rw["rewriters"].as_array().ok_or("rewriters")? {
    let def = json["rewriters"].as_array().ok_or("rewriters list")?.iter().find(|r| r["id"] == *id).ok_or("rewriter id")?;
    let core = load_core(&json!({"rule": def["rule"], "fix": def["fix"]}), lang)?;
    if core.fixer.is_none() {
      return Err("rewriter without fix".into());
    }
    rws.push(core);
    rw_ids.push(intern(format!("{}|{}|{}", json["language"], def["rule"], def["fix"])));
  }
  let outer_id = intern(format!("{}|{}", json["language"], json["rule"]));
  Ok(Cfg3 { outer_id, rw_ids, json: json.clone(), cfg, fixer, plain, multi, rws, join_by: rw["joinBy"].as_str().map(|s| s.to_string()) })
}

fn rewriter_defs(a: &Atoms) -> Vec<(Value, Value)> {
  let rules = [
    (json!({"kind": a.k1, "pattern": "$X"}), true),
    (json!({"kind": a.k2, "pattern": "$X"}), true),
    (json!({"pattern": "$X"}), true),
    (json!({"regex": a.sep}), false),
  ];
  let mut out = vec![];
  for (rule, has_x) in &rules {
    let t = if *has_x { "[$X]" } else { "[]" };
    let fixes = [
      json!(t),
      json!({"template": t, "expandEnd": {"regex": a.sep}}),
      json!({"template": "é", "expandStart": {"regex": a.sep}}),
      json!(""),
      json!({"template": "", "expandEnd": {"regex": a.sep, "stopBy": "end"}}),
      json!({"template": t, "expandStart": {"kind": a.k1, "stopBy": "end"}, "expandEnd": {"kind": a.k1, "stopBy": "end"}}),
    ];
    for f in fixes {
      out.push((rule.clone(), f));
    }
  }
  out
}

/// rewriter lists: every single rewriter; every ordered pair of rewriters with different rules
/// whose fixes are among the first three fix forms
fn rewriter_lists(n_rules: usize, n_fixes: usize) -> Vec<Vec<usize>> {
  let mut out: Vec<Vec<usize>> = (0..n_rules * n_fixes).map(|i| vec![i]).collect();
  for r1 in 0..n_rules {
    for f1 in 0..3 {
      for r2 in 0..n_rules {
        for f2 in 0..3 {
          if r1 != r2 {
            out.push(vec![r1 * n_fixes + f1, r2 * n_fixes + f2]);
          }
        }
      }
    }
  }
  out
}

fn part3_configs(spec: &LangSpec, a: &Atoms, multi_patterns: &[String]) -> Vec<Value> {
  let defs = rewriter_defs(a);
  let lists = rewriter_lists(4, 6);
  let mut outers = vec![(a.any_node_rule(), "$A")];
  for p in multi_patterns {
    outers.push((json!({ "pattern": p }), "$$$A"));
  }
  let mut out = vec![];
  for (rule, source) in &outers {
    for list in &lists {
      for join in [None, Some("+")] {
        let ids: Vec<String> = (0..list.len()).map(|i| format!("r{i}")).collect();
        let mut rewrite = json!({"source": source, "rewriters": ids});
        if let Some(j) = join {
          rewrite["joinBy"] = json!(j);
        }
        let rewriters: Vec<Value> = list.iter().enumerate().map(|(i, &d)| json!({"id": format!("r{i}"), "rule": defs[d].0, "fix": defs[d].1})).collect();
        out.push(json!({"id": "c06", "language": spec.name, "rule": rule, "transform": {"B": {"rewrite": rewrite}}, "rewriters": rewriters, "fix": "<$B>"}));
      }
    }
  }
  out
}

/// accepted patterns with exactly one `$$$A` and no other hole, ranked by the number of
/// non-empty captures over the given sources
fn multi_patterns(spec: &LangSpec, pats: &[Pat], srcs: &[String], m: usize) -> Vec<String> {
  let cands: Vec<&Pat> = pats
    .iter()
    .filter(|p| {
      let toks: Vec<&str> = p.text.split(' ').collect();
      toks.iter().filter(|t| **t == "$$$A").count() == 1 && toks.iter().filter(|t| t.starts_with('$')).count() == 1
    })
    // a rule file must have potential kinds: patterns the rule loader refuses are left out
    .filter(|p| load_config(&json!({"id": "probe", "language": spec.name, "rule": {"pattern": p.text}})).is_ok())
    .collect();
  let mut scored: Vec<(usize, String)> = cands
    .par_iter()
    .map(|p| {
      let mut n = 0;
      for s in srcs {
        let g = spec.lang.ast_grep(s);
        let cnt = guarded(Aus(|| g.root().find_all(&p.pattern).filter(|m| !m.get_env().get_multiple_matches("A").is_empty()).count())).unwrap_or(0);
        n += cnt;
      }
      (n, p.text.clone())
    })
    .filter(|(n, _)| *n > 0)
    .collect();
  scored.sort_by(|a, b| b.0.cmp(&a.0).then(a.1.cmp(&b.1)));
  scored.into_iter().take(m).map(|s| s.1).collect()
}

/// recomputed rewriter edits over the captured nodes (absolute positions). What one rewriter
/// does at one node of this source does not depend on the rest of the configuration: it is
/// computed once per (rewriter, node) and kept in `cache`
fn rewriter_edits(nodes: &[Node<D>], cfg: &Cfg3, cache: &mut HashMap<(usize, usize), Option<Ed>>) -> Vec<Ed> {
  let mut out = vec![];
  for n in nodes {
    let mut all = vec![];
    all_nodes(n, &mut all);
    for d in all {
      for (rw, id) in cfg.rws.iter().zip(&cfg.rw_ids) {
        let key = (*id, d.node_id());
        let e = match cache.get(&key) {
          Some(e) => e.clone(),
          None => {
            let e = rw.match_node(d.clone()).map(|nm| to_ed(nm.make_edit(rw, rw.fixer.as_ref().expect("checked at load"))));
            cache.insert(key, e.clone());
            e
          }
        };
        if let Some(e) = e {
          out.push(e);
          break;
        }
      }
    }
  }
  out
}

fn captured<'t>(env: &ast_grep_core::meta_var::MetaVarEnv<'t, D>, multi: bool) -> Vec<Node<'t, D>> {
  if multi {
    env.get_multiple_matches("A")
  } else {
    env.get_match("A").cloned().into_iter().collect()
  }
}

fn escape_class(edits: &[Ed], start: usize, end: usize) -> &'static str {
  let before = edits.iter().any(|e| e.0 < start);
  let after = edits.iter().any(|e| e.0.saturating_add(e.1) > end);
  match (before, after) {
    (true, true) => "edit-outside-captured-text:before-and-past",
    (true, false) => "edit-outside-captured-text:before",
    (false, true) => "edit-outside-captured-text:past",
    (false, false) => "edits-inside-captured-text",
  }
}

fn strip_blank(b: &[u8]) -> Vec<u8> {
  b.iter().cloned().filter(|c| *c != b' ' && *c != b'\t').collect()
}

fn part3_source(rep: &Reporter, st: &Stats, samples: &Samp, spec: &LangSpec, src: &str, cfgs: &[Cfg3]) {
  let grep = spec.lang.ast_grep(src);
  let root = grep.root();
  let fc = FileCtx { rep, st, lang: spec.lang, src, applied: HashSet::new() };
  let mut plain_cache = HashMap::new();
  let mut rw_cache: HashMap<(usize, usize), Option<Ed>> = HashMap::new();
  for cfg in cfgs {
    st.p3_evals.fetch_add(1, Relaxed);
    let case = || json!({"part": 3, "lang": spec.name, "src": src, "config": cfg.json});
    // the transform does not take part in matching: the matches are those of the same rule
    // without transform; the rule with transform is then run on each matched node separately so
    // that a panic is blamed on one match
    if !plain_cache.contains_key(&cfg.outer_id) {
      let Ok(ms) = guarded(Aus(|| root.find_all(&cfg.plain.matcher).collect::<Vec<_>>())) else {
        continue;
      };
      plain_cache.insert(cfg.outer_id, ms);
    }
    let plain_matches = plain_cache[&cfg.outer_id].clone();
    for pm in &plain_matches {
      st.p3_matches.fetch_add(1, Relaxed);
      let m = match guarded(Aus(|| cfg.cfg.matcher.match_node(pm.get_node().clone()))) {
        Ok(Some(m)) => m,
        Ok(None) => continue,
        Err(msg) => {
          let at = last_panic_loc();
          let nodes = captured(pm.get_env(), cfg.multi);
          let mut class = "edits-not-recomputed";
          let mut detail = json!(null);
          if !nodes.is_empty() {
            let (s, e) = (nodes[0].range().start, nodes[nodes.len() - 1].range().end);
            if let Ok(es) = guarded(Aus(|| rewriter_edits(&nodes, cfg, &mut rw_cache))) {
              class = escape_class(&es, s, e);
              detail = json!({"captured": [s, e], "rewriter_edits": eds_json(&es)});
            }
          }
          let mut c = case();
          c["match"] = json!([pm.range().start, pm.range().end]);
          c["panic"] = json!(msg);
          c["at"] = json!(at);
          c["blame"] = detail;
          let mode = if cfg.join_by.is_some() { "joinBy" } else { "in-place" };
          viol(rep, &format!("p3:rewrite:panic:{class}:{mode}:{}", psig(&msg)), c);
          continue;
        }
      };
      let env = m.get_env();
      let nodes = captured(env, cfg.multi);
      let got = env.get_transformed("B").cloned();
      // the outer edit that uses the transformed variable
      if let Ok(e) = guarded(Aus(|| to_ed(m.make_edit(&cfg.cfg.matcher, &cfg.fixer)))) {
        let one = [e];
        if fc.wf_all("p3:outer-make_edit", &one, &case) && (one[0].0 != m.range().start || one[0].0 + one[0].1 > m.range().end) {
          let mut c = case();
          c["edit"] = ed_json(&one[0]);
          viol(rep, "p3:outer-make_edit:edit-not-inside-match", c);
        }
      } else {
        viol(rep, "p3:outer-make_edit:panic", case());
      }
      if nodes.is_empty() {
        st.p3_empty_capture.fetch_add(1, Relaxed);
        continue;
      }
      let (start, end) = (nodes[0].range().start, nodes[nodes.len() - 1].range().end);
      if end < start || end > src.len() {
        continue;
      }
      let edits = match guarded(Aus(|| rewriter_edits(&nodes, cfg, &mut rw_cache))) {
        Ok(e) => e,
        Err(msg) => {
          let mut c = case();
          c["panic"] = json!(msg);
          viol(rep, &format!("p3:standalone-rewriter:panic:{}", psig(&msg)), c);
          continue;
        }
      };
      st.p3_rewriter_edits.fetch_add(edits.len() as u64, Relaxed);
      if !fc.wf_all("p3:rewriter-edit", &edits, &case) {
        continue;
      }
      if escape_class(&edits, start, end) != "edits-inside-captured-text" {
        st.p3_escaping_not_judged.fetch_add(1, Relaxed);
        continue;
      }
      let slice = &src.as_bytes()[start..end];
      let rel: Vec<Ed> = edits.iter().map(|e| (e.0 - start, e.1, e.2.clone())).collect();
      let mut kept: Vec<&Ed> = vec![];
      let mut cur = 0;
      for e in &rel {
        if e.0 < cur {
          continue;
        }
        cur = e.0 + e.1;
        kept.push(e);
      }
      let expected: Vec<u8> = match &cfg.join_by {
        None => splice(slice, &rel),
        Some(j) => kept.iter().map(|e| e.2.clone()).collect::<Vec<_>>().join(j.as_bytes()),
      };
      if !kept.is_empty() {
        st.p3_rewritten.fetch_add(1, Relaxed);
      }
      if kept.len() < rel.len() {
        st.p3_with_dropped_overlap.fetch_add(1, Relaxed);
      }
      let mode = if cfg.join_by.is_some() { "joinBy" } else { "in-place" };
      let n_rw = cfg.rws.len();
      let Some(got) = got else {
        let mut c = case();
        c["match"] = json!([m.range().start, m.range().end]);
        viol(rep, &format!("p3:rewrite:{mode}:transformed-variable-missing"), c);
        continue;
      };
      // the stored value of a multi-line result is re-indented relative to the line the
      // captured text starts on (C07's subject): such results are compared modulo blanks
      let multiline = expected.contains(&b'\n');
      let same = if multiline { strip_blank(&got) == strip_blank(&expected) } else { got == expected };
      if multiline {
        st.p3_judged_modulo_indent.fetch_add(1, Relaxed);
      } else {
        st.p3_judged_exact.fetch_add(1, Relaxed);
      }
      if !same {
        let mut c = case();
        c["match"] = json!([m.range().start, m.range().end]);
        c["captured"] = json!([start, end]);
        c["rewriter_edits"] = eds_json(&edits);
        c["expected"] = json!(String::from_utf8_lossy(&expected));
        c["got"] = json!(String::from_utf8_lossy(&got));
        let what = if kept.len() < rel.len() { "with-overlapping-edits" } else { "disjoint-edits" };
        viol(rep, &format!("p3:rewrite:{mode}:{n_rw}-rewriters:{what}:transformed-differs-from-spliced-capture"), c);
      } else if kept.len() >= 2 && kept.len() < rel.len() && src.len() >= 5 && src.len() <= 13 && n_rw == 2 {
        samples.p3.offer(|| json!({"part": 3, "lang": spec.name, "src": src, "outer": cfg.json["rule"], "rewriters": cfg.json["rewriters"], "joinBy": cfg.join_by, "captured": [start, end], "rewriter_edits": eds_json(&edits), "transformed": String::from_utf8_lossy(&got)}));
      }
    }
  }
}

// ------------------------------------------------------------------------------------------

fn replay(rep: &Reporter, path: &std::path::Path) -> ! {
  let text = std::fs::read_to_string(path).unwrap_or_else(|e| machinery(&format!("cannot read replay: {e}")));
  let v: Value = serde_json::from_str(&text).unwrap_or_else(|e| machinery(&format!("replay does not parse: {e}")));
  let case = &v["case"];
  let spec = spec_by_name(case["lang"].as_str().unwrap_or("")).unwrap_or_else(|| machinery("replay: unknown lang"));
  let src = case["src"].as_str().unwrap_or_else(|| machinery("replay: no src"));
  let st = Stats::default();
  let samples = Samp::new(0);
  REPLAY_VERBOSE.store(true, Relaxed);
  println!("replaying sig={}\n  lang={} src={}\n  program={}", v["sig"], case["lang"], case["src"], if case["part"] == 1 { json!({"pattern": case["pattern"], "template": case["template"]}) } else { case["config"].clone() });
  match case["part"].as_u64() {
    Some(1) => {
      let text = case["pattern"].as_str().unwrap_or_else(|| machinery("replay: no pattern")).to_string();
      let lang = spec.lang;
      let t2 = text.clone();
      match guarded(move || ast_grep_core::Pattern::try_new(&t2, lang)) {
        Ok(Ok(pattern)) => part1_source(rep, &st, &samples, spec, src, &[Pat { text, pattern }], case["template"].as_str()),
        other => machinery(&format!("replay: pattern not accepted: {:?}", other.map(|r| r.is_ok()))),
      }
    }
    Some(2) => {
      let cfg = load_cfg2(&case["config"], spec.lang).unwrap_or_else(|e| machinery(&format!("replay: config rejected: {e}")));
      part2_source(rep, &st, &samples, spec, src, &[cfg]);
    }
    Some(3) => {
      let cfg = load_cfg3(&case["config"], spec.lang).unwrap_or_else(|e| machinery(&format!("replay: config rejected: {e}")));
      part3_source(rep, &st, &samples, spec, src, &[cfg]);
    }
    _ => machinery("replay: unknown part"),
  }
  let n = rep.violation_count();
  println!("expected: no violation of C06 on this case; observed: {n} violation(s)");
  if n > 0 {
    eprintln!("(run the tier for the grouped report; the case above is re-checked in full)");
  }
  std::process::exit(if n > 0 { 1 } else { 0 })
}

fn main() {
  let args = Args::parse();
  quiet_panics();
  let rep = Reporter::new("C06", args.clone());
  if let Some(p) = &args.replay {
    replay(&rep, p);
  }
  let st = Stats::default();
  let samples = Samp::new(3);
  let thorough = args.thorough();
  let only: Option<&str> = args.extra.iter().position(|a| a == "--lang").and_then(|i| args.extra.get(i + 1)).map(|s| s.as_str());
  let parts: Vec<u64> = args.extra.iter().position(|a| a == "--parts").and_then(|i| args.extra.get(i + 1)).map(|s| s.chars().filter_map(|c| c.to_digit(10)).map(|d| d as u64).collect()).unwrap_or(vec![1, 2, 3]);
  let mut per_lang = vec![];
  let mut timing = vec![];
  for spec in SPECS {
    if only.map(|o| o != spec.name).unwrap_or(false) {
      continue;
    }
    // bounds: (L for part 1, L for parts 2 and 3, number of `$$$A` outer patterns)
    let (l1, l23, m_multi) = match (thorough, spec.deep) {
      (false, true) => (3, 3, 2),
      (false, false) => (2, 2, 1),
      (true, true) => (4, 4, 2),
      (true, false) => (3, 3, 3),
    };
    let t0 = rep.elapsed();
    let (pats, generated) = accepted_patterns(spec, 7, 3, |text, msg| {
      viol(&rep, &format!("pattern-new:panic:{}", psig(&msg)), json!({"lang": spec.name, "pattern": text, "panic": msg}))
    });
    let a = atoms(spec);
    let srcs1 = sources(spec, l1);
    let srcs23 = sources(spec, l23);
    let before = (st.p1_edits.load(Relaxed), st.p2_edits.load(Relaxed), st.p3_matches.load(Relaxed));
    // ---- part 1
    if parts.contains(&1) {
      srcs1.par_iter().for_each(|src| part1_source(&rep, &st, &samples, spec, src, &pats, None));
    }
    let t1 = rep.elapsed();
    // ---- part 2
    let c2: Vec<Cfg2> = if parts.contains(&2) {
      part2_configs(spec, &a)
        .par_iter()
        .map(|j| load_cfg2(j, spec.lang).unwrap_or_else(|e| machinery(&format!("part 2 config rejected: {j}: {e}"))))
        .collect()
    } else {
      vec![]
    };
    srcs23.par_iter().for_each(|src| part2_source(&rep, &st, &samples, spec, src, &c2));
    let t2 = rep.elapsed();
    // ---- part 3
    let (c3, multis): (Vec<Cfg3>, Vec<String>) = if parts.contains(&3) {
      let multis = multi_patterns(spec, &pats, &sources(spec, l23.min(3)), m_multi);
      let c = part3_configs(spec, &a, &multis)
        .par_iter()
        .map(|j| load_cfg3(j, spec.lang).unwrap_or_else(|e| machinery(&format!("part 3 config rejected: {j}: {e}"))))
        .collect();
      (c, multis)
    } else {
      (vec![], vec![])
    };
    srcs23.par_iter().for_each(|src| part3_source(&rep, &st, &samples, spec, src, &c3));
    let t3 = rep.elapsed();
    timing.push(json!({"lang": spec.name, "part1_s": t1 - t0, "part2_s": t2 - t1, "part3_s": t3 - t2}));
    per_lang.push(json!({
      "lang": spec.name, "L_part1": l1, "L_parts23": l23,
      "sources_part1": srcs1.len(), "sources_parts23": srcs23.len(),
      "pattern_strings_generated": generated, "patterns_accepted": pats.len(),
      "kind1": a.k1, "kind2": a.k2, "separator_regex": a.sep,
      "part2_configs": c2.len(), "part3_configs": c3.len(), "part3_multi_patterns": multis,
      "part1_edits": st.p1_edits.load(Relaxed) - before.0,
      "part2_make_edit_edits": st.p2_edits.load(Relaxed) - before.1,
      "part3_outer_matches": st.p3_matches.load(Relaxed) - before.2,
    }));
  }
  let g = |a: &AtomicU64| a.load(Relaxed);
  let cov = json!({
    "evaluations": g(&st.p1_evals) + g(&st.p2_evals) + g(&st.p3_evals),
    "distinct_nontrivial": g(&st.p1_with_edits) + g(&st.p2_with_matches) + g(&st.p3_rewritten),
    "rule": "an evaluation is one (source, pattern) pair of part 1 (x 6 templates when it yields edits), one (source, rule+fix config) pair of part 2, one (source, rewrite config) pair of part 3. Sources: every token string <= L over the language's token table + corpus + CRLF corpus (L per language below). Part 1 patterns: every string <= 3 tokens over (first 7 source tokens + $A $B $_ $$A $$$ $$$A) accepted by Pattern::try_new; templates x, $A, ($A), $$$A, empty, é$B. Part 2 configs: 3 rules ({pattern: $A}, {pattern: $A, kind: K1}, {kind: K2}; for the first two the fixer is also driven with the core Pattern `$A` as matcher, which reports a match length) x (string fix + object fix with every pair of 7 expandStart x 7 expandEnd variants: absent, regex SEP, regex SEP stopBy end, kind K1, kind K1 stopBy end, regex SEP stopBy {kind K1}, kind K2 stopBy {regex SEP}). Part 3 configs: outer {pattern: $A} (source $A) and the listed `$$$A` patterns (source $$$A) x rewriter lists (24 single rewriters = 4 rules x 6 fixes; 108 ordered pairs with different rules) x joinBy {absent, +}. K1/K2 = the two most frequent named kinds among nodes with a sibling in the trees of the L<=2 sources. distinct_nontrivial = (source, pattern) pairs of part 1 that produced at least one edit + (source, config) pairs of part 2 with at least one match + part 3 outer matches whose transformed string was judged and contains at least one rewriter replacement (each is a distinct (source, program[, match]) triple)",
    "samples": samples.take(),
    "exhaustive": true,
    "part1": {"pairs": g(&st.p1_evals), "pairs_with_edits": g(&st.p1_with_edits), "replace_all_edits_checked": g(&st.p1_edits), "replace_edits_checked": g(&st.p1_replace)},
    "part2": {"pairs": g(&st.p2_evals), "pairs_with_matches": g(&st.p2_with_matches), "make_edit_edits_checked": g(&st.p2_edits), "edits_widened_by_an_expansion": g(&st.p2_edits_widened), "expansion_edits_next_to_zero_width_siblings_judged_by_bounds_only": g(&st.p2_exact_model_not_applicable), "expansion_edits_where_sibling_iterator_disagrees_with_child_list_judged_by_bounds_only": g(&st.p2_sibling_api_disagrees), "edit_lists_with_dropped_overlaps": g(&st.p2_overlaps_dropped), "replace_all_and_replace_edits_checked": g(&st.p2_front_edits)},
    "part3": {"pairs": g(&st.p3_evals), "outer_matches": g(&st.p3_matches), "judged_exact": g(&st.p3_judged_exact), "judged_modulo_blanks_multiline": g(&st.p3_judged_modulo_indent), "judged_with_a_replacement": g(&st.p3_rewritten), "judged_with_dropped_overlapping_rewriter_edit": g(&st.p3_with_dropped_overlap), "not_judged_rewriter_edit_leaves_captured_text": g(&st.p3_escaping_not_judged), "empty_capture": g(&st.p3_empty_capture), "recomputed_rewriter_edits": g(&st.p3_rewriter_edits)},
    "edit_lists_applied_with_AstGrep_edit": g(&st.applied_real),
    "of_which_on_non_ascii_sources": g(&st.applied_multibyte),
    "reparse_errors_after_edit_not_judged": g(&st.parse_errors_on_edit),
    "per_language": per_lang,
    "timing": timing,
  });
  rep.finish(
    "exploration",
    cov,
    vec![
      "a pattern that yields no edit for the first template is not tried with the other templates (matching does not depend on the template)".into(),
      "expansion rules are regex/kind atoms that do not refer to meta-variables; whether a sibling satisfies an expansion or stop rule is decided by the real rule matcher on that sibling, the sibling list model (order, stopBy, fallback) is the reference".into(),
      "where Node::prev_all / next_all of the matched node (in a direction that has an expansion) disagree with the parent's child list in node identity, extent or kind (tree-sitter cursor walk vs child list: C19's known finding) the exact sibling model is not applied, only the bounds; counted in part2".into(),
      "next to zero-width (MISSING) siblings the exact sibling model is not applied, only the bounds p <= match.start, p + d >= match.end (counted in part2)".into(),
      "replace_all / replace with a fixer: an edit is accepted if it is the match itself or the expanded range (C08 decides which); with an expanding fixer replace_all edits must pair in order with a subsequence of the outermost matches, without expansions with all of them".into(),
      "the transformed string is read from the match environment; a multi-line result is compared modulo spaces and tabs because the stored value is re-indented (C07)".into(),
      "when a recomputed rewriter edit reaches outside the captured text the statement fixes no result: only the absence of a panic is asserted".into(),
      "the rewriter's own fix output at a node is taken from the same rule loaded stand-alone (its well-formedness is checked like any other edit)".into(),
      "dev profile (overflow checks and debug assertions on), opt-level 1".into(),
    ],
  );
}
