//! C07 — fix templates substitute captured code verbatim and keep relative indentation.
//!
//! Space (all enumerated completely, no sampling):
//!  A. every template string of <= N symbols (N = 5 quick, 6 thorough) over
//!     {`$A`, `$$$B`, `$$A`, `$a`, `$`, `x`, `(`, ` `, `\n`, two spaces, `é`} x a small set of
//!     match sites taken from the layout grid;
//!  B. every layout of the grid x every template of <= K symbols (K = 3 quick, 4 thorough) plus a
//!     hand-written list of multi-line templates;
//!  each through four routes: `TemplateFix::try_new` and the plain `&str` replacer on a `Pattern`
//!  match, the `Fixer` of a rule loaded with `from_yaml_string` (`get_fixer()`), and the `Fixer`
//!  of a rule with `transform` (the template then uses `$T`/`$U`/`$V`, transformed copies of
//!  `$A`/`$A`/`$$$B`);
//!  C. the round-trip law: pattern `$A` / fix `$A` on every node, and pattern P / fix P
//!     (written at column 0) for every cut P (0-2 holes or a trailing `$$$V`) of every
//!     error-free node of token-string sources, the corpus and part of the layout grid, in
//!     JavaScript, Python and Rust; through generate_replacement, Node::replace_all + splice and
//!     AstGrep::replace.
//! Oracle: `ref_scan` + `ref_expand` below (written from the statement, DESIGN A.5); bytes equal.

use ast_grep_config::{from_yaml_string, Fixer, GlobalRules, RuleConfig};
use ast_grep_core::matcher::MatcherExt;
use ast_grep_core::meta_var::MetaVarEnv;
use ast_grep_core::replacer::{Replacer, TemplateFix};
use ast_grep_core::{AstGrep, Language, NodeMatch, Pattern};
use ast_grep_language::SupportLang;
use rayon::prelude::*;
use serde_json::{json, Value};
use std::collections::BTreeSet;
use std::ops::Range;
use std::sync::atomic::{AtomicU64, Ordering};
use vcore::cuts::cuts_of;
use vcore::dump::*;
use vcore::gen;
use vcore::langs::{spec_by_name, LangSpec};
use vcore::report::*;
use vcore::rules::D;

// ---------------------------------------------------------------------------------------------
// reference model (written from the statement)

#[derive(Clone, Debug, PartialEq)]
enum Piece {
  Lit(String),
  /// `off` = byte offset of the first sigil in the template
  Var { sigils: usize, name: String, off: usize },
}

fn is_name_byte(b: u8) -> bool {
  b.is_ascii_uppercase() || b.is_ascii_digit() || b == b'_'
}

/// Template scanner: left to right, at each `$` the longest run of <= 3 sigils followed by a
/// NAME ([A-Z0-9_]+) is a variable; otherwise that `$` is literal text.
fn ref_scan(tpl: &str) -> Vec<Piece> {
  let b = tpl.as_bytes();
  let mut out = vec![];
  let mut i = 0;
  let mut lit_start = 0;
  while i < b.len() {
    if b[i] != b'$' {
      i += 1;
      continue;
    }
    let mut k = 0;
    while k < 3 && i + k < b.len() && b[i + k] == b'$' {
      k += 1;
    }
    let ns = i + k;
    let mut ne = ns;
    while ne < b.len() && is_name_byte(b[ne]) {
      ne += 1;
    }
    if ne > ns {
      if i > lit_start {
        out.push(Piece::Lit(tpl[lit_start..i].to_string()));
      }
      out.push(Piece::Var { sigils: k, name: tpl[ns..ne].to_string(), off: i });
      i = ne;
      lit_start = ne;
    } else {
      i += 1;
    }
  }
  if lit_start < b.len() {
    out.push(Piece::Lit(tpl[lit_start..].to_string()));
  }
  out
}

/// number of leading spaces
fn ind(line: &str) -> usize {
  line.bytes().take_while(|b| *b == b' ').count()
}

fn is_blank(line: &str) -> bool {
  line.bytes().all(|b| b == b' ')
}

/// indentation of the LINE of `text` that contains byte offset `off`
fn line_indent(text: &str, off: usize) -> usize {
  let ls = text[..off].rfind('\n').map(|p| p + 1).unwrap_or(0);
  ind(&text[ls..])
}

fn spaces(n: usize) -> String {
  " ".repeat(n)
}

#[derive(Clone, Copy, Debug, PartialEq)]
enum Func {
  Id,
  Upper,
}

/// a transformed variable of the rule: `name` = Func(text of `source`)
#[derive(Clone, Copy, Debug)]
struct TransDef {
  name: &'static str,
  source: &'static str,
  source_multi: bool,
  func: Func,
}

const NO_TRANS: &[TransDef] = &[];
const TRANS: &[TransDef] = &[
  TransDef { name: "T", source: "A", source_multi: false, func: Func::Id },
  TransDef { name: "U", source: "A", source_multi: false, func: Func::Upper },
  TransDef { name: "V", source: "B", source_multi: true, func: Func::Id },
];

/// what the match bound, by byte extent (single: the node; multi: first node start .. last node end)
#[derive(Clone, Debug)]
struct RefEnv<'a> {
  src: &'a str,
  single: Vec<(String, Range<usize>)>,
  multi: Vec<(String, Range<usize>)>,
  trans: &'a [TransDef],
}

impl RefEnv<'_> {
  fn get_single(&self, n: &str) -> Option<Range<usize>> {
    self.single.iter().find(|x| x.0 == n).map(|x| x.1.clone())
  }
  fn get_multi(&self, n: &str) -> Option<Range<usize>> {
    self.multi.iter().find(|x| x.0 == n).map(|x| x.1.clone())
  }
  fn get_trans(&self, n: &str) -> Option<&TransDef> {
    self.trans.iter().find(|x| x.name == n)
  }
}

#[derive(Clone, Copy, Debug, PartialEq)]
enum Verdict {
  /// every clause of the statement applies to every line: bytes must be equal
  Full,
  /// some continuation lines come from insertions the indentation clause does not cover (see
  /// `Expect::loose`): those lines are compared up to their leading spaces, all others exactly
  Partial,
  /// the statement does not fix the meaning of some variable spelling in this template
  /// (`$$$X` for a single capture / `$X` for an ellipsis capture / digit- or `_`-first name):
  /// only "no panic, valid UTF-8"
  Skip,
}

#[derive(Clone, Debug)]
struct Expect {
  text: String,
  verdict: Verdict,
  /// indices of the lines of `text` whose indentation the statement does not fix: the continuation
  /// lines of (a) a capture with a blank or under-indented continuation line (side condition) and
  /// (b) a multi-line capture inserted on a template line after another multi-line insertion, where
  /// "the line the slot sits on" is ambiguous (the no-op law of the round-trip part is not)
  loose: Vec<usize>,
  /// slots that inserted a multi-line snippet
  multiline_slots: usize,
  /// ... of which covered by the indentation clause (their continuation lines are compared exactly)
  judged_multiline_slots: usize,
  unbound_slots: usize,
  /// (a) happened
  side_violation: bool,
  /// (b) happened
  stacked: bool,
}

/// ref_indent for one slot: the slice `range` of src, first line on a source line of indentation
/// c, inserted on a template line of indentation t: continuation lines go from ind to ind - c + t.
/// Returns (text, is multi-line, side condition holds)
fn ref_slot(src: &str, range: Range<usize>, t: usize) -> (String, bool, bool) {
  let text = &src[range.clone()];
  if !text.contains('\n') {
    return (text.to_string(), false, true);
  }
  // a capture starting inside its line's indentation is not in the statement's picture
  let mut side_ok = src.as_bytes().get(range.start) != Some(&b' ');
  let c = line_indent(src, range.start);
  let mut lines = text.split('\n');
  let mut out = lines.next().unwrap().to_string();
  for line in lines {
    out.push('\n');
    let i = ind(line);
    if is_blank(line) || i < c {
      side_ok = false;
      out.push_str(line);
    } else {
      out.push_str(&spaces(i - c + t));
      out.push_str(&line[i..]);
    }
  }
  (out, true, side_ok)
}

fn apply_func(f: Func, s: String) -> String {
  match f {
    Func::Id => s,
    Func::Upper => s.to_uppercase(),
  }
}

fn newlines(s: &str) -> usize {
  s.bytes().filter(|b| *b == b'\n').count()
}

/// ref_template + ref_indent: the whole replacement for a match whose first line sits on a
/// source line of indentation m
fn ref_expand(tpl: &str, pieces: &[Piece], env: &RefEnv, m: usize) -> Expect {
  let mut out = String::new();
  let mut line_no = 0;
  let mut loose = vec![];
  let mut skip = false;
  let (mut multiline_slots, mut judged_multiline_slots, mut unbound_slots) = (0, 0, 0);
  let (mut side_violation, mut stacked) = (false, false);
  // a multi-line insertion has happened on the current template line
  let mut line_broken = false;
  for p in pieces {
    match p {
      Piece::Lit(s) => {
        let k = newlines(s);
        if k > 0 {
          line_broken = false;
          line_no += k;
        }
        out.push_str(s)
      }
      Piece::Var { sigils, name, off } => {
        let first = name.as_bytes()[0];
        if !first.is_ascii_uppercase() {
          skip = true; // digit-/underscore-first names: excluded from the asserted set
        }
        let t = line_indent(tpl, *off);
        let mut func = Func::Id;
        let range = if *sigils == 3 {
          let r = env.get_multi(name);
          if r.is_none() && (env.get_single(name).is_some() || env.get_trans(name).is_some()) {
            skip = true;
          }
          r
        } else if let Some(td) = env.get_trans(name) {
          func = td.func;
          if td.source_multi {
            env.get_multi(td.source)
          } else {
            env.get_single(td.source)
          }
        } else {
          let r = env.get_single(name);
          if r.is_none() && env.get_multi(name).is_some() {
            skip = true;
          }
          r
        };
        match range {
          Some(r) => {
            let (s, multi, side_ok) = ref_slot(env.src, r, t);
            if multi {
              multiline_slots += 1;
              let k = newlines(&s);
              if !side_ok || line_broken {
                loose.extend(line_no + 1..=line_no + k);
                side_violation |= !side_ok;
                stacked |= line_broken;
              } else {
                judged_multiline_slots += 1;
              }
              line_broken = true;
              line_no += k;
            }
            out.push_str(&apply_func(func, s));
          }
          None => unbound_slots += 1,
        }
      }
    }
  }
  // every continuation line of the whole replacement moves by + m
  let text = if m == 0 || line_no == 0 {
    out
  } else {
    let mut lines = out.split('\n');
    let mut t = lines.next().unwrap().to_string();
    for l in lines {
      t.push('\n');
      t.push_str(&spaces(m));
      t.push_str(l);
    }
    t
  };
  let verdict = if skip {
    Verdict::Skip
  } else if loose.is_empty() {
    Verdict::Full
  } else {
    Verdict::Partial
  };
  Expect { text, verdict, loose, multiline_slots, judged_multiline_slots, unbound_slots, side_violation, stacked }
}

/// does the real output conform to the expectation (loose lines up to their leading spaces)?
fn conforms_to(s: &str, exp: &Expect) -> bool {
  if exp.loose.is_empty() {
    return s == exp.text;
  }
  let a: Vec<&str> = s.split('\n').collect();
  let b: Vec<&str> = exp.text.split('\n').collect();
  a.len() == b.len()
    && a.iter().zip(&b).enumerate().all(|(i, (x, y))| if exp.loose.contains(&i) { x[ind(x)..] == y[ind(y)..] } else { x == y })
}

/// text with the leading spaces of every continuation line removed
fn modulo_indent(s: &str) -> String {
  let mut lines = s.split('\n');
  let mut out = lines.next().unwrap().to_string();
  for l in lines {
    out.push('\n');
    out.push_str(&l[ind(l)..]);
  }
  out
}

/// literal fragments + verbatim slices, no indentation handling (used for a precondition only)
fn subst_verbatim(pieces: &[Piece], env: &RefEnv) -> String {
  let mut out = String::new();
  for p in pieces {
    match p {
      Piece::Lit(s) => out.push_str(s),
      Piece::Var { sigils, name, .. } => {
        let r = if *sigils == 3 { env.get_multi(name) } else { env.get_single(name) };
        if let Some(r) = r {
          out.push_str(&env.src[r]);
        }
      }
    }
  }
  out
}

/// bindings of the REAL match, by extent (binding is the matcher's business, not this check's)
fn env_of<'a>(src: &'a str, env: &MetaVarEnv<D>, singles: &[&str], multis: &[&str], trans: &'a [TransDef]) -> RefEnv<'a> {
  let mut single = vec![];
  let mut multi = vec![];
  for s in singles {
    if let Some(n) = env.get_match(s) {
      single.push((s.to_string(), n.range()));
    }
  }
  for s in multis {
    let ns = env.get_multiple_matches(s);
    if let (Some(a), Some(b)) = (ns.first(), ns.last()) {
      multi.push((s.to_string(), a.range().start..b.range().end));
    }
  }
  RefEnv { src, single, multi, trans }
}

// ---------------------------------------------------------------------------------------------
// template alphabet

const SYMS: &[&str] = &["$A", "$$$B", "$$A", "$a", "$", "x", "(", " ", "\n", "  ", "é"];

/// all distinct strings made of <= max symbols
fn templates(max: usize) -> Vec<String> {
  let mut v = vec![String::new()];
  let total = gen::count(SYMS.len(), max);
  for i in 0..total {
    let seq = gen::nth_tokens(SYMS.len(), max, i);
    v.push(seq.iter().map(|&k| SYMS[k]).collect());
  }
  v.sort();
  v.dedup();
  v
}

const HAND: &[&str] = &[
  "c(\n  $A\n)",
  "c(\n    $A,\n  $$$B\n)",
  "g($A,\n  $A)",
  "if (y) {\n  $$$B\n}",
  "if (y) {\n    h($A);\n  $$$B\n} else {\n\n  $A\n}",
  "[$A, $$$B]\n  .m($A)",
  "$A;\n\n$$$B",
  "\n    $$A\n$$$B",
  "/* é */ $A /* 🦀 */\n  é$$$Bé",
  "$A_1 $_A $1 $$$_ $$$B_",
  "$Ab$$$Bc$A1",
  "k($$$B)(\n      $$$B\n)",
];

/// the same template with `$A` read through a transformed copy
fn variants(tpl: &str) -> Vec<String> {
  if !tpl.contains('A') && !tpl.contains("$$$B") {
    return vec![];
  }
  let mut v = vec![];
  if tpl.contains('A') {
    v.push(tpl.replace('A', "T"));
  }
  v.push(tpl.replace("$$$B", "$V").replace('A', "U"));
  v
}

// ---------------------------------------------------------------------------------------------
// layout grid

const BLANK: i32 = 99;

struct Shape {
  lines: &'static [&'static str],
  small: bool,
}

const A_SHAPES: &[Shape] = &[
  Shape { lines: &["a"], small: false },
  Shape { lines: &["é"], small: true },
  Shape { lines: &["'🦀'"], small: false },
  Shape { lines: &["[1, 2]"], small: false },
  Shape { lines: &["[1,", "2]"], small: true },
  Shape { lines: &["{ k: 'é',", "j: '🦀' }"], small: false },
  Shape { lines: &["() =>", "1"], small: false },
  Shape { lines: &["{", "k: 1,", "}"], small: true },
  Shape { lines: &["[", "'🦀',", "é]"], small: true },
  Shape { lines: &["() => {", "g('é');", "}"], small: false },
];

const B_SHAPES: &[Shape] = &[
  Shape { lines: &["y, z"], small: true },
  Shape { lines: &["y,", "z"], small: false },
  Shape { lines: &["[1,", "2], z"], small: true },
  Shape { lines: &["y,", "é,", "'🦀'"], small: true },
  Shape { lines: &["y, () => {", "g();", "}"], small: false },
];

const S_SHAPES: &[Shape] = &[
  Shape { lines: &["a;"], small: true },
  Shape { lines: &["a;", "b;"], small: false },
  Shape { lines: &["é;", "g('🦀');", "b;"], small: true },
  Shape { lines: &["if (a) {", "b;", "}"], small: false },
];

/// continuation-line offsets relative to the capture's first LINE; -2 = under-indented and
/// BLANK = empty line are generated but never judged for indentation
fn offsets_for(cont: usize) -> Vec<Vec<i32>> {
  match cont {
    0 => vec![vec![]],
    1 => vec![vec![0], vec![2], vec![4], vec![-2]],
    2 => {
      let mut v = vec![];
      for a in [0, 2, 4, -2, BLANK] {
        for b in [0, 2, 4, -2] {
          v.push(vec![a, b]);
        }
      }
      v
    }
    _ => unreachable!(),
  }
}

const SMALL_OFFS: &[&[i32]] = &[&[], &[2], &[2, 0], &[BLANK, 2], &[-2]];

fn render(lines: &[&str], offs: &[i32], c_line: usize) -> Option<String> {
  let mut s = lines[0].to_string();
  for (l, o) in lines[1..].iter().zip(offs) {
    s.push('\n');
    if *o == BLANK {
      continue;
    }
    let i = c_line as i32 + o;
    if i < 0 {
      return None;
    }
    s.push_str(&spaces(i as usize));
    s.push_str(l);
  }
  Some(s)
}

const FORMS: &[&str] = &["f($A)", "f($A, $$$B)", "{ $$$B }"];

#[derive(Clone, Debug)]
struct Layout {
  src: String,
  form: usize,
  a: Option<Range<usize>>,
  b: Option<Range<usize>>,
  /// member of the small site set used with the big template set
  small: bool,
  /// member of the subset that also feeds the round-trip part
  rt: bool,
}

fn layouts() -> Vec<Layout> {
  let mut out = vec![];
  for lead in ["", "z;\n"] {
    for pad in [0usize, 2, 4] {
      for own in [false, true] {
        let c_line = if own { pad + 2 } else { pad };
        // a prefix of more than 512 bytes on the match line (pad 0 only: beyond its look-back window
        // the implementation deliberately takes a line's indentation to be 0, which is then right)
        let long_prefix = format!("q = [{}1] + ", "1, ".repeat(174));
        let prefixes: Vec<&str> = if pad == 0 { vec!["", "q = ", "é = ", &long_prefix] } else { vec!["", "q = ", "é = "] };
        for prefix in prefixes {
          let site_small = lead == "z;\n" && pad == 2 && prefix == "q = ";
          let rt = lead == "z;\n" && prefix == "q = ";
          let head = format!("{lead}{}{prefix}f(", spaces(pad));
          // form 0: f(<capture>)
          for sh in A_SHAPES {
            for offs in offsets_for(sh.lines.len() - 1) {
              let Some(cap) = render(sh.lines, &offs, c_line) else { continue };
              let (src, a) = if own {
                let pre = format!("{head}\n{}", spaces(pad + 2));
                (format!("{pre}{cap}\n{})", spaces(pad)), pre.len()..pre.len() + cap.len())
              } else {
                (format!("{head}{cap})"), head.len()..head.len() + cap.len())
              };
              let small = site_small && sh.small && SMALL_OFFS.contains(&&offs[..]);
              out.push(Layout { src, form: 0, a: Some(a), b: None, small, rt });
            }
          }
          // form 1: f(<first>, <sibling run>)
          for (ai, first) in ["x".to_string(), format!("[1,\n{}2]", spaces(pad + 2))].into_iter().enumerate() {
            // the run starts on the line where `first` ends, or on its own line
            let c_run = if own || ai == 1 { pad + 2 } else { pad };
            for sh in B_SHAPES {
              for offs in offsets_for(sh.lines.len() - 1) {
                let Some(run) = render(sh.lines, &offs, c_run) else { continue };
                let a = head.len()..head.len() + first.len();
                let (src, b) = if own {
                  let pre = format!("{head}{first},\n{}", spaces(pad + 2));
                  (format!("{pre}{run}\n{})", spaces(pad)), pre.len()..pre.len() + run.len())
                } else {
                  let pre = format!("{head}{first}, ");
                  (format!("{pre}{run})"), pre.len()..pre.len() + run.len())
                };
                let small = site_small && ai == 0 && sh.small && SMALL_OFFS.contains(&&offs[..]);
                out.push(Layout { src, form: 1, a: Some(a), b: Some(b), small, rt });
              }
            }
          }
        }
        // form 2: a block whose statements are the run
        for sh in S_SHAPES {
          for offs in offsets_for(sh.lines.len() - 1) {
            let Some(run) = render(sh.lines, &offs, c_line) else { continue };
            let (src, b) = if own {
              let pre = format!("{lead}{}{{\n{}", spaces(pad), spaces(pad + 2));
              (format!("{pre}{run}\n{}}}", spaces(pad)), pre.len()..pre.len() + run.len())
            } else {
              let pre = format!("{lead}{}{{ ", spaces(pad));
              (format!("{pre}{run} }}"), pre.len()..pre.len() + run.len())
            };
            let small = lead == "z;\n" && pad == 2 && sh.small && SMALL_OFFS.contains(&&offs[..]);
            out.push(Layout { src, form: 2, a: None, b: Some(b), small, rt: lead == "z;\n" });
          }
        }
      }
    }
  }
  out
}

// ---------------------------------------------------------------------------------------------
// the subject

const LANG: SupportLang = SupportLang::JavaScript;

fn rule_text(fix: &str, transform: bool) -> String {
  rule_text_form(fix, transform, false)
}

/// `object`: the fix in object form (`fix: {template: ..}`), which is parsed on another path
fn rule_text_form(fix: &str, transform: bool, object: bool) -> String {
  let mut r = json!({
    "id": "r", "language": "JavaScript",
    "rule": {"any": [{"pattern": FORMS[0]}, {"pattern": FORMS[1]}, {"pattern": FORMS[2]}]},
    "fix": if object { json!({"template": fix}) } else { json!(fix) },
  });
  if transform {
    r["transform"] = json!({
      "T": {"substring": {"source": "$A", "startChar": 0}},
      "U": {"convert": {"source": "$A", "toCase": "upperCase"}},
      "V": {"substring": {"source": "$$$B", "startChar": 0}},
    });
  }
  r.to_string()
}

fn load_rule(fix: &str, transform: bool) -> Result<RuleConfig<SupportLang>, String> {
  load_rule_form(fix, transform, false)
}

fn load_rule_form(fix: &str, transform: bool, object: bool) -> Result<RuleConfig<SupportLang>, String> {
  let text = rule_text_form(fix, transform, object);
  let globals = GlobalRules::default();
  match guarded(std::panic::AssertUnwindSafe(|| from_yaml_string::<SupportLang>(&text, &globals))) {
    Ok(Ok(mut v)) if v.len() == 1 => Ok(v.pop().unwrap()),
    Ok(Ok(_)) => Err("rule text did not load as one rule".into()),
    Ok(Err(e)) => Err(format!("rejected: {e:?}")),
    Err(p) => Err(format!("panic: {p}")),
  }
}

fn load_fixer(fix: &str, transform: bool) -> Result<Fixer<SupportLang>, String> {
  load_fixer_form(fix, transform, false)
}

fn load_fixer_form(fix: &str, transform: bool, object: bool) -> Result<Fixer<SupportLang>, String> {
  let rc = load_rule_form(fix, transform, object)?;
  match guarded(std::panic::AssertUnwindSafe(|| rc.get_fixer())) {
    Ok(Ok(Some(f))) => Ok(f),
    Ok(Ok(None)) => Err("rule has no fixer".into()),
    Ok(Err(e)) => Err(format!("get_fixer rejected: {e:?}")),
    Err(p) => Err(format!("panic: {p}")),
  }
}

struct Base {
  plain: RuleConfig<SupportLang>,
  trans: RuleConfig<SupportLang>,
  pats: Vec<Pattern<SupportLang>>,
}

fn base() -> Base {
  Base {
    plain: load_rule("x", false).unwrap_or_else(|e| machinery(&format!("base rule: {e}"))),
    trans: load_rule("x", true).unwrap_or_else(|e| machinery(&format!("base rule with transform: {e}"))),
    pats: FORMS.iter().map(|p| Pattern::new(p, LANG)).collect(),
  }
}

/// one match site: the same node matched by the Pattern, by the rule and by the rule with transform
struct Site<'r> {
  src: &'r str,
  form: usize,
  m: usize,
  nm_pat: NodeMatch<'r, D>,
  nm_rule: NodeMatch<'r, D>,
  nm_trans: NodeMatch<'r, D>,
  env_plain: RefEnv<'r>,
  env_trans: RefEnv<'r>,
}

fn site<'r>(b: &Base, g: &'r AstGrep<D>, src: &'r str, form: usize) -> Result<Site<'r>, String> {
  let found = guarded(std::panic::AssertUnwindSafe(|| {
    (g.root().find(&b.pats[form]), g.root().find(&b.plain.matcher), g.root().find(&b.trans.matcher))
  }))?;
  let (Some(nm_pat), Some(nm_rule), Some(nm_trans)) = found else {
    return Err("no match".into());
  };
  if nm_pat.range() != nm_rule.range() || nm_pat.range() != nm_trans.range() {
    return Err("pattern and rule matched different nodes".into());
  }
  let env_plain = env_of(src, nm_pat.get_env(), &["A"], &["B"], NO_TRANS);
  let e2 = env_of(src, nm_rule.get_env(), &["A"], &["B"], NO_TRANS);
  let e3 = env_of(src, nm_trans.get_env(), &["A"], &["B"], TRANS);
  if env_plain.single != e2.single || env_plain.multi != e2.multi || env_plain.single != e3.single || env_plain.multi != e3.multi {
    return Err("pattern and rule bound different extents".into());
  }
  let m = line_indent(src, nm_pat.range().start);
  Ok(Site { src, form, m, nm_pat, nm_rule, nm_trans, env_plain, env_trans: e3 })
}

struct Tpl {
  text: String,
  pieces: Vec<Piece>,
}

impl Tpl {
  fn new(s: &str) -> Tpl {
    Tpl { text: s.to_string(), pieces: ref_scan(s) }
  }
}

/// everything built once per template
struct Prepared {
  plain: Tpl,
  tf: Result<TemplateFix, String>,
  fixer: Result<Fixer<SupportLang>, String>,
  trans: Vec<(Tpl, Result<Fixer<SupportLang>, String>)>,
  /// the same fixes written in object form
  fixer_obj: Result<Fixer<SupportLang>, String>,
  trans_obj: Vec<Result<Fixer<SupportLang>, String>>,
}

fn prepare(tpl: &str, with_plain: bool, trans_tpls: &[String]) -> Prepared {
  let tf = if with_plain {
    match guarded(|| TemplateFix::try_new(tpl, &LANG)) {
      Ok(Ok(t)) => Ok(t),
      Ok(Err(e)) => Err(format!("rejected: {e:?}")),
      Err(p) => Err(format!("panic: {p}")),
    }
  } else {
    Err("not requested".into())
  };
  let fixer = if with_plain { load_fixer(tpl, false) } else { Err("not requested".into()) };
  let trans = trans_tpls.iter().map(|t| (Tpl::new(t), load_fixer(t, true))).collect();
  let fixer_obj = if with_plain { load_fixer_form(tpl, false, true) } else { Err("not requested".into()) };
  let trans_obj = trans_tpls.iter().map(|t| load_fixer_form(t, true, true)).collect();
  Prepared { plain: Tpl::new(tpl), tf, fixer, trans, fixer_obj, trans_obj }
}

macro_rules! stats {
  ($($f:ident),* $(,)?) => {
    /// counters; every parallel task fills its own and adds it to the global one at its end
    #[derive(Default)]
    struct Stats { $($f: AtomicU64),* }
    impl Stats {
      fn absorb(&self, o: &Stats) {
        $(self.$f.fetch_add(o.$f.load(Ordering::Relaxed), Ordering::Relaxed);)*
      }
    }
  };
}
stats!(
  evals, pairs, full, partial, weak, stacked, skip, nontrivial, with_unbound, multi_slot, build_problems,
  // round trip
  rt_sources, rt_self_nodes, rt_self_judged, rt_self_multiline, rt_cuts, rt_cut_skipped_deindent,
  rt_cut_pattern_rejected, rt_cut_matches, rt_cut_noop_judged, rt_cut_noop_multiline, rt_cut_noop_stacked,
  rt_cut_nomatch, rt_whole_judged,
);

fn add(c: &AtomicU64) {
  c.fetch_add(1, Ordering::Relaxed);
}
fn get(c: &AtomicU64) -> u64 {
  c.load(Ordering::Relaxed)
}

fn digits_out(s: &str) -> String {
  s.chars().map(|c| if c.is_ascii_digit() { '#' } else { c }).take(90).collect()
}

/// compare one real replacement with the reference; true if it conforms
fn compare(rep: &Reporter, st: &Stats, route: &str, got: Result<Vec<u8>, String>, exp: &Expect, case: &dyn Fn() -> Value) -> bool {
  add(&st.evals);
  let bytes = match got {
    Ok(b) => b,
    Err(msg) => {
      let mut c = case();
      c["route"] = json!(route);
      c["panic"] = json!(msg);
      c["at"] = json!(last_panic_loc());
      rep.violation(&format!("panic:{route}:{}", digits_out(&msg)), c);
      return false;
    }
  };
  let s = match String::from_utf8(bytes) {
    Ok(s) => s,
    Err(e) => {
      let mut c = case();
      c["route"] = json!(route);
      c["observed_lossy"] = json!(String::from_utf8_lossy(e.as_bytes()));
      rep.violation(&format!("invalid-utf8:{route}"), c);
      return false;
    }
  };
  if exp.verdict == Verdict::Skip || conforms_to(&s, exp) {
    return true;
  }
  let class = if modulo_indent(&s) == modulo_indent(&exp.text) { "indentation" } else { "text" };
  let what = if exp.multiline_slots > 0 { "multi-line-capture" } else { "single-line-captures" };
  let part = if exp.verdict == Verdict::Partial { ":outside-the-exempt-lines" } else { "" };
  let sig = format!("mismatch:{route}:{class}:{what}{part}");
  let mut c = case();
  c["route"] = json!(route);
  c["observed"] = json!(s);
  c["expected"] = json!(exp.text);
  rep.violation(&sig, c);
  false
}

fn count_pair(st: &Stats, exp: &Expect) {
  add(&st.pairs);
  match exp.verdict {
    Verdict::Full | Verdict::Partial => {
      if exp.verdict == Verdict::Full {
        add(&st.full);
      } else {
        add(&st.partial);
        if exp.side_violation {
          add(&st.weak);
        }
        if exp.stacked {
          add(&st.stacked);
        }
      }
      if exp.judged_multiline_slots > 0 {
        add(&st.nontrivial);
      }
      if exp.multiline_slots > 1 {
        add(&st.multi_slot);
      }
      if exp.unbound_slots > 0 {
        add(&st.with_unbound);
      }
    }
    Verdict::Skip => add(&st.skip),
  }
}

/// a few actual cases of different kinds for the evidence file
struct Smp {
  plain: (Samples, AtomicU64),
  trans: (Samples, AtomicU64),
  partial: (Samples, AtomicU64),
  hand: (Samples, AtomicU64),
  cut: (Samples, AtomicU64),
}

impl Smp {
  fn new(n: usize) -> Smp {
    let mk = |k: usize| (Samples::new(k), AtomicU64::new(0));
    Smp { plain: mk(2.min(n)), trans: mk(2.min(n)), partial: mk(1.min(n)), hand: mk(1.min(n)), cut: mk(2.min(n)) }
  }
  fn offer(slot: &(Samples, AtomicU64), f: impl FnOnce() -> Value) {
    if slot.1.load(Ordering::Relaxed) < 2 {
      slot.1.fetch_add(1, Ordering::Relaxed);
      slot.0.offer(f);
    }
  }
  fn take(&self) -> Vec<Value> {
    let mut v = vec![];
    for s in [&self.plain, &self.trans, &self.partial, &self.hand, &self.cut] {
      v.extend(s.0.take());
    }
    v
  }
}

fn apply(rep: &Reporter, st: &Stats, samples: &Smp, p: &Prepared, s: &Site, hand: bool) {
  let case = |tpl: &str, transform: bool| json!({"kind": "template", "source": s.src, "form": s.form, "pattern": FORMS[s.form], "template": tpl, "transform": transform});
  if p.tf.is_ok() || p.fixer.is_ok() {
    let exp = ref_expand(&p.plain.text, &p.plain.pieces, &s.env_plain, s.m);
    count_pair(st, &exp);
    let c = || case(&p.plain.text, false);
    if let Ok(tf) = &p.tf {
      let got = guarded(std::panic::AssertUnwindSafe(|| Replacer::<D>::generate_replacement(tf, &s.nm_pat)));
      compare(rep, st, "TemplateFix", got, &exp, &c);
      let got = guarded(std::panic::AssertUnwindSafe(|| <str as Replacer<D>>::generate_replacement(&p.plain.text, &s.nm_pat)));
      compare(rep, st, "str", got, &exp, &c);
    }
    if let Ok(fx) = &p.fixer {
      let got = guarded(std::panic::AssertUnwindSafe(|| Replacer::<D>::generate_replacement(fx, &s.nm_rule)));
      compare(rep, st, "rule-fixer", got, &exp, &c);
    }
    if let Ok(fx) = &p.fixer_obj {
      let got = guarded(std::panic::AssertUnwindSafe(|| Replacer::<D>::generate_replacement(fx, &s.nm_rule)));
      compare(rep, st, "rule-fixer-object-form", got, &exp, &c);
    }
    let sample = || {
      let mut v = c();
      v["expected_and_observed"] = json!(exp.text);
      v["lines_compared_up_to_indentation"] = json!(exp.loose);
      v
    };
    if hand {
      if exp.verdict == Verdict::Full && exp.judged_multiline_slots >= 2 && s.m > 0 {
        Smp::offer(&samples.hand, sample);
      }
    } else if exp.verdict == Verdict::Full && exp.judged_multiline_slots >= 2 && exp.unbound_slots > 0 && s.m > 0 && p.plain.text.contains("\n  ") {
      Smp::offer(&samples.plain, sample);
    } else if exp.verdict == Verdict::Partial && exp.judged_multiline_slots >= 1 && exp.stacked && s.m > 0 {
      Smp::offer(&samples.partial, sample);
    }
  }
  for (ti, (t, fx)) in p.trans.iter().enumerate() {
    let Ok(fx) = fx else { continue };
    let exp = ref_expand(&t.text, &t.pieces, &s.env_trans, s.m);
    count_pair(st, &exp);
    let c = || case(&t.text, true);
    let got = guarded(std::panic::AssertUnwindSafe(|| Replacer::<D>::generate_replacement(fx, &s.nm_trans)));
    compare(rep, st, "rule-fixer-transform", got, &exp, &c);
    if let Some(Ok(fxo)) = p.trans_obj.get(ti) {
      let got = guarded(std::panic::AssertUnwindSafe(|| Replacer::<D>::generate_replacement(fxo, &s.nm_trans)));
      compare(rep, st, "rule-fixer-object-form-transform", got, &exp, &c);
    }
    if exp.verdict == Verdict::Full && exp.judged_multiline_slots >= 2 && s.m > 0 && t.text.contains('U') && t.text.contains('V') && t.text.contains("\n  ") {
      Smp::offer(&samples.trans, || {
        let mut v = c();
        v["expected_and_observed"] = json!(exp.text);
        v
      });
    }
  }
}

fn note_build_problems(rep: &Reporter, st: &Stats, p: &Prepared, allow_reject: bool) {
  let note = |what: &str, tpl: &str, e: &str| {
    if e == "not requested" {
      return;
    }
    // the loader names the variable it misses: UndefinedMetaVar("NAME", "fix")
    let undefined = e.split("UndefinedMetaVar(\"").nth(1).and_then(|r| r.split('"').next());
    let is_ref_var = |n: &str| ref_scan(tpl).iter().any(|p| matches!(p, Piece::Var { name, .. } if name == n));
    match undefined {
      Some(n) if !is_ref_var(n) => {
        // the loader treats literal template text as a variable reference
        rep.violation(&format!("{what}:literal-text-taken-for-a-variable"), json!({"kind": "build", "template": tpl, "what": what, "message": e, "not_a_variable": n}));
      }
      Some(_) if allow_reject => {
        // hand-written templates with names the rule does not define: the rule route is not available
        add(&st.build_problems);
      }
      _ if e.starts_with("panic") => {
        rep.violation(&format!("panic:{what}:{}", digits_out(e)), json!({"kind": "build", "template": tpl, "what": what, "message": e}));
      }
      // the statement says nothing about which templates load; machinery if it ever happens
      _ => machinery(&format!("{what} for template {tpl:?}: {e}")),
    }
  };
  if let Err(e) = &p.tf {
    note("TemplateFix::try_new", &p.plain.text, e);
  }
  if let Err(e) = &p.fixer {
    note("rule-load", &p.plain.text, e);
  }
  for (t, f) in &p.trans {
    if let Err(e) = f {
      note("rule-load-transform", &t.text, e);
    }
  }
}

// ---------------------------------------------------------------------------------------------
// round trip

fn deindent(p: &str, m: usize) -> Option<String> {
  if m == 0 || !p.contains('\n') {
    return Some(p.to_string());
  }
  let mut lines = p.split('\n');
  let mut out = lines.next().unwrap().to_string();
  for l in lines {
    if is_blank(l) || ind(l) < m {
      return None;
    }
    out.push('\n');
    out.push_str(&l[m..]);
  }
  Some(out)
}

/// tab-indented sources: used for the round-trip (no-op) law only, which does not depend on how
/// a tab is counted; the indentation formula of the reference is stated for spaces
const TAB_SOURCES: &[(&str, &str)] = &[
  ("javascript", "\tq = f({\n\t\tk: 1,\n\t});\n"),
  ("javascript", "if (a) {\n\tf([1,\n\t\t2]);\n}\n"),
  ("javascript", "function g() {\n\treturn h(x, () => {\n\t\ty('é');\n\t});\n}\n"),
  ("javascript", "z;\n\t  f([\n\t    '🦀',\n\t  ]);\n"),
  ("python", "def f(a):\n\tif a:\n\t\treturn g(a,\n\t\t\tb)\n\treturn 1\n"),
  ("rust", "fn f() {\n\tlet v = g(a,\n\t\tb);\n}\n"),
  ("go", "package p\n\nfunc f(a int, b int) int {\n\t// note\n\treturn a + b\n}\n"),
];

const CUT_SINGLES: &[&str] = &["V0", "V1", "V2", "A"];
const CUT_MULTIS: &[&str] = &["V"];

/// pattern `pat_text` with fix `fix` on `src`: every match is compared with the reference; when
/// the fix is the matched node's own text (holes at the captures, written at column 0) the
/// replacement must be the node's text, and replace_all + splice / AstGrep::replace must leave
/// the source unchanged
fn check_pattern_fix(rep: &Reporter, st: &Stats, samples: &Smp, lang_name: &str, lang: SupportLang, g: &AstGrep<D>, src: &str, pat_text: &str, fix: &str, whole: bool) {
  let case = || json!({"kind": "cut", "lang": lang_name, "src": src, "pattern": pat_text, "fix": fix});
  let pat = match guarded(|| Pattern::try_new(pat_text, lang)) {
    Ok(Ok(p)) => p,
    Ok(Err(_)) => {
      add(&st.rt_cut_pattern_rejected);
      return;
    }
    Err(_) => {
      add(&st.rt_cut_pattern_rejected); // C02/C03 report pattern construction panics
      return;
    }
  };
  let tf = match guarded(|| TemplateFix::try_new(fix, &lang)) {
    Ok(Ok(t)) => t,
    Ok(Err(e)) => machinery(&format!("TemplateFix::try_new rejected {fix:?}: {e:?}")),
    Err(p) => {
      let mut c = case();
      c["panic"] = json!(p);
      rep.violation(&format!("panic:TemplateFix::try_new:{}", digits_out(&p)), c);
      return;
    }
  };
  let pieces = ref_scan(fix);
  let pat_pieces = ref_scan(pat_text);
  let Ok(matches) = guarded(std::panic::AssertUnwindSafe(|| g.root().find_all(&pat).collect::<Vec<_>>())) else {
    return; // matcher panics belong to C02/C03
  };
  if matches.is_empty() {
    add(&st.rt_cut_nomatch);
    return;
  }
  let mut noop_ranges: Vec<Range<usize>> = vec![];
  let mut all_noop = true;
  for nm in &matches {
    add(&st.rt_cut_matches);
    let r = nm.range();
    let m2 = line_indent(src, r.start);
    let env = env_of(src, nm.get_env(), CUT_SINGLES, CUT_MULTIS, NO_TRANS);
    let exp = ref_expand(fix, &pieces, &env, m2);
    let c = || {
      let mut v = case();
      v["match"] = json!([r.start, r.end]);
      v
    };
    let got = guarded(std::panic::AssertUnwindSafe(|| Replacer::<D>::generate_replacement(&tf, nm)));
    let conforms = compare(rep, st, "cut:TemplateFix", got.clone(), &exp, &c);
    // the no-op law, independent of the reference's formula
    let is_own_text = deindent(pat_text, m2).as_deref() == Some(fix) && subst_verbatim(&pat_pieces, &env) == src[r.clone()] && !src[r.clone()].starts_with(' ');
    if is_own_text && exp.verdict != Verdict::Skip && !exp.side_violation {
      add(&st.rt_cut_noop_judged);
      if src[r.clone()].contains('\n') {
        add(&st.rt_cut_noop_multiline);
      }
      if exp.stacked {
        add(&st.rt_cut_noop_stacked);
      }
      match &got {
        Ok(b) if b == src[r.clone()].as_bytes() => {
          noop_ranges.push(r.clone());
          if m2 > 0 && exp.judged_multiline_slots > 0 && fix.contains('\n') {
            Smp::offer(&samples.cut, || {
              let mut v = c();
              v["replacement_equals_node_text"] = json!(&src[r.clone()]);
              v
            });
          }
        }
        Ok(b) => {
          all_noop = false;
          let mut v = c();
          v["observed"] = json!(String::from_utf8_lossy(b));
          v["expected"] = json!(&src[r.clone()]);
          if exp.stacked {
            // crisp class: the slot's indentation is taken from the template text although an earlier
            // multi-line insertion on the same template line has moved it to another line
            rep.violation("roundtrip:rewrite-to-itself-changes-text:multi-line-capture-after-multi-line-capture-on-one-template-line", v);
          } else {
            if conforms {
              // the reference and the no-op law disagree: the harness is inconsistent
              machinery(&format!("reference output is not a no-op for own-text fix: src={src:?} pattern={pat_text:?} fix={fix:?}"));
            }
            rep.violation("roundtrip:rewrite-to-itself-changes-text", v);
          }
        }
        Err(_) => all_noop = false,
      }
    } else {
      all_noop = false;
    }
  }
  if !whole || !all_noop {
    return;
  }
  // the full paths: replace_all + splice, AstGrep::replace (first match)
  add(&st.rt_whole_judged);
  match guarded(std::panic::AssertUnwindSafe(|| g.root().replace_all(&pat, &tf))) {
    Err(p) => {
      let mut v = case();
      v["panic"] = json!(p);
      rep.violation(&format!("panic:replace_all:{}", digits_out(&p)), v);
    }
    Ok(edits) => {
      // which range is replaced is C08's subject: judged here only when every edit covers a matched node exactly
      if edits.iter().all(|e| noop_ranges.contains(&(e.position..e.position + e.deleted_length))) {
        let es: Vec<(usize, usize, Vec<u8>)> = edits.iter().map(|e| (e.position, e.deleted_length, e.inserted_text.clone())).collect();
        let after = vcore::refs::splice(src.as_bytes(), &es);
        if after != src.as_bytes() {
          let mut v = case();
          v["after"] = json!(String::from_utf8_lossy(&after));
          rep.violation("roundtrip:replace_all+splice-changes-text", v);
        }
      }
    }
  }
  let first = matches[0].range();
  let res = guarded(std::panic::AssertUnwindSafe(|| {
    let mut g2 = g.clone();
    let e = g2.root().replace(&pat, &tf);
    let covers = e.as_ref().map(|e| e.position..e.position + e.deleted_length);
    let ok = g2.replace(&pat, &tf).is_ok();
    (covers, ok, g2.source().to_string())
  }));
  match res {
    Err(p) => {
      let mut v = case();
      v["panic"] = json!(p);
      rep.violation(&format!("panic:AstGrep::replace:{}", digits_out(&p)), v);
    }
    Ok((covers, ok, after)) => {
      if ok && covers == Some(first) && after != src {
        let mut v = case();
        v["after"] = json!(after);
        rep.violation("roundtrip:AstGrep::replace-changes-text", v);
      }
    }
  }
}

/// pattern `$A` / fix `$A` on every node the pattern matches
fn check_self(rep: &Reporter, st: &Stats, lang_name: &str, lang: SupportLang, g: &AstGrep<D>, src: &str, only: Option<Range<usize>>) {
  let pat = Pattern::new("$A", lang);
  let tf = TemplateFix::try_new("$A", &lang).unwrap_or_else(|e| machinery(&format!("{e:?}")));
  let pieces = ref_scan("$A");
  let mut nodes = vec![];
  all_nodes(&g.root(), &mut nodes);
  for n in &nodes {
    let r = n.range();
    if let Some(o) = &only {
      if *o != r {
        continue;
      }
    }
    let Ok(Some(nm)) = guarded(std::panic::AssertUnwindSafe(|| pat.match_node(n.clone()))) else { continue };
    add(&st.rt_self_nodes);
    let env = env_of(src, nm.get_env(), &["A"], &[], NO_TRANS);
    let m = line_indent(src, r.start);
    let exp = ref_expand("$A", &pieces, &env, m);
    if exp.verdict == Verdict::Full {
      add(&st.rt_self_judged);
      if exp.multiline_slots > 0 {
        add(&st.rt_self_multiline);
      }
      if exp.text != src[r.clone()] {
        machinery(&format!("reference is not a no-op for $A -> $A on {src:?} node {r:?}"));
      }
    }
    let c = || json!({"kind": "self", "lang": lang_name, "src": src, "node": [r.start, r.end], "pattern": "$A", "fix": "$A"});
    let got = guarded(std::panic::AssertUnwindSafe(|| Replacer::<D>::generate_replacement(&tf, &nm)));
    compare(rep, st, "self:TemplateFix", got, &exp, &c);
    let got = guarded(std::panic::AssertUnwindSafe(|| <str as Replacer<D>>::generate_replacement("$A", &nm)));
    compare(rep, st, "self:str", got, &exp, &c);
  }
}

fn roundtrip_source(rep: &Reporter, st: &Stats, samples: &Smp, spec: &LangSpec, src: &str, max_holes: usize, whole: bool) {
  add(&st.rt_sources);
  let g = spec.lang.ast_grep(src);
  check_self(rep, st, spec.name, spec.lang, &g, src, None);
  // the document as a whole: pattern `$A`, fix `$A`
  check_pattern_fix(rep, st, samples, spec.name, spec.lang, &g, src, "$A", "$A", false);
  let mut nodes = vec![];
  all_nodes(&g.root(), &mut nodes);
  for n in &nodes {
    if has_error(n) || n.range().is_empty() || is_missing(n) {
      continue;
    }
    let m = line_indent(src, n.range().start);
    for cut in cuts_of(n, max_holes) {
      add(&st.rt_cuts);
      let Some(fix) = deindent(&cut.text, m) else {
        add(&st.rt_cut_skipped_deindent);
        continue;
      };
      check_pattern_fix(rep, st, samples, spec.name, spec.lang, &g, src, &cut.text, &fix, whole);
    }
  }
}

// ---------------------------------------------------------------------------------------------

/// Space D: the `convert` transformation on its way into the fix. Oracle restated from the transformation
/// reference, without the splitter: a case conversion re-cases letters and re-joins words, it never drops or
/// invents a letter — so the result and the captured text agree once separator characters are removed and
/// both are lower-cased; `upperCase` / `lowerCase` are the std conversions of the whole capture.
fn convert_family(rep: &Reporter, thorough: bool) -> Value {
  let syms = ["a", "b", "B", "C", "é", "É", "д", "Д", "_", "-", "1"];
  let max = if thorough { 5 } else { 4 };
  let texts: Vec<String> = (0..gen::count(syms.len(), max)).map(|i| gen::nth_tokens(syms.len(), max, i).iter().map(|&t| syms[t]).collect::<String>()).filter(|t| !t.is_empty()).collect();
  let cases = ["lowerCase", "upperCase", "capitalize", "camelCase", "snakeCase", "kebabCase", "pascalCase"];
  let sep_sets: Vec<Option<Vec<&str>>> = vec![None, Some(vec!["caseChange"]), Some(vec!["underscore"]), Some(vec!["dash", "caseChange"]), Some(vec!["dash", "underscore"])];
  let strip = |s: &str| s.chars().filter(|c| !matches!(c, '_' | '-' | '.' | '/' | ' ')).collect::<String>().to_lowercase();
  let evals = AtomicU64::new(0);
  let multibyte_boundary = AtomicU64::new(0);
  let mut configs = vec![];
  for c in cases {
    for ss in &sep_sets {
      let mut o = json!({"source": "$A", "toCase": c});
      if let Some(ss) = ss {
        o["separatedBy"] = json!(ss);
      }
      configs.push((c, o));
    }
  }
  let greps: Vec<(String, AstGrep<D>)> = texts.iter().map(|t| (t.clone(), SupportLang::JavaScript.ast_grep(format!("'{t}'")))).collect();
  configs.par_iter().for_each(|(c, o)| {
    let doc = json!({"id": "t", "language": "JavaScript", "rule": {"pattern": "$A", "kind": "string_fragment"}, "transform": {"T": {"convert": o}}, "fix": "$T"});
    let globals = GlobalRules::default();
    let rule = match guarded(std::panic::AssertUnwindSafe(|| from_yaml_string::<SupportLang>(&doc.to_string(), &globals))) {
      Ok(Ok(mut r)) => r.pop().unwrap(),
      other => machinery(&format!("convert family: rule did not load: {:?}", other.map(|r| r.map(|_| ()).map_err(|e| format!("{e:?}"))))),
    };
    let fixer = match rule.get_fixer() {
      Ok(Some(f)) => f,
      _ => machinery("convert family: no fixer"),
    };
    for (t, g) in &greps {
      let case = || json!({"kind": "convert", "text": t, "convert": o});
      let got = guarded(std::panic::AssertUnwindSafe(|| {
        let nm = g.root().find(&rule.matcher)?;
        Some(String::from_utf8_lossy(&nm.make_edit(&rule.matcher, &fixer).inserted_text).to_string())
      }));
      evals.fetch_add(1, Ordering::Relaxed);
      let cs: Vec<char> = t.chars().collect();
      if cs.windows(2).any(|w| w[0].is_lowercase() && w[1].is_uppercase() && (w[0].len_utf8() > 1 || w[1].len_utf8() > 1)) {
        multibyte_boundary.fetch_add(1, Ordering::Relaxed);
      }
      let got = match got {
        Ok(Some(s)) => s,
        Ok(None) => machinery(&format!("convert family: string fragment {t:?} not matched")),
        Err(p) => {
          rep.violation(&format!("panic:convert:{c}:{}", digits_out(&p)), case());
          continue;
        }
      };
      let exact = match *c {
        "upperCase" => Some(t.to_uppercase()),
        "lowerCase" => Some(t.to_lowercase()),
        _ => None,
      };
      if let Some(e) = exact {
        if got != e {
          let mut v = case();
          v["observed"] = json!(got);
          v["expected"] = json!(e);
          rep.violation(&format!("convert:{c}:not-the-case-conversion-of-the-capture"), v);
        }
      } else if strip(&got) != strip(t) {
        let mut v = case();
        v["observed"] = json!(got);
        v["letters_expected"] = json!(strip(t));
        rep.violation(&format!("convert:{c}:letters-of-the-capture-dropped-or-invented"), v);
      }
    }
  });
  json!({"texts": texts.len(), "symbols": syms, "max_symbols": max, "convert_configs": configs.len(), "evaluations": evals.load(Ordering::Relaxed),
    "evaluations_with_a_lower_to_upper_boundary_at_a_multibyte_letter": multibyte_boundary.load(Ordering::Relaxed),
    "oracle": "upperCase/lowerCase: equal to str::to_uppercase/to_lowercase of the capture; the five word-splitting cases: result and capture have the same letters in the same order once `_ - . / space` are removed and both are lower-cased"})
}

fn replay(rep: &Reporter, case: &Value) -> ! {
  let st = Stats::default();
  let samples = Smp::new(0);
  match case["kind"].as_str().unwrap_or("") {
    "template" => {
      let src = case["source"].as_str().unwrap();
      let form = case["form"].as_u64().unwrap() as usize;
      let tpl = case["template"].as_str().unwrap();
      let transform = case["transform"].as_bool().unwrap_or(false);
      let b = base();
      let g = LANG.ast_grep(src);
      let s = site(&b, &g, src, form).unwrap_or_else(|e| machinery(&format!("replay site: {e}")));
      let p = if transform { prepare(tpl, false, &[tpl.to_string()]) } else { prepare(tpl, true, &[]) };
      note_build_problems(rep, &st, &p, true);
      let (t, env) = if transform { (&p.trans[0].0, &s.env_trans) } else { (&p.plain, &s.env_plain) };
      let exp = ref_expand(&t.text, &t.pieces, env, s.m);
      println!("source   : {src:?}\npattern  : {}\ntemplate : {tpl:?} (transform: {transform})\nbindings : single={:?} multi={:?} m={}", FORMS[form], env.single, env.multi, s.m);
      println!("reference: {:?} ({:?})", exp.text, exp.verdict);
      if let Ok(tf) = &p.tf {
        println!("TemplateFix: {:?}", guarded(std::panic::AssertUnwindSafe(|| String::from_utf8_lossy(&Replacer::<D>::generate_replacement(tf, &s.nm_pat)).to_string())));
      }
      if let Ok(fx) = &p.fixer {
        println!("rule-fixer : {:?}", guarded(std::panic::AssertUnwindSafe(|| String::from_utf8_lossy(&Replacer::<D>::generate_replacement(fx, &s.nm_rule)).to_string())));
      }
      for (_, fx) in &p.trans {
        if let Ok(fx) = fx {
          println!("rule-fixer-transform: {:?}", guarded(std::panic::AssertUnwindSafe(|| String::from_utf8_lossy(&Replacer::<D>::generate_replacement(fx, &s.nm_trans)).to_string())));
        }
      }
      apply(rep, &st, &samples, &p, &s, false);
    }
    "build" => {
      let tpl = case["template"].as_str().unwrap();
      let p = prepare(tpl, true, &[tpl.to_string()]);
      note_build_problems(rep, &st, &p, true);
    }
    "cut" => {
      let spec = spec_by_name(case["lang"].as_str().unwrap()).unwrap();
      let src = case["src"].as_str().unwrap();
      let g = spec.lang.ast_grep(src);
      let (pt, fx) = (case["pattern"].as_str().unwrap(), case["fix"].as_str().unwrap());
      println!("source  : {src:?}\npattern : {pt:?}\nfix     : {fx:?}");
      if let (Ok(pat), Ok(tf)) = (Pattern::try_new(pt, spec.lang), TemplateFix::try_new(fx, &spec.lang)) {
        for nm in g.root().find_all(&pat) {
          let env = env_of(src, nm.get_env(), CUT_SINGLES, CUT_MULTIS, NO_TRANS);
          let exp = ref_expand(fx, &ref_scan(fx), &env, line_indent(src, nm.range().start));
          let got = guarded(std::panic::AssertUnwindSafe(|| String::from_utf8_lossy(&Replacer::<D>::generate_replacement(&tf, &nm)).to_string()));
          println!("match {:?} text {:?}\n  observed : {:?}\n  reference: {:?} (lines compared up to indentation: {:?})", nm.range(), nm.text(), got, exp.text, exp.loose);
        }
      }
      check_pattern_fix(rep, &st, &samples, spec.name, spec.lang, &g, src, case["pattern"].as_str().unwrap(), case["fix"].as_str().unwrap(), true);
    }
    "self" => {
      let spec = spec_by_name(case["lang"].as_str().unwrap()).unwrap();
      let src = case["src"].as_str().unwrap();
      let g = spec.lang.ast_grep(src);
      let r = case["node"][0].as_u64().unwrap() as usize..case["node"][1].as_u64().unwrap() as usize;
      check_self(rep, &st, spec.name, spec.lang, &g, src, Some(r));
    }
    "convert" => {
      let t = case["text"].as_str().unwrap();
      let doc = json!({"id": "t", "language": "JavaScript", "rule": {"pattern": "$A", "kind": "string_fragment"}, "transform": {"T": {"convert": case["convert"].clone()}}, "fix": "$T"});
      let globals = GlobalRules::default();
      let rule = from_yaml_string::<SupportLang>(&doc.to_string(), &globals).unwrap_or_else(|e| machinery(&format!("replay: {e:?}"))).pop().unwrap();
      let fixer = rule.get_fixer().ok().flatten().unwrap_or_else(|| machinery("replay: no fixer"));
      let g = SupportLang::JavaScript.ast_grep(format!("'{t}'"));
      let got = guarded(std::panic::AssertUnwindSafe(|| g.root().find(&rule.matcher).map(|nm| String::from_utf8_lossy(&nm.make_edit(&rule.matcher, &fixer).inserted_text).to_string())));
      println!("capture  : {t:?}\nconvert  : {}\nobserved : {got:?}", case["convert"]);
      let strip = |s: &str| s.chars().filter(|c| !matches!(c, '_' | '-' | '.' | '/' | ' ')).collect::<String>().to_lowercase();
      let ok = match (&got, case["convert"]["toCase"].as_str().unwrap_or("")) {
        (Ok(Some(s)), "upperCase") => *s == t.to_uppercase(),
        (Ok(Some(s)), "lowerCase") => *s == t.to_lowercase(),
        (Ok(Some(s)), _) => strip(s) == strip(t),
        _ => false,
      };
      println!("replay: {} violation(s), 1 comparison", if ok { 0 } else { 1 });
      std::process::exit(if ok { 0 } else { 1 })
    }
    k => machinery(&format!("unknown case kind {k:?}")),
  }
  println!("replay: {} violation(s), {} comparisons", rep.violation_count(), get(&st.evals));
  std::process::exit(if rep.violation_count() > 0 { 1 } else { 0 })
}

fn main() {
  let args = Args::parse();
  quiet_panics();
  let rep = Reporter::new("C07", args.clone());
  if let Some(p) = &args.replay {
    let v: Value = serde_json::from_str(&std::fs::read_to_string(p).unwrap_or_else(|e| machinery(&format!("replay file: {e}")))).unwrap_or_else(|e| machinery(&format!("replay file: {e}")));
    replay(&rep, &v["case"]);
  }
  let thorough = args.thorough();
  let st = Stats::default();
  let samples = Smp::new(2);

  // ---- the layout grid, checked against the real matcher once
  let grid = layouts();
  {
    let distinct: BTreeSet<&str> = grid.iter().map(|l| l.src.as_str()).collect();
    if distinct.len() != grid.len() {
      machinery("layout grid contains duplicate sources");
    }
  }
  let bad: Vec<String> = grid
    .par_chunks(64)
    .flat_map_iter(|ch| {
      let b = base();
      let mut bad = vec![];
      for l in ch {
        let g = LANG.ast_grep(&l.src);
        match site(&b, &g, &l.src, l.form) {
          Ok(s) => {
            if s.env_plain.get_single("A") != l.a || s.env_plain.get_multi("B") != l.b || has_error(&g.root()) {
              bad.push(format!("{:?}: bound A={:?} B={:?}, intended A={:?} B={:?}", l.src, s.env_plain.get_single("A"), s.env_plain.get_multi("B"), l.a, l.b));
            }
          }
          Err(e) => bad.push(format!("{:?}: {e}", l.src)),
        }
      }
      bad
    })
    .collect();
  if !bad.is_empty() {
    machinery(&format!("{} layouts of the grid do not bind as intended, e.g. {}", bad.len(), bad[0]));
  }
  let small: Vec<&Layout> = grid.iter().filter(|l| l.small).collect();
  let rest: Vec<&Layout> = grid.iter().filter(|l| !l.small).collect();

  // ---- space A: all templates of <= N symbols x the small site set
  let n_a = if thorough { 6 } else { 5 };
  let tpls_a = templates(n_a);
  let t_a = std::time::Instant::now();
  tpls_a.par_chunks(256).for_each(|ch| {
    let gst = &st;
    let st = Stats::default();
    let b = base();
    let docs: Vec<AstGrep<D>> = small.iter().map(|l| LANG.ast_grep(&l.src)).collect();
    let sites: Vec<Site> = small.iter().zip(&docs).map(|(l, g)| site(&b, g, &l.src, l.form).unwrap_or_else(|e| machinery(&e))).collect();
    for t in ch {
      let p = prepare(t, true, &variants(t));
      note_build_problems(&rep, &st, &p, false);
      for s in &sites {
        apply(&rep, &st, &samples, &p, s, false);
      }
    }
    gst.absorb(&st);
  });
  eprintln!("space A done: {:.1}s", t_a.elapsed().as_secs_f64());
  let secs_a = t_a.elapsed().as_secs_f64();
  let pairs_a = get(&st.pairs);

  // ---- space B: the whole grid x templates of <= K symbols + hand-written multi-line templates
  let n_b = if thorough { 4 } else { 3 };
  let tpls_b = templates(n_b);
  let in_a: BTreeSet<&str> = tpls_a.iter().map(|s| s.as_str()).collect();
  let hand: Vec<String> = HAND.iter().filter(|h| !in_a.contains(**h)).map(|h| h.to_string()).collect();
  let prep_b: Vec<Prepared> = tpls_b.par_iter().map(|t| prepare(t, true, &variants(t))).collect();
  let prep_hand: Vec<Prepared> = hand.par_iter().map(|t| prepare(t, true, &variants(t))).collect();
  for p in &prep_b {
    note_build_problems(&rep, &st, p, false);
  }
  for p in &prep_hand {
    note_build_problems(&rep, &st, p, true);
  }
  let t_b = std::time::Instant::now();
  grid.par_chunks(16).for_each(|ch| {
    let gst = &st;
    let st = Stats::default();
    let b = base();
    for l in ch {
      let g = LANG.ast_grep(&l.src);
      let s = site(&b, &g, &l.src, l.form).unwrap_or_else(|e| machinery(&e));
      if !l.small {
        // (small sites x these templates are already part of space A)
        for p in &prep_b {
          apply(&rep, &st, &samples, p, &s, false);
        }
      }
      for p in &prep_hand {
        apply(&rep, &st, &samples, p, &s, true);
      }
    }
    gst.absorb(&st);
  });
  eprintln!("space B done: {:.1}s", t_b.elapsed().as_secs_f64());
  let secs_b = t_b.elapsed().as_secs_f64();
  let pairs_b = get(&st.pairs) - pairs_a;

  // ---- space C: round trips
  let t_c = std::time::Instant::now();
  let l_rt = if thorough { 5 } else { 4 };
  let mut per_lang = vec![];
  for name in ["javascript", "python", "rust"] {
    let spec = spec_by_name(name).unwrap();
    let total = gen::count(spec.tokens.len(), l_rt);
    let before = (get(&st.rt_cuts), get(&st.rt_cut_noop_judged));
    (0..total + spec.corpus.len()).into_par_iter().for_each(|i| {
      let (src, whole) = if i < total { (gen::nth(spec.tokens, l_rt, i), thorough && name == "javascript") } else { (spec.corpus[i - total].to_string(), true) };
      let local = Stats::default();
      roundtrip_source(&rep, &local, &samples, spec, &src, 2, whole);
      st.absorb(&local);
    });
    eprintln!("round trip {name} done: {:.1}s", t_c.elapsed().as_secs_f64());
    per_lang.push(json!({"lang": name, "L": l_rt, "sources": total + spec.corpus.len(), "cuts": get(&st.rt_cuts) - before.0, "own_text_fixes_judged": get(&st.rt_cut_noop_judged) - before.1}));
  }
  let js = spec_by_name("javascript").unwrap();
  let rt_layouts: Vec<&Layout> = grid.iter().filter(|l| l.rt || thorough).collect();
  let before = (get(&st.rt_cuts), get(&st.rt_cut_noop_judged));
  rt_layouts.par_iter().for_each(|l| {
    let local = Stats::default();
    roundtrip_source(&rep, &local, &samples, js, &l.src, 2, true);
    st.absorb(&local);
  });
  per_lang.push(json!({"lang": "javascript (layout grid)", "sources": rt_layouts.len(), "cuts": get(&st.rt_cuts) - before.0, "own_text_fixes_judged": get(&st.rt_cut_noop_judged) - before.1}));
  // three captures on ONE template line (single-line and multi-line mixed, the last line of a
  // capture indented differently from its first line): every combination, cut with <= 3 holes
  let caps: [&str; 5] = ["x", "[\n  1,\n]", "a\n    .b()", "[\n      1,\n    ]", "{\n  k: 1 }"];
  let mut three: Vec<String> = vec![];
  for site in [0usize, 2] {
    for a in caps {
      for b in caps {
        for c in caps {
          let pad = " ".repeat(site);
          let body = format!("foo({a}, {b}, {c})");
          // continuation lines move with the site indentation
          let body = body.replace('\n', &format!("\n{pad}"));
          three.push(if site == 0 { format!("{body}\n") } else { format!("function g() {{\n{pad}{body}\n}}\n") });
        }
      }
    }
  }
  let before3 = (get(&st.rt_cuts), get(&st.rt_cut_noop_judged));
  three.par_iter().for_each(|src| {
    let local = Stats::default();
    roundtrip_source(&rep, &local, &samples, js, src, 3, true);
    st.absorb(&local);
  });
  per_lang.push(json!({"lang": "javascript (three captures on one template line)", "sources": three.len(), "cuts": get(&st.rt_cuts) - before3.0, "own_text_fixes_judged": get(&st.rt_cut_noop_judged) - before3.1}));
  TAB_SOURCES.par_iter().for_each(|(lang, src)| {
    let local = Stats::default();
    roundtrip_source(&rep, &local, &samples, spec_by_name(lang).unwrap(), src, 2, true);
    st.absorb(&local);
  });
  per_lang.push(json!({"lang": "tab-indented sources (javascript, python, rust, go)", "sources": TAB_SOURCES.len()}));
  let secs_c = t_c.elapsed().as_secs_f64();

  let space_d = convert_family(&rep, thorough);
  let cov = json!({
    "space_D_convert": space_d,
    "evaluations": get(&st.evals),
    "distinct_nontrivial": get(&st.nontrivial),
    "rule": "an evaluation is one real generate_replacement call compared with the reference (one route of one (template, match) pair; the routes of a pair share one expected value). distinct_nontrivial counts DISTINCT (template or transform-variant template, layout) pairs of spaces A and B (disjoint by construction: B skips the sites of A for the enumerated templates, hand-written templates are not in A) whose replacement inserts at least one multi-line capture that the indentation clause covers, i.e. whose continuation lines are compared byte for byte; round-trip cases are counted separately under round_trip",
    "samples": samples.take(),
    "exhaustive": true,
    "template_symbols": SYMS,
    "space_A": {"max_symbols": n_a, "distinct_templates": tpls_a.len(), "sites": small.len(), "pairs_incl_transform_variants": pairs_a, "seconds": secs_a},
    "space_B": {"max_symbols": n_b, "distinct_templates": tpls_b.len(), "hand_written_templates": hand.len(), "layouts": grid.len(), "layouts_not_in_A": rest.len(), "pairs_incl_transform_variants": pairs_b, "seconds": secs_b},
    "layouts_by_form": FORMS.iter().enumerate().map(|(i, f)| json!({"pattern": f, "layouts": grid.iter().filter(|l| l.form == i).count()})).collect::<Vec<_>>(),
    "pairs_total": get(&st.pairs),
    "pairs_judged_in_full": get(&st.full),
    "pairs_judged_with_exempt_lines": get(&st.partial),
    "pairs_with_a_multiline_capture_covered_by_the_indentation_clause": get(&st.nontrivial),
    "pairs_judged_with_two_or_more_multiline_insertions": get(&st.multi_slot),
    "pairs_judged_with_unbound_variable": get(&st.with_unbound),
    "pairs_with_lines_exempt_because_side_condition_not_met": get(&st.weak),
    "pairs_with_lines_exempt_because_second_multiline_insertion_on_one_template_line": get(&st.stacked),
    "pairs_not_judged_spelling_outside_statement": get(&st.skip),
    "hand_written_templates_rejected_by_rule_loader_undefined_variable": get(&st.build_problems),
    "routes": ["TemplateFix::try_new on a Pattern match", "&str replacer on a Pattern match", "Fixer from RuleConfig::get_fixer (from_yaml_string)", "Fixer of a rule with transform ($T = substring($A), $U = convert($A, upperCase), $V = substring($$$B))"],
    "round_trip": {
      "seconds": secs_c,
      "sources": get(&st.rt_sources),
      "self_nodes": get(&st.rt_self_nodes),
      "self_nodes_judged_in_full": get(&st.rt_self_judged),
      "self_multiline_nodes_judged_in_full": get(&st.rt_self_multiline),
      "cuts": get(&st.rt_cuts),
      "cuts_skipped_node_lines_under_indented_or_blank": get(&st.rt_cut_skipped_deindent),
      "cut_patterns_rejected": get(&st.rt_cut_pattern_rejected),
      "cut_patterns_without_match": get(&st.rt_cut_nomatch),
      "cut_matches_compared_with_reference": get(&st.rt_cut_matches),
      "own_text_fixes_judged_no_op": get(&st.rt_cut_noop_judged),
      "own_text_fixes_judged_no_op_multiline_node": get(&st.rt_cut_noop_multiline),
      "own_text_fixes_judged_with_two_multiline_captures_on_one_template_line": get(&st.rt_cut_noop_stacked),
      "whole_document_paths_judged": get(&st.rt_whole_judged),
      "per_language": per_lang,
    },
  });
  rep.finish(
    "exploration",
    cov,
    vec![
      "bindings are taken from the real match (by byte extent); which nodes a pattern binds is the subject of C02/C03".into(),
      "the indentation clause is asserted per inserted capture: the continuation lines of a capture with a blank or under-indented continuation line are compared up to their leading spaces only, every other line byte for byte".into(),
      "a multi-line capture inserted on a template line after another multi-line insertion has no single 'template line' to be relative to: its continuation lines are compared up to leading spaces in spaces A/B; the unambiguous consequence (rewriting a node to itself is a no-op) is asserted in the round-trip part".into(),
      "`$$$X` where X is a single capture or a transformed variable, and digit-/underscore-first names, are outside the statement: no panic and valid UTF-8 only".into(),
      "a transformed copy of a capture (substring from 0, upper-case conversion) is expected to be inserted like the capture it was computed from".into(),
      "spaces are the only indentation characters in the alphabet (no tabs); all lines are shorter than the replacer's 512-byte look-behind".into(),
      "dev profile (debug assertions on), opt-level 1".into(),
    ],
  );
}
