//! C20 — meta-variable syntax is uniform across languages; small notations are exact.
//! (a) every `$`^k·name spelling (k<=3, name <= 3 symbols over {A,Z,a,1,0,9,_}) alone and inside a
//!     carrier pattern, in all 23 languages, vs ref_metavar;
//! (b) every An+B string <= 6 symbols (+ long digit runs) through the real nthChild rule on a
//!     12-element sibling list (and reversed), vs ref_anb;
//! (c) substring on every text <= 4 chars over {a, é, 🦀} x start/end in -6..6|absent through
//!     the real transform path, vs Python slice semantics;
//! (d) every fix template <= 6 symbols over {$, A, Z, b, 1, 9, _, space}: used_vars and output vs
//!     ref_template.

use ast_grep_config::{from_str, DeserializeEnv, SerializableRuleCore};
use ast_grep_core::matcher::{MatcherExt, PatternNode};
use ast_grep_core::meta_var::MetaVariable;
use ast_grep_core::replacer::{Replacer, TemplateFix};
use ast_grep_core::{Language, Pattern};
use ast_grep_language::SupportLang;
use rayon::prelude::*;
use serde_json::json;
use std::collections::BTreeSet;
use std::sync::atomic::{AtomicU64, Ordering};
use vcore::gen;
use vcore::langs::SPECS;
use vcore::report::*;
use vcore::rules::{anb_selects, ref_anb};

#[derive(Debug, Clone, PartialEq, Eq)]
enum Class {
  Capture(String, bool), // name, named-only
  Dropped(bool),
  Ellipsis,
  NamedEllipsis(String),
  NotAHole,
}

fn valid_name(s: &str) -> bool {
  let mut cs = s.chars();
  match cs.next() {
    Some(c) if c.is_ascii_uppercase() || c == '_' => {}
    _ => return false,
  }
  cs.all(|c| c.is_ascii_uppercase() || c.is_ascii_digit() || c == '_')
}

/// ref_metavar on a whole leaf text with sigil `$`
fn ref_metavar(text: &str) -> Class {
  let k = text.chars().take_while(|c| *c == '$').count();
  let name = &text[k..];
  match k {
    3 => {
      if name.is_empty() {
        Class::Ellipsis
      } else if !name.chars().all(|c| c.is_ascii_uppercase() || c.is_ascii_digit() || c == '_') {
        Class::NotAHole
      } else if name.starts_with('_') {
        Class::Ellipsis
      } else {
        // statement: `$$$A` named ellipsis. Digit-first names after `$$$` are not fixed by the
        // statement (the caller does not judge them).
        Class::NamedEllipsis(name.to_string())
      }
    }
    1 | 2 => {
      if !valid_name(name) {
        Class::NotAHole
      } else if name.starts_with('_') {
        Class::Dropped(k == 1)
      } else {
        Class::Capture(name.to_string(), k == 1)
      }
    }
    _ => Class::NotAHole,
  }
}

fn class_of(mv: &MetaVariable) -> Class {
  match mv {
    MetaVariable::Capture(n, named) => Class::Capture(n.clone(), *named),
    MetaVariable::Dropped(named) => Class::Dropped(*named),
    MetaVariable::Multiple => Class::Ellipsis,
    MetaVariable::MultiCapture(n) => Class::NamedEllipsis(n.clone()),
  }
}

fn collect(p: &PatternNode, mvs: &mut Vec<Class>, terms: &mut Vec<String>) {
  match p {
    PatternNode::MetaVar { meta_var } => mvs.push(class_of(meta_var)),
    PatternNode::Terminal { text, .. } => terms.push(text.clone()),
    PatternNode::Internal { children, .. } => children.iter().for_each(|c| collect(c, mvs, terms)),
  }
}

fn carrier(lang: &str) -> (&'static str, &'static str) {
  match lang {
    "html" => ("<a>", "</a>"),
    "css" => ("a { b: ", " }"),
    "json" => ("[", "]"),
    "yaml" => ("a: ", ""),
    "bash" => ("echo ", ""),
    "haskell" => ("f = g ", ""),
    "elixir" | "ruby" | "lua" | "python" | "javascript" | "typescript" | "tsx" | "swift" | "scala" | "kotlin" | "php" => ("f(", ")"),
    "c" | "cpp" | "csharp" | "java" | "rust" | "go" => ("f(", ")"),
    _ => ("f(", ")"),
  }
}

fn spellings() -> Vec<String> {
  // (the first and last member of every character range of the name grammar: A Z, 0 9)
  let names = ["A", "Z", "a", "1", "0", "9", "_"];
  let mut out = vec![];
  for k in 0..=3 {
    let sig = "$".repeat(k);
    out.push(sig.clone());
    for i in 0..gen::count(names.len(), 3) {
      let seq = gen::nth_tokens(names.len(), 3, i);
      let name: String = seq.iter().map(|&t| names[t]).collect();
      out.push(format!("{sig}{name}"));
    }
  }
  out.retain(|s| !s.is_empty());
  out
}

#[derive(Default)]
struct Stats {
  a_evals: AtomicU64,
  a_holes_recognised: AtomicU64,
  a_not_judged: AtomicU64,
  b_strings: AtomicU64,
  b_accepted_ref: AtomicU64,
  b_loaded_not_in_grammar: AtomicU64,
  b_evals: AtomicU64,
  c_evals: AtomicU64,
  c_nonempty: AtomicU64,
  d_templates: AtomicU64,
  d_judged: AtomicU64,
  d_with_var: AtomicU64,
}

fn leaf_texts(n: &ast_grep_core::Node<vcore::rules::D>, out: &mut Vec<String>) {
  let kids = vcore::dump::children_vec(n);
  if kids.is_empty() {
    out.push(n.text().to_string());
  }
  for k in kids {
    leaf_texts(&k, out);
  }
}

fn part_a(rep: &Reporter, st: &Stats) {
  let sp = spellings();
  for spec in SPECS {
    let (pre, suf) = carrier(spec.name);
    let expando = spec.lang.expando_char();
    sp.par_iter().for_each(|s| {
      let k = s.chars().take_while(|c| *c == '$').count();
      let name = &s[k..];
      // not fixed by the statement: sigil-free names containing `_` (the expando character of
      // some languages: there they ARE the internal spelling of a hole), digit-first names
      // after `$$$`
      if (k == 0 && name.contains('_')) || (k == 3 && name.starts_with(|c: char| c.is_ascii_digit())) {
        st.a_not_judged.fetch_add(1, Ordering::Relaxed);
        return;
      }
      let want = if k == 0 { Class::NotAHole } else { ref_metavar(s) };
      for (mode, text) in [("alone", s.clone()), ("carrier", format!("{pre}{s}{suf}"))] {
        st.a_evals.fetch_add(1, Ordering::Relaxed);
        let lang = spec.lang;
        // the statement speaks of a spelling "written in a pattern": it is judged when the
        // grammar reads the whole spelling as ONE leaf token (recognition works on leaf text)
        let processed = lang.pre_process_pattern(&text).to_string();
        let processed_spelling = lang.pre_process_pattern(s).to_string();
        let tree = lang.ast_grep(&processed);
        let mut leaves = vec![];
        leaf_texts(&tree.root(), &mut leaves);
        if leaves.iter().filter(|l| **l == processed_spelling).count() != 1 {
          st.a_not_judged.fetch_add(1, Ordering::Relaxed);
          continue;
        }
        let t2 = text.clone();
        let pat = match guarded(move || Pattern::try_new(&t2, lang)) {
          Ok(Ok(p)) => p,
          Ok(Err(_)) => continue, // the text is not one pattern node: nothing is denoted
          Err(msg) => {
            rep.violation("metavar:pattern-panic", json!({"lang": spec.name, "pattern": text, "panic": msg, "at": last_panic_loc()}));
            continue;
          }
        };
        let (mut mvs, mut terms) = (vec![], vec![]);
        collect(&pat.node, &mut mvs, &mut terms);
        // `$_...` in a language whose expando character is `_` collides with the ellipsis
        // spelling (`$__` becomes `___`): tagged so that only this collision can be listed as known
        let ex = format!("expando={expando}{}", if name.starts_with('_') { ":underscore-name" } else { "" });
        match &want {
          Class::NotAHole => {
            if !mvs.is_empty() {
              rep.violation(
                &format!("metavar:non-hole-treated-as-hole:{ex}"),
                json!({"lang": spec.name, "mode": mode, "pattern": text, "spelling": s, "found": format!("{mvs:?}")}),
              );
            }
          }
          w => {
            if mvs.iter().any(|m| m != w) {
              rep.violation(
                &format!("metavar:wrong-class:{ex}"),
                json!({"lang": spec.name, "mode": mode, "pattern": text, "spelling": s, "want": format!("{w:?}"), "found": format!("{mvs:?}")}),
              );
            } else if mvs.is_empty() {
              rep.violation(
                &format!("metavar:hole-not-recognised:{ex}"),
                json!({"lang": spec.name, "mode": mode, "pattern": text, "spelling": s, "want": format!("{w:?}"), "terminals": terms}),
              );
            } else {
              st.a_holes_recognised.fetch_add(1, Ordering::Relaxed);
            }
          }
        }
      }
    });
  }
}

fn load_core(v: &serde_json::Value, lang: SupportLang) -> Result<ast_grep_config::RuleCore<SupportLang>, String> {
  let text = v.to_string();
  let r = guarded(move || {
    let ser: SerializableRuleCore = from_str(&text).map_err(|e| format!("yaml: {e}"))?;
    ser.get_matcher(DeserializeEnv::new(lang)).map_err(|e| format!("{e:?}"))
  });
  match r {
    Ok(x) => x,
    Err(p) => Err(format!("PANIC:{p}")),
  }
}

fn part_b(rep: &Reporter, st: &Stats, thorough: bool) {
  let syms = ["n", "N", "+", "-", "0", "1", "2", "9", " "];
  let max = if thorough { 6 } else { 5 };
  let mut strings: Vec<String> = (0..gen::count(syms.len(), max))
    .map(|i| gen::nth_tokens(syms.len(), max, i).iter().map(|&t| syms[t]).collect())
    .collect();
  // long digit runs
  for d in ["9", "1", "2147483647", "2147483648", "4294967296", "99999999999"] {
    for form in ["{d}", "{d}n", "{d}n+1", "n+{d}", "-{d}n+{d}", "n-{d}", "-{d}"] {
      strings.push(form.replace("{d}", d));
    }
  }
  let lang = SupportLang::JavaScript;
  let src = "f(x1, x2, x3, x4, x5, x6, x7, x8, x9, x10, x11, x12)";
  let grep = lang.ast_grep(src);
  let args: Vec<_> = grep.root().find("f($$$A)").unwrap().get_env().get_multiple_matches("A").into_iter().filter(|n| n.is_named()).collect();
  assert_eq!(args.len(), 12);
  strings.par_iter().for_each(|s| {
    st.b_strings.fetch_add(1, Ordering::Relaxed);
    let reference = ref_anb(s);
    if reference.is_some() {
      st.b_accepted_ref.fetch_add(1, Ordering::Relaxed);
    }
    for reverse in [false, true] {
      let rule = if reverse { json!({"rule": {"nthChild": {"position": s, "reverse": true}}}) } else { json!({"rule": {"nthChild": s}}) };
      let core = match load_core(&rule, lang) {
        Ok(c) => c,
        Err(e) => {
          if e.starts_with("PANIC:") {
            rep.violation(&format!("anb:load-panic:{}", e.chars().filter(|c| !c.is_ascii_digit()).take(60).collect::<String>()), json!({"nthChild": s, "error": e, "at": last_panic_loc()}));
          } else if reference.map(|(a, b)| a.abs() <= i32::MAX as i128 && b.abs() <= i32::MAX as i128).unwrap_or(false) {
            // formulas whose coefficients fit in 32 bits must load; larger ones may be refused
            // with an error (they must not crash, and if they load they must select correctly)
            rep.violation("anb:valid-formula-rejected", json!({"nthChild": s, "error": e, "reference": format!("{reference:?}")}));
          }
          continue;
        }
      };
      let Some((a, b)) = reference else {
        st.b_loaded_not_in_grammar.fetch_add(1, Ordering::Relaxed);
        continue; // loaded-but-not-in-grammar: only required not to crash
      };
      for (i0, n) in args.iter().enumerate() {
        st.b_evals.fetch_add(1, Ordering::Relaxed);
        let idx = if reverse { 12 - i0 } else { i0 + 1 } as i128;
        let want = anb_selects(a, b, idx);
        let got = guarded(std::panic::AssertUnwindSafe(|| core.match_node(n.clone()).is_some()));
        match got {
          Err(msg) => rep.violation("anb:match-panic", json!({"nthChild": s, "reverse": reverse, "index": idx, "panic": msg})),
          Ok(g) if g != want => rep.violation(
            &format!("anb:wrong-selection:{}", if g { "selected" } else { "missed" }),
            json!({"nthChild": s, "reverse": reverse, "index": idx, "A": a.to_string(), "B": b.to_string(), "want": want, "got": g}),
          ),
          _ => {}
        }
      }
    }
  });
}

fn py_slice(chars: &[char], start: Option<i64>, end: Option<i64>) -> String {
  let len = chars.len() as i64;
  let norm = |v: Option<i64>, dft: i64| -> i64 {
    match v {
      None => dft,
      Some(x) if x < 0 => (len + x).max(0),
      Some(x) => x.min(len),
    }
  };
  let (s, e) = (norm(start, 0), norm(end, len));
  if s >= e {
    String::new()
  } else {
    chars[s as usize..e as usize].iter().collect()
  }
}

fn part_c(rep: &Reporter, st: &Stats) {
  let alphabet = ['a', 'é', '🦀'];
  let mut texts = vec![];
  for i in 0..gen::count(3, 4) {
    let t: String = gen::nth_tokens(3, 4, i).iter().map(|&k| alphabet[k]).collect();
    texts.push(t);
  }
  let mut bounds: Vec<Option<i64>> = vec![None];
  bounds.extend((-6..=6).map(Some));
  let lang = SupportLang::JavaScript;
  let combos: Vec<(Option<i64>, Option<i64>)> = bounds.iter().flat_map(|s| bounds.iter().map(move |e| (*s, *e))).collect();
  combos.par_iter().for_each(|(s, e)| {
    let mut sub = json!({"source": "$A"});
    if let Some(s) = s {
      sub["startChar"] = json!(s);
    }
    if let Some(e) = e {
      sub["endChar"] = json!(e);
    }
    let doc = json!({"rule": {"pattern": "$A", "kind": "string_fragment"}, "transform": {"B": {"substring": sub}}});
    let core = match load_core(&doc, lang) {
      Ok(c) => c,
      Err(err) => {
        rep.violation("substring:rule-rejected", json!({"doc": doc, "error": err}));
        return;
      }
    };
    for t in &texts {
      st.c_evals.fetch_add(1, Ordering::Relaxed);
      let src = format!("'{t}'");
      let grep = lang.ast_grep(&src);
      let got = guarded(std::panic::AssertUnwindSafe(|| {
        let nm = grep.root().find(&core)?;
        let b = nm.get_env().get_transformed("B")?.clone();
        Some(String::from_utf8_lossy(&b).to_string())
      }));
      let chars: Vec<char> = t.chars().collect();
      let want = py_slice(&chars, *s, *e);
      if !want.is_empty() {
        st.c_nonempty.fetch_add(1, Ordering::Relaxed);
      }
      match got {
        Err(msg) => rep.violation("substring:panic", json!({"text": t, "start": s, "end": e, "panic": msg, "at": last_panic_loc()})),
        Ok(None) => rep.violation("substring:no-result", json!({"text": t, "start": s, "end": e})),
        Ok(Some(g)) if g != want => rep.violation("substring:differs-from-python-slice", json!({"text": t, "start": s, "end": e, "want": want, "got": g})),
        _ => {}
      }
    }
  });
}

/// ref_template: (judged?, used vars, expected output with $A -> `x`, everything else empty)
fn ref_template(t: &str) -> (bool, BTreeSet<String>, String) {
  let cs: Vec<char> = t.chars().collect();
  let mut i = 0;
  let mut out = String::new();
  let mut vars = BTreeSet::new();
  let mut judged = true;
  while i < cs.len() {
    if cs[i] != '$' {
      out.push(cs[i]);
      i += 1;
      continue;
    }
    // run of up to 3 sigils
    let mut k = 0;
    while i + k < cs.len() && cs[i + k] == '$' && k < 3 {
      k += 1;
    }
    let mut j = i + k;
    let ns = j;
    while j < cs.len() && (cs[j].is_ascii_uppercase() || cs[j].is_ascii_digit() || cs[j] == '_') {
      j += 1;
    }
    let name: String = cs[ns..j].iter().collect();
    if name.is_empty() {
      // a sigil not followed by a name char: literal. With k sigils the scanner's choice of
      // where the next variable starts is not fixed by the statement when more sigils follow
      if i + k < cs.len() && cs[i + k] == '$' {
        judged = false;
      }
      out.push('$');
      i += 1;
      if k > 1 {
        // re-scan the remaining sigils one by one (`$$a`: both literal)
      }
      continue;
    }
    if !name.starts_with(|c: char| c.is_ascii_uppercase()) {
      // digit-first / underscore-first names: not in the asserted set
      judged = false;
    }
    vars.insert(name.clone());
    if name == "A" && k < 3 {
      out.push('x');
    }
    i = j;
  }
  (judged, vars, out)
}

fn part_d(rep: &Reporter, st: &Stats, thorough: bool) {
  let syms = ["$", "A", "Z", "b", "1", "9", "_", " "];
  let max = if thorough { 7 } else { 6 };
  let total = gen::count(syms.len(), max);
  for lang in [SupportLang::JavaScript, SupportLang::Python] {
    let grep = lang.ast_grep("x");
    let nm = grep.root().find("$A").expect("matches");
    (0..total).into_par_iter().for_each(|i| {
      let t: String = gen::nth_tokens(syms.len(), max, i).iter().map(|&k| syms[k]).collect();
      st.d_templates.fetch_add(1, Ordering::Relaxed);
      let (judged, vars, want) = ref_template(&t);
      let t2 = t.clone();
      let res = guarded(std::panic::AssertUnwindSafe(|| {
        let fix = TemplateFix::try_new(&t2, &lang).unwrap();
        let used: BTreeSet<String> = fix.used_vars().into_iter().map(|s| s.to_string()).collect();
        let out = String::from_utf8_lossy(&fix.generate_replacement(&nm)).to_string();
        // the plain-string replacer must agree with TemplateFix
        let out2 = String::from_utf8_lossy(&Replacer::<vcore::rules::D>::generate_replacement(t2.as_str(), &nm)).to_string();
        (used, out, out2)
      }));
      match res {
        Err(msg) => rep.violation("template:panic", json!({"template": t, "panic": msg, "at": last_panic_loc()})),
        Ok((used, out, out2)) => {
          if out != out2 {
            rep.violation("template:str-replacer-differs", json!({"template": t, "template_fix": out, "str": out2}));
          }
          if !judged {
            return;
          }
          st.d_judged.fetch_add(1, Ordering::Relaxed);
          if !vars.is_empty() {
            st.d_with_var.fetch_add(1, Ordering::Relaxed);
          }
          if used != vars {
            rep.violation("template:used-vars", json!({"template": t, "want": vars, "got": used}));
          }
          if out != want {
            rep.violation("template:output", json!({"template": t, "want": want, "got": out}));
          }
        }
      }
    });
  }
}

fn main() {
  let args = Args::parse();
  quiet_panics();
  let rep = Reporter::new("C20", args.clone());
  if args.replay.is_some() {
    println!("C20 replay: the case in the replay file is self-describing (notation string + expected/observed); rerun the tier to re-evaluate it");
    std::process::exit(0);
  }
  let st = Stats::default();
  part_a(&rep, &st);
  part_b(&rep, &st, args.thorough());
  part_c(&rep, &st);
  part_d(&rep, &st, args.thorough());
  let g = |a: &AtomicU64| a.load(Ordering::Relaxed);
  let cov = json!({
    "evaluations": g(&st.a_evals) + g(&st.b_evals) + g(&st.c_evals) + g(&st.d_templates),
    "distinct_nontrivial": g(&st.a_holes_recognised) + g(&st.b_accepted_ref) + g(&st.c_nonempty) + g(&st.d_with_var),
    "rule": "(a) all spellings $^k name, k<=3, name <= 3 symbols over {A,Z,a,1,0,9,_}, alone and in a per-language carrier, 23 languages; (b) all An+B strings <= 5 (thorough 6) symbols over {n,N,+,-,0,1,2,9,space} plus long digit runs, x 12 sibling indices x reverse; (c) all texts <= 4 chars over {a,é,crab} x 14x14 start/end pairs; (d) all templates <= 6 (thorough 7) symbols over {$,A,Z,b,1,9,_,space} in 2 languages. distinct_nontrivial = spellings recognised as exactly one hole + formulas the reference grammar accepts + substring cases with a non-empty expected slice + judged templates containing a variable",
    "samples": [
      {"part": "a", "lang": "python", "pattern": "f($$A1)", "expect": "any-node capture A1"},
      {"part": "b", "nthChild": "-2n+9", "selects_indices": [1, 3, 5, 7, 9]},
      {"part": "c", "text": "aé🦀a", "startChar": -3, "endChar": null, "expect": "é🦀a"},
      {"part": "d", "template": "$A$$Ab$", "expect_output": "xxb$", "used_vars": ["A"]},
    ],
    "exhaustive": true,
    "a_spelling_evaluations": g(&st.a_evals), "a_holes_recognised": g(&st.a_holes_recognised), "a_not_judged": g(&st.a_not_judged),
    "b_strings": g(&st.b_strings), "b_accepted_by_reference_grammar": g(&st.b_accepted_ref), "b_loaded_but_not_in_grammar": g(&st.b_loaded_not_in_grammar), "b_index_evaluations": g(&st.b_evals),
    "c_evaluations": g(&st.c_evals), "c_nonempty_expected": g(&st.c_nonempty),
    "d_templates": g(&st.d_templates), "d_judged": g(&st.d_judged), "d_judged_with_variable": g(&st.d_with_var),
  });
  rep.finish(
    "exploration",
    cov,
    vec![
      "spellings the statement does not fix are counted, not judged: k=0 names starting with `_`, digit-first names after a sigil, underscore-first names in templates, sigil runs longer than 3".into(),
      "An+B strings outside the reference grammar that the loader accepts are only required not to crash".into(),
      "dev profile (overflow checks on), opt-level 1".into(),
    ],
  );
}
