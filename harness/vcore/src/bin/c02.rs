//! C02 — code with holes matches the code it was cut from, binding each hole exactly.
//! Space: every error-free node N of every tree (token strings <= L, all 23 languages, + corpus),
//! every set of <= H non-overlapping named descendants replaced by $V<i>, every trailing run
//! of named siblings replaced by $$$V; x 5 strictness levels.
//! Oracle: if the pattern parses to the same shape as N (checked mechanically on the public
//! PatternNode tree) then it matches N and binds every hole to the extent it replaced.

use ast_grep_core::matcher::{MatcherExt, PatternNode};
use ast_grep_core::meta_var::MetaVariable;
use ast_grep_core::{Language, Node, Pattern};
use rayon::prelude::*;
use serde_json::json;
use std::sync::atomic::{AtomicU64, Ordering};
use vcore::cuts::{cuts_of, Cut};
use vcore::dump::*;
use vcore::gen;
use vcore::langs::{spec_by_name, LangSpec, SPECS};
use vcore::pats::*;
use vcore::report::*;
use vcore::rules::D;

fn real_kids<'t>(n: &Node<'t, D>) -> Vec<Node<'t, D>> {
  children_vec(n).into_iter().filter(|c| !is_missing(c)).collect()
}

/// structure only: a leaf whose TEXT differs is recorded in `altered` (pattern text, code text)
/// and judged by the caller — a pattern that is handed code and stores other text for it has not
/// kept the code it was cut from
fn shape_ok(p: &PatternNode, n: &Node<D>, cut: &Cut, altered: &std::cell::RefCell<Vec<(String, String)>>) -> bool {
  let r = n.range();
  if let PatternNode::MetaVar { meta_var } = p {
    // a hole is legal only where we put one
    return match meta_var {
      MetaVariable::Capture(name, true) => cut.holes.iter().any(|(v, hr)| v == name && *hr == r),
      _ => false,
    };
  }
  match p {
    PatternNode::MetaVar { .. } => unreachable!(),
    PatternNode::Terminal {
      text,
      is_named,
      kind_id,
    } => {
      let ok = n.is_leaf() && n.kind_id() == *kind_id && n.is_named() == *is_named
      // a leaf that covers a hole extent must have become a MetaVar
      && !cut.holes.iter().any(|(_, hr)| *hr == r);
      if ok && *text != n.text() {
        altered.borrow_mut().push((text.to_string(), n.text().to_string()));
      }
      ok
    }
    PatternNode::Internal { kind_id, children } => {
      if n.is_leaf() || n.kind_id() != *kind_id {
        return false;
      }
      let ks = real_kids(n);
      if let Some((v, sibs, parent)) = &cut.multi {
        if *parent == r {
          // expected: kids before the run, one named ellipsis, kids after the run
          let first = ks.iter().position(|k| k.range() == sibs[0] && k.is_named());
          let last = ks
            .iter()
            .rposition(|k| k.range() == *sibs.last().unwrap() && k.is_named());
          if let (Some(a), Some(b)) = (first, last) {
            if children.len() == a + 1 + (ks.len() - b - 1) {
              let ok_before = children[..a].iter().zip(&ks[..a]).all(|(p, k)| shape_ok(p, k, cut, altered));
              let ok_mid = matches!(&children[a], PatternNode::MetaVar { meta_var: MetaVariable::MultiCapture(name) } if name == v);
              let ok_after = children[a + 1..]
                .iter()
                .zip(&ks[b + 1..])
                .all(|(p, k)| shape_ok(p, k, cut, altered));
              if ok_before && ok_mid && ok_after {
                return true;
              }
            }
          }
        }
      }
      children.len() == ks.len() && children.iter().zip(&ks).all(|(p, k)| shape_ok(p, k, cut, altered))
    }
  }
}

fn pattern_has_all_holes(p: &PatternNode, cut: &Cut) -> bool {
  // (a single hole and an ellipsis of the same name are different holes)
  fn collect(p: &PatternNode, out: &mut Vec<String>) {
    match p {
      PatternNode::MetaVar { meta_var } => match meta_var {
        MetaVariable::Capture(n, _) => out.push(n.clone()),
        MetaVariable::MultiCapture(n) => out.push(format!("...{n}")),
        _ => {}
      },
      PatternNode::Internal { children, .. } => children.iter().for_each(|c| collect(c, out)),
      _ => {}
    }
  }
  let mut names = vec![];
  collect(p, &mut names);
  let mut want: Vec<String> = cut.holes.iter().map(|h| h.0.clone()).collect();
  if let Some(m) = &cut.multi {
    want.push(format!("...{}", m.0));
  }
  names.sort();
  want.sort();
  names == want
}

#[derive(Default)]
struct Stats {
  cuts: AtomicU64,
  conform: AtomicU64,
  conform_with_holes: AtomicU64,
  conform_two_plus: AtomicU64,
  conform_ellipsis: AtomicU64,
  evals: AtomicU64,
}

fn check_source(rep: &Reporter, spec: &LangSpec, src: &str, max_holes: usize, st: &Stats, samples: &Samples) {
  let root = spec.lang.ast_grep(src);
  let mut nodes = vec![];
  all_nodes(&root.root(), &mut nodes);
  for n in &nodes {
    if has_error(n) || n.range().is_empty() || is_missing(n) {
      continue;
    }
    for cut in cuts_of(n, max_holes) {
      st.cuts.fetch_add(1, Ordering::Relaxed);
      let lang = spec.lang;
      let text = cut.text.clone();
      let pat = match guarded(move || Pattern::try_new(&text, lang)) {
        Ok(Ok(p)) => p,
        Ok(Err(_)) => continue,
        Err(msg) => {
          rep.violation(
            "pattern-new:panic",
            json!({"lang": spec.name, "pattern": cut.text, "panic": msg, "at": last_panic_loc()}),
          );
          continue;
        }
      };
      let altered = std::cell::RefCell::new(vec![]);
      if !pattern_has_all_holes(&pat.node, &cut) {
        // a hole we wrote is not a meta variable of the pattern. If tree-sitter itself reads the
        // hole text as ONE node of the cut (independent parse, own sigil rewriting), the pattern
        // builder lost it: a violation, not a failed precondition
        let ex = spec.lang.expando_char();
        // the converse: the pattern has a meta variable we did not write. A meta variable is spelled
        // sigil + [A-Z_][A-Z0-9_]* (documented grammar, restated here); a variable of the pattern whose
        // name is not of that form was made out of a token of the CODE that spells no hole
        {
          fn names_of(p: &PatternNode, out: &mut Vec<String>) {
            match p {
              PatternNode::MetaVar { meta_var } => match meta_var {
                MetaVariable::Capture(n, _) | MetaVariable::MultiCapture(n) => out.push(n.clone()),
                _ => {}
              },
              PatternNode::Internal { children, .. } => children.iter().for_each(|c| names_of(c, out)),
              _ => {}
            }
          }
          let mut all = vec![];
          names_of(&pat.node, &mut all);
          let valid = |name: &str| {
            let mut cs = name.chars();
            cs.next().is_some_and(|c| c.is_ascii_uppercase() || c == '_') && cs.all(|c| c.is_ascii_uppercase() || c.is_ascii_digit() || c == '_')
          };
          if let Some(bad) = all.iter().find(|a| !valid(a)) {
            rep.violation(
              "code-token-that-spells-no-hole-became-a-meta-variable-of-the-pattern",
              json!({"lang": spec.name, "src": src, "node": [n.range().start, n.range().end], "pattern": cut.text, "meta_variable": bad}),
            );
            continue;
          }
        }
        if !n.text().contains('$') && !n.text().contains(ex) {
          let own_pre: String = if ex == '$' { cut.text.clone() } else { cut.text.replace('$', &ex.to_string()) };
          let indep = spec.lang.ast_grep(&own_pre);
          let mut cands = vec![];
          all_nodes(&indep.root(), &mut cands);
          let mut names = vec![];
          fn collect(p: &PatternNode, out: &mut Vec<(String, bool)>) {
            match p {
              PatternNode::MetaVar { meta_var } => match meta_var {
                MetaVariable::Capture(n, _) => out.push((n.clone(), false)),
                MetaVariable::MultiCapture(n) => out.push((n.clone(), true)),
                _ => {}
              },
              PatternNode::Internal { children, .. } => children.iter().for_each(|c| collect(c, out)),
              _ => {}
            }
          }
          collect(&pat.node, &mut names);
          // (name, is an ellipsis, text written into the cut)
          let wanted: Vec<((String, bool), String)> = cut.holes.iter().map(|(v, _)| ((v.clone(), false), format!("{ex}{v}"))).chain(cut.multi.iter().map(|m| ((m.0.clone(), true), format!("{ex}{ex}{ex}{}", m.0)))).collect();
          for (name, text) in wanted {
            if !names.contains(&name) && cands.iter().any(|c| c.text() == text.as_str() && !c.is_error() && !has_error(c)) {
              rep.violation(
                &format!("hole-is-one-node-of-the-cut-but-not-a-meta-variable-of-the-pattern:{}", if text.starts_with(&format!("{ex}{ex}{ex}")) { "ellipsis" } else { "single" }),
                json!({"lang": spec.name, "src": src, "node": [n.range().start, n.range().end], "pattern": cut.text, "hole": name.0}),
              );
              break;
            }
          }
        }
        continue;
      }
      if !shape_ok(&pat.node, n, &cut, &altered) {
        continue; // precondition "parses to the same tree shape" not met: counted, not judged
      }
      let altered = altered.into_inner();
      if !altered.is_empty() {
        // same structure, other leaf text. Whether tree-sitter itself tokenises the cut differently
        // out of context (then the precondition fails: not judged) or the pattern stores other text
        // than it was given (violation) is decided by an INDEPENDENT parse of the cut: its leaves
        // are compared with the code's leaves, holes aside. The sigils are rewritten here, not by
        // the language's own pre-processing.
        let ex = spec.lang.expando_char();
        if altered.iter().any(|(_, code)| code.contains('$') || code.contains(ex)) {
          continue; // the code's own leaf spells a sigil: pre-processing legitimately rewrites it
        }
        let own_pre: String = if ex == '$' { cut.text.clone() } else { cut.text.replace('$', &ex.to_string()) };
        let hole_texts: Vec<String> = cut.holes.iter().map(|(v, _)| format!("{ex}{v}")).chain(cut.multi.iter().map(|m| format!("{ex}{ex}{ex}{}", m.0))).collect();
        // code leaves in order; a hole / the cut run contributes its placeholder
        fn code_leaves(n: &Node<D>, cut: &Cut, out: &mut Vec<String>) {
          let r = n.range();
          if cut.holes.iter().any(|(_, hr)| *hr == r) {
            out.push("<hole>".into());
            return;
          }
          let ks = real_kids(n);
          if ks.is_empty() {
            out.push(n.text().to_string());
            return;
          }
          let mut in_run = false;
          for k in ks {
            if let Some((_, sibs, parent)) = &cut.multi {
              if *parent == r && k.range().start >= sibs[0].start && k.range().end <= sibs.last().unwrap().end {
                if !in_run {
                  out.push("<hole>".into());
                  in_run = true;
                }
                continue;
              }
            }
            code_leaves(&k, cut, out);
          }
        }
        fn parse_leaves(n: &Node<D>, holes: &[String], out: &mut Vec<String>) {
          if holes.iter().any(|h| *h == n.text()) {
            out.push("<hole>".into());
            return;
          }
          let ks = real_kids(n);
          if ks.is_empty() {
            out.push(n.text().to_string());
            return;
          }
          for k in ks {
            parse_leaves(&k, holes, out);
          }
        }
        let mut want = vec![];
        code_leaves(n, &cut, &mut want);
        let indep = spec.lang.ast_grep(&own_pre);
        let mut cands = vec![];
        all_nodes(&indep.root(), &mut cands);
        let given_right_tokens = cands.iter().any(|c| {
          if c.kind_id() != n.kind_id() {
            return false;
          }
          let mut got = vec![];
          parse_leaves(c, &hole_texts, &mut got);
          got == want
        });
        if given_right_tokens {
          let (pt, code) = &altered[0];
          let class = if code.is_ascii() { "ascii" } else { "non-ascii" };
          rep.violation(
            &format!("pattern-stores-other-leaf-text-than-tree-sitter-reads-from-the-cut:{class}"),
            json!({"lang": spec.name, "src": src, "node": [n.range().start, n.range().end], "pattern": cut.text, "pattern_leaf": pt, "code_leaf": code}),
          );
        }
        continue;
      }
      st.conform.fetch_add(1, Ordering::Relaxed);
      if !cut.holes.is_empty() || cut.multi.is_some() {
        st.conform_with_holes.fetch_add(1, Ordering::Relaxed);
        if cut.holes.len() >= 2 {
          st.conform_two_plus.fetch_add(1, Ordering::Relaxed);
        }
        if cut.multi.is_some() {
          st.conform_ellipsis.fetch_add(1, Ordering::Relaxed);
        }
        if cut.text.len() > 8 && (cut.holes.len() >= 2 || cut.multi.is_some())
        {
          samples.offer(|| json!({"lang": spec.name, "src": src, "node": [n.range().start, n.range().end], "pattern": cut.text}));
        }
      }
      for sname in STRICTNESS {
        st.evals.fetch_add(1, Ordering::Relaxed);
        let p = pat.clone().with_strictness(strictness(sname));
        let case = || json!({"lang": spec.name, "src": src, "node": {"kind": n.kind(), "range": [n.range().start, n.range().end]}, "pattern": cut.text, "strictness": sname, "holes": cut.holes.iter().map(|h| json!([h.0, h.1.start, h.1.end])).collect::<Vec<_>>(), "multi": cut.multi.as_ref().map(|m| json!([m.0, m.1.iter().map(|r| json!([r.start, r.end])).collect::<Vec<_>>()]))});
        let kind = if cut.multi.is_some() {
          "ellipsis"
        } else {
          match cut.holes.len() {
            0 => "self",
            1 => "1-hole",
            _ => "n-holes",
          }
        };
        let m = guarded(std::panic::AssertUnwindSafe(|| p.match_node(n.clone())));
        let m = match m {
          Ok(m) => m,
          Err(msg) => {
            let mut c = case();
            c["panic"] = json!(msg);
            rep.violation(&format!("match:panic:{kind}"), c);
            continue;
          }
        };
        let Some(nm) = m else {
          rep.violation(&format!("no-match:{sname}:{kind}"), case());
          continue;
        };
        let env = nm.get_env();
        for (v, hr) in &cut.holes {
          match env.get_match(v) {
            Some(b) if b.range() == *hr => {}
            other => {
              let mut c = case();
              c["bound"] = json!(other.map(|b| [b.range().start, b.range().end]));
              c["var"] = json!(v);
              rep.violation(&format!("wrong-binding:{sname}:{kind}"), c);
            }
          }
        }
        if let Some((v, sibs, _)) = &cut.multi {
          let got: Vec<_> = env
            .get_multiple_matches(v)
            .iter()
            .filter(|x| x.is_named())
            .map(|x| x.range())
            .collect();
          if got != *sibs {
            let mut c = case();
            c["bound"] = json!(got.iter().map(|r| [r.start, r.end]).collect::<Vec<_>>());
            rep.violation(&format!("wrong-ellipsis-binding:{sname}"), c);
          }
        }
      }
    }
  }
}

fn main() {
  let args = Args::parse();
  quiet_panics();
  let rep = Reporter::new("C02", args.clone());
  let samples = Samples::new(10);
  if let Some(p) = &args.replay {
    let v: serde_json::Value = serde_json::from_str(&std::fs::read_to_string(p).unwrap()).unwrap();
    let case = &v["case"];
    let spec = spec_by_name(case["lang"].as_str().unwrap()).unwrap();
    check_source(&rep, spec, case["src"].as_str().unwrap(), 3, &Stats::default(), &samples);
    println!("replay: {} violation(s) on that source (all its cuts re-checked)", rep.violation_count());
    std::process::exit(if rep.violation_count() > 0 { 1 } else { 0 });
  }
  let st = Stats::default();
  let mut per_lang = vec![];
  for spec in SPECS {
    let (l, h) = match (args.thorough(), spec.deep) {
      (false, true) => (4, 2),
      (false, false) => (3, 2),
      (true, true) => (5, 3),
      (true, false) => (4, 3),
    };
    let total = gen::count(spec.tokens.len(), l);
    let before = (st.cuts.load(Ordering::Relaxed), st.conform.load(Ordering::Relaxed));
    (0..total + spec.corpus.len()).into_par_iter().for_each(|i| {
      let src = if i < total {
        gen::nth(spec.tokens, l, i)
      } else {
        spec.corpus[i - total].to_string()
      };
      check_source(&rep, spec, &src, h, &st, &samples);
    });
    per_lang.push(json!({"lang": spec.name, "L": l, "max_holes": h, "sources": total + spec.corpus.len(),
      "cuts": st.cuts.load(Ordering::Relaxed) - before.0, "cuts_meeting_precondition": st.conform.load(Ordering::Relaxed) - before.1}));
  }
  let cov = json!({
    "evaluations": st.evals.load(Ordering::Relaxed),
    "distinct_nontrivial": st.conform_with_holes.load(Ordering::Relaxed),
    "rule": "for every error-free node N of every tree: every cut = N's text with <= H pairwise non-overlapping named descendants replaced by $V0,$V1,.. or one trailing run of named siblings replaced by $$$V; a cut is judged only if Pattern::try_new accepts it and its PatternNode tree has N's shape with holes exactly at the cut positions; an evaluation is one (cut, strictness) pair; distinct_nontrivial = cuts meeting the precondition that contain at least one hole (each cut is a distinct (source, node, hole set))",
    "samples": samples.take(),
    "exhaustive": true,
    "cuts_generated": st.cuts.load(Ordering::Relaxed),
    "cuts_meeting_precondition": st.conform.load(Ordering::Relaxed),
    "judged_cuts_with_two_or_more_holes": st.conform_two_plus.load(Ordering::Relaxed),
    "judged_cuts_with_ellipsis": st.conform_ellipsis.load(Ordering::Relaxed),
    "per_language": per_lang,
  });
  rep.finish(
    "exploration",
    cov,
    vec![
      "cuts whose pattern does not parse to the node's shape are counted, not judged (the property's precondition)".into(),
      "hole bindings are compared by byte extent (several nodes may share one extent)".into(),
      "dev profile (debug assertions on), opt-level 1".into(),
    ],
  );
}
