//! C11 — no YAML makes ast-grep crash: bad config is an error, good config never panics.
//!
//! Bounded-exhaustive slot substitution (no sampling). Skeleton documents that use every section
//! of a rule file (S1) and of a global utility rule file (S2) x for EVERY slot (every node of the
//! document tree, scalar or collection) EVERY value of a typed nasty alphabet (+ per-slot valid
//! alternates, + for map slots an added key for every nasty string): all single substitutions,
//! all pairs inside the sections transform / nthChild / range / fix / rewriters (thorough: pairs
//! everywhere). Plus every reference cycle of length 1..3 among local utils, global utils, mixed,
//! transforms and rewriters, routed through every operator position; plus a list of raw texts.
//!
//! Every configuration the loader accepts is scanned over a bounded source set of its language.
//! Oracle: loading returns Ok or Err; neither loading nor scanning panics, aborts, overflows the
//! stack or hangs (10 s). A stack overflow aborts the process, so every case runs in a worker
//! CHILD process (re-exec with `--child`): the child reports the phase it enters on a pipe, the
//! parent attributes SIGSEGV/SIGABRT/timeout to the one case in flight, restarts the child and goes on.

use ast_grep_config::{from_str, from_yaml_string, DeserializeEnv, GlobalRules, RuleCollection, RuleConfig};
use ast_grep_core::replacer::Replacer;
use ast_grep_core::{AstGrep, Language};
use ast_grep_language::SupportLang;
use serde_json::{json, Value};
use std::collections::{BTreeMap, BTreeSet, HashMap, HashSet};
use std::io::{BufRead, BufReader, Read, Write};
use std::os::unix::process::ExitStatusExt;
use std::process::{Child, ChildStdin, ChildStdout, Command, Stdio};
use std::sync::atomic::{AtomicBool, AtomicU64, AtomicUsize, Ordering};
use std::sync::{Arc, Mutex};
use std::time::{Duration, Instant};
use vcore::gen;
use vcore::langs::spec;
use vcore::report::*;
use vcore::rules::D;

const HANG_MS: u64 = 20_000;
const SMALL_NODES: usize = 12;
const CHILD_STACK: usize = 8 << 20;

// =====================================================================================
// a YAML value that can hold scalars JSON cannot (1e999, .nan, 2^63); emitted as flow YAML
// =====================================================================================
#[derive(Clone, Debug, PartialEq)]
enum V {
  Raw(String), // plain scalar written verbatim: numbers, null, true, .nan
  S(String),   // string, written double-quoted (JSON escapes are YAML escapes)
  L(Vec<V>),
  M(Vec<(String, V)>),
}

impl V {
  fn from_json(j: &Value) -> V {
    match j {
      Value::Null => V::Raw("null".into()),
      Value::Bool(b) => V::Raw(b.to_string()),
      Value::Number(n) => V::Raw(n.to_string()),
      Value::String(s) => V::S(s.clone()),
      Value::Array(a) => V::L(a.iter().map(V::from_json).collect()),
      Value::Object(o) => V::M(o.iter().map(|(k, v)| (k.clone(), V::from_json(v))).collect()),
    }
  }
  fn emit(&self, out: &mut String) {
    match self {
      V::Raw(r) => out.push_str(r),
      V::S(s) => emit_str(s, out),
      V::L(l) => {
        out.push('[');
        for (i, v) in l.iter().enumerate() {
          if i > 0 {
            out.push_str(", ");
          }
          v.emit(out);
        }
        out.push(']');
      }
      V::M(m) => {
        out.push('{');
        for (i, (k, v)) in m.iter().enumerate() {
          if i > 0 {
            out.push_str(", ");
          }
          emit_str(k, out);
          out.push_str(": ");
          v.emit(out);
        }
        out.push('}');
      }
    }
  }
  fn text(&self) -> String {
    let mut s = String::new();
    self.emit(&mut s);
    s.push('\n');
    s
  }
  fn short(&self) -> String {
    let mut s = String::new();
    self.emit(&mut s);
    if s.chars().count() > 40 {
      let head: String = s.chars().take(24).collect();
      format!("{head}..({} chars)", s.chars().count())
    } else {
      s
    }
  }
  fn get(&self, k: &str) -> Option<&V> {
    match self {
      V::M(m) => m.iter().find(|(kk, _)| kk == k).map(|(_, v)| v),
      _ => None,
    }
  }
}

/// JSON string syntax (a subset of YAML's double-quoted scalar)
fn emit_str(s: &str, out: &mut String) {
  out.push('"');
  for c in s.chars() {
    match c {
      '"' => out.push_str("\\\""),
      '\\' => out.push_str("\\\\"),
      '\n' => out.push_str("\\n"),
      '\r' => out.push_str("\\r"),
      '\t' => out.push_str("\\t"),
      c if (c as u32) < 0x20 || c == '\u{feff}' => out.push_str(&format!("\\u{:04x}", c as u32)),
      c => out.push(c),
    }
  }
  out.push('"');
}

#[derive(Clone, Debug, PartialEq, Eq, PartialOrd, Ord)]
enum Seg {
  K(String),
  I(usize),
}
type Path = Vec<Seg>;

fn path_str(p: &Path) -> String {
  let mut s = String::new();
  for seg in p {
    s.push('/');
    match seg {
      Seg::K(k) => s.push_str(k),
      Seg::I(i) => s.push_str(&i.to_string()),
    }
  }
  s
}

fn all_paths(v: &V, cur: &mut Path, out: &mut Vec<Path>) {
  out.push(cur.clone());
  match v {
    V::L(l) => {
      for (i, c) in l.iter().enumerate() {
        cur.push(Seg::I(i));
        all_paths(c, cur, out);
        cur.pop();
      }
    }
    V::M(m) => {
      for (k, c) in m {
        cur.push(Seg::K(k.clone()));
        all_paths(c, cur, out);
        cur.pop();
      }
    }
    _ => {}
  }
}

fn at_mut<'a>(v: &'a mut V, p: &[Seg]) -> &'a mut V {
  let mut cur = v;
  for seg in p {
    cur = match (cur, seg) {
      (V::M(m), Seg::K(k)) => &mut m.iter_mut().find(|(kk, _)| kk == k).expect("path key").1,
      (V::L(l), Seg::I(i)) => &mut l[*i],
      _ => panic!("bad path"),
    };
  }
  cur
}

fn at<'a>(v: &'a V, p: &[Seg]) -> &'a V {
  let mut cur = v;
  for seg in p {
    cur = match (cur, seg) {
      (V::M(m), Seg::K(k)) => &m.iter().find(|(kk, _)| kk == k).expect("path key").1,
      (V::L(l), Seg::I(i)) => &l[*i],
      _ => panic!("bad path"),
    };
  }
  cur
}

fn is_prefix(a: &Path, b: &Path) -> bool {
  a.len() <= b.len() && a[..] == b[..a.len()]
}

// =====================================================================================
// the nasty alphabet
// =====================================================================================
fn nasty_strings() -> Vec<String> {
  let mut v: Vec<String> = [
    "", "$", "$$$", "$A", "$$$A", "é", "(", "[", "\\", "*", "a{", "(?P<", "99999999999", "99999999999n+1", "-n+", "n n", "2147483648",
  ]
  .iter()
  .map(|s| s.to_string())
  .collect();
  v.push("a".repeat(300));
  v.push("a\u{1}b".to_string());
  v
}
const NASTY_NUMBERS: &[&str] = &["0", "-1", "2147483648", "9223372036854775808", "1e999", ".nan", "-0"];
fn nasty_types() -> Vec<V> {
  vec![V::Raw("null".into()), V::L(vec![]), V::M(vec![]), V::Raw("true".into()), V::L(vec![V::L(vec![])])]
}
fn nasty_all() -> Vec<V> {
  let mut v: Vec<V> = nasty_strings().into_iter().map(V::S).collect();
  v.extend(NASTY_NUMBERS.iter().map(|n| V::Raw(n.to_string())));
  v.extend(nasty_types());
  v
}
/// the reduced alphabet used where the full one squared is too large (stated in the evidence)
fn nasty_reduced() -> Vec<V> {
  let mut v: Vec<V> = ["", "$A", "$$$A", "é", "(", "99999999999"].iter().map(|s| V::S(s.to_string())).collect();
  v.extend(["-1", "9223372036854775808", "null"].iter().map(|n| V::Raw(n.to_string())));
  v.push(V::L(vec![]));
  v
}

/// the smallest alphabet: thorough-tier pairs of two slots that do not share a section
fn nasty_mini() -> Vec<V> {
  let mut v: Vec<V> = ["", "$A", "é"].iter().map(|s| V::S(s.to_string())).collect();
  v.extend(["-1", "null"].iter().map(|n| V::Raw(n.to_string())));
  v.push(V::L(vec![]));
  v
}

/// valid alternates of a slot (the other documented forms / enum members / references)
fn alternates(skel: &str, p: &str) -> Vec<V> {
  let j = |v: Value| V::from_json(&v);
  let s = |x: &str| V::S(x.to_string());
  let r = |x: &str| V::Raw(x.to_string());
  let mut out = vec![];
  if p.ends_with("/source") {
    out.extend(["$$A", "$ARGS", "$$$ARGS", "$S", "$W"].iter().map(|x| s(x)));
  }
  if p.ends_with("/stopBy") {
    out.extend([s("end"), s("neighbor"), j(json!({"kind": "identifier"}))]);
  }
  if skel == "S1" && p == "/fix" {
    out.push(s("$C($S, $T)"));
  }
  if p == "/rewriters/0/fix" {
    out.push(j(json!({"template": "<$U>", "expandStart": {"regex": "^\\($", "stopBy": "end"}})));
    out.push(j(json!({"template": "<$U>", "expandEnd": {"regex": "^,$", "stopBy": "end"}})));
    out.push(j(json!({"template": "<$U>", "expandStart": {"kind": "identifier"}, "expandEnd": {"kind": "identifier"}})));
  }
  if p.ends_with("/toCase") {
    out.extend(["lowerCase", "upperCase", "capitalize", "snakeCase", "kebabCase", "pascalCase"].iter().map(|x| s(x)));
  }
  if p.ends_with("/separatedBy/0") {
    out.extend(["caseChange", "dash", "dot", "slash", "space"].iter().map(|x| s(x)));
  }
  if p == "/severity" {
    out.extend(["hint", "info", "error", "off"].iter().map(|x| s(x)));
  }
  if p == "/language" {
    out.extend(["TypeScript", "Python", "Html"].iter().map(|x| s(x)));
  }
  if p.ends_with("/strictness") {
    out.extend(["cst", "ast", "relaxed", "signature"].iter().map(|x| s(x)));
  }
  if p.ends_with("/reverse") {
    out.push(r("false"));
  }
  if p.ends_with("/field") {
    out.extend([s("function"), s("body")]);
  }
  if p.ends_with("/kind") {
    out.extend([s("program"), s("ERROR"), s("(")]);
  }
  if p.ends_with("/startChar") || p.ends_with("/endChar") {
    out.extend([r("-2147483648"), r("2147483647"), r("-300"), r("300")]);
  }
  if p.ends_with("/line") || p.ends_with("/column") {
    out.extend([r("1"), r("18446744073709551615")]);
  }
  if p.ends_with("/position") {
    out.extend([r("0"), s("odd"), s("-2n+3")]);
    // extreme coefficients that still fit an i32: the index test must not overflow on them
    out.extend([s("-n-2147483647"), s("2n-2147483647"), s("n-2147483646"), s("-2147483647n+2147483647")]);
  }
  if p.ends_with("/joinBy") {
    out.push(s("\n"));
  }
  out
}

// =====================================================================================
// skeletons
// =====================================================================================
fn skeleton_s1() -> V {
  V::from_json(&json!({
    "id": "s1",
    "language": "JavaScript",
    "rule": {
      "pattern": "$A",
      "kind": "identifier",
      "regex": "^a",
      "nthChild": 1,
      "range": {"start": {"line": 0, "column": 4}, "end": {"line": 0, "column": 7}},
      "all": [
        {"nthChild": "2n+1"},
        {"nthChild": {"position": "n+3", "ofRule": {"any": [{"kind": "identifier"}, {"kind": "number"}]}, "reverse": true}},
        {"matches": "u2"}
      ],
      "any": [{"kind": "number"}, {"kind": "identifier"}],
      "not": {"any": [{"has": {"kind": "number", "stopBy": {"kind": "string"}, "field": "object"}}, {"matches": "g0"}]},
      "matches": "u1",
      "inside": {
        "pattern": {"context": "foo($$$ARGS)", "selector": "call_expression", "strictness": "smart"},
        "has": {"kind": "identifier", "field": "function", "stopBy": "neighbor"},
        "stopBy": "end",
        "field": "arguments"
      },
      "precedes": {"kind": "number", "stopBy": {"kind": "identifier"}},
      "follows": {"regex": "^\\($", "stopBy": "neighbor"}
    },
    "constraints": {"A": {"regex": "^a_", "not": {"kind": "number"}}},
    "utils": {
      "u1": {"kind": "identifier"},
      "u2": {"any": [{"matches": "u1"}, {"kind": "string"}]},
      "u3": {"inside": {"kind": "arguments", "stopBy": "end"}}
    },
    "transform": {
      "S": {"substring": {"source": "$A", "startChar": 1, "endChar": -1}},
      "T": {"substring": {"source": "$S", "startChar": 0}},
      "R": {"replace": {"source": "$A", "replace": "_(?P<x>[a-z])", "by": "-$x"}},
      "C": {"convert": {"source": "$A", "toCase": "camelCase", "separatedBy": ["underscore"]}},
      "W": {"rewrite": {"source": "$$$ARGS", "rewriters": ["r1", "r2"], "joinBy": "+"}},
      "X": {"rewrite": {"source": "$A", "rewriters": ["r1"]}}
    },
    "rewriters": [
      {"id": "r1", "rule": {"kind": "identifier", "pattern": "$I"}, "constraints": {"I": {"regex": "."}},
       "transform": {"U": {"convert": {"source": "$I", "toCase": "upperCase"}}}, "fix": "<$U>"},
      {"id": "r2", "rule": {"kind": "number", "pattern": "$N"}, "utils": {"ru": {"kind": "number"}}, "fix": "[$N$A]"}
    ],
    "fix": {
      "template": "$C($S, $T, $R, $W, $X)",
      "expandStart": {"regex": "^\\($", "stopBy": {"kind": "identifier"}},
      "expandEnd": {"regex": "^,$", "stopBy": "neighbor"}
    },
    "message": "found $A: $S $R $C $W",
    "note": "note $A",
    "severity": "warning",
    "files": ["**/*.js", "src/**"],
    "ignores": ["**/node_modules/**"],
    "url": "https://example.com/s1",
    "metadata": {"owner": "x", "tags": ["a", 1], "nested": {"k": null}}
  }))
}

/// the fixed global utility rule that S1 references (`matches: g0`)
fn global_g0() -> String {
  V::from_json(&json!({"id": "g0", "language": "JavaScript", "rule": {"kind": "number"}})).text()
}

fn skeleton_s2() -> V {
  V::from_json(&json!({
    "id": "g1",
    "language": "JavaScript",
    "rule": {
      "kind": "identifier",
      "pattern": "$G",
      "inside": {"kind": "arguments", "stopBy": "end"},
      "nthChild": {"position": 1, "ofRule": {"matches": "gl"}},
      "matches": "gl"
    },
    "constraints": {"G": {"regex": "^a"}},
    "utils": {"gl": {"any": [{"kind": "identifier"}, {"kind": "number"}]}},
    "transform": {"H": {"substring": {"source": "$G", "startChar": 1}}, "J": {"replace": {"source": "$H", "replace": "b", "by": "c"}}},
    "fix": "$H$J"
  }))
}

/// S2 companions: a second global that uses the first, and the user rule that uses both
fn s2_companions(first_id: &str) -> (String, String) {
  let g2 = V::from_json(&json!({"id": "g2", "language": "JavaScript", "rule": {"any": [{"matches": first_id}, {"kind": "number"}]}})).text();
  let user = V::from_json(&json!({
    "id": "user", "language": "JavaScript",
    "rule": {"any": [{"kind": "identifier"}, {"kind": "number"}], "all": [{"any": [{"matches": first_id}, {"matches": "g2"}]}]},
    "message": "m"
  }))
  .text();
  (g2, user)
}

// =====================================================================================
// cases
// =====================================================================================
#[derive(Clone, Debug)]
enum Op {
  Set(V),
  AddKey(String),
}

#[derive(Clone, Debug)]
enum Spec {
  Base(&'static str),
  /// op = index into the slot's full alphabet
  Single { sk: &'static str, slot: u32, op: u32 },
  /// opa / opb = index into the slot's alphabet `table`: 0 full, 1 reduced, 2 mini
  Pair { sk: &'static str, section: u32, table: u8, a: u32, opa: u32, b: u32, opb: u32 },
  Cycle(CycleSpec),
  TransformCycle(Vec<usize>),
  RewriterCycle(Vec<usize>),
  Raw(usize),
}

#[derive(Clone, Debug)]
struct CycleSpec {
  entry: usize,       // index into entries()
  edges: Vec<usize>,  // edge type of node i -> node i+1 (mod len)
  global: Vec<bool>,  // node i is a global utility rule
}

#[derive(Clone, Debug)]
struct Case {
  family: String,
  desc: String,
  route: String, // for crash signatures: operator path of a cycle, or the section of a substitution
  globals: Vec<String>,
  rule: Option<String>,
  values: Vec<String>, // substituted string values (removed from panic messages in signatures)
}

impl Case {
  fn json(&self) -> Value {
    json!({"layer": "lib", "family": self.family, "desc": self.desc, "route": self.route, "globals": self.globals, "rule": self.rule, "values": self.values})
  }
  fn from_json(v: &Value) -> Option<Case> {
    Some(Case {
      family: v["family"].as_str()?.to_string(),
      desc: v["desc"].as_str().unwrap_or("").to_string(),
      route: v["route"].as_str().unwrap_or("").to_string(),
      globals: v["globals"].as_array()?.iter().filter_map(|x| x.as_str().map(|s| s.to_string())).collect(),
      rule: v["rule"].as_str().map(|s| s.to_string()),
      values: v["values"].as_array().map(|a| a.iter().filter_map(|x| x.as_str().map(|s| s.to_string())).collect()).unwrap_or_default(),
    })
  }
  fn wire(&self) -> String {
    // reference cycles and nested raw rules are scanned over the small sources only (<= SMALL_NODES
    // nodes): a well-founded recursive rule may need time exponential in the tree size, which is
    // not a failure to terminate
    let small = self.family.starts_with("cycle:") || self.family == "raw";
    // thorough tier: the longer token strings (length 3) are visited by every family except the
    // pair substitutions, whose accepted configurations are too many (about 10^5)
    let deep = !self.family.ends_with(":pair");
    json!({"globals": self.globals, "rule": self.rule, "small": small, "deep": deep}).to_string()
  }
}

struct Skel {
  name: &'static str,
  doc: V,
  paths: Vec<Path>,
  ops: Vec<Vec<Op>>,         // full alphabet per slot
  ops_reduced: Vec<Vec<Op>>, // reduced alphabet per slot
  ops_mini: Vec<Vec<Op>>,    // mini alphabet per slot
}

impl Skel {
  fn new(name: &'static str, doc: V) -> Skel {
    let mut paths = vec![];
    all_paths(&doc, &mut vec![], &mut paths);
    let full = nasty_all();
    let reduced = nasty_reduced();
    let strings = nasty_strings();
    let mini = nasty_mini();
    let mut ops = vec![];
    let mut ops_reduced = vec![];
    let mut ops_mini = vec![];
    for p in &paths {
      let cur = at(&doc, p);
      let ps = path_str(p);
      let alts = alternates(name, &ps);
      let mut o: Vec<Op> = full.iter().chain(alts.iter()).filter(|v| *v != cur).cloned().map(Op::Set).collect();
      let mut r: Vec<Op> = reduced.iter().chain(alts.iter()).filter(|v| *v != cur).cloned().map(Op::Set).collect();
      if let V::M(m) = cur {
        if !m.is_empty() {
          for s in &strings {
            if m.iter().all(|(k, _)| k != s) {
              o.push(Op::AddKey(s.clone()));
            }
          }
          for s in ["", "$A", "é"] {
            r.push(Op::AddKey(s.to_string()));
          }
        }
      }
      let mut m: Vec<Op> = mini.iter().chain(alts.iter()).filter(|v| *v != cur).cloned().map(Op::Set).collect();
      if matches!(cur, V::M(mm) if !mm.is_empty()) {
        m.push(Op::AddKey("é".to_string()));
      }
      ops.push(o);
      ops_reduced.push(r);
      ops_mini.push(m);
    }
    Skel { name, doc, paths, ops, ops_reduced, ops_mini }
  }

  fn apply(&self, doc: &mut V, slot: usize, op: &Op, values: &mut Vec<String>) -> String {
    let p = &self.paths[slot];
    match op {
      Op::Set(v) => {
        if let V::S(s) | V::Raw(s) = v {
          values.push(s.clone());
        }
        *at_mut(doc, p) = v.clone();
        format!("{} := {}", path_str(p), v.short())
      }
      Op::AddKey(k) => {
        values.push(k.clone());
        if let V::M(m) = at_mut(doc, p) {
          let val = m[0].1.clone();
          m.push((k.clone(), val));
        }
        format!("{} += key {}", path_str(p), V::S(k.clone()).short())
      }
    }
  }

  /// slots of the subtree rooted at `root` (excluding the root itself)
  fn section_slots(&self, root: &Path) -> Vec<usize> {
    (0..self.paths.len()).filter(|&i| self.paths[i].len() > root.len() && is_prefix(root, &self.paths[i])).collect()
  }

  fn wrap(&self, doc: &V) -> (Vec<String>, Option<String>) {
    match self.name {
      "S1" => (vec![global_g0()], Some(doc.text())),
      _ => {
        let id = match doc.get("id") {
          Some(V::S(s)) => s.clone(),
          _ => "g1".to_string(),
        };
        let (g2, user) = s2_companions(&id);
        (vec![doc.text(), g2], Some(user))
      }
    }
  }
}

const KINDS: &[&str] = &["program", "expression_statement", "call_expression", "arguments", "identifier", "number"];

fn kinds_any() -> Value {
  Value::Array(KINDS.iter().map(|k| json!({"kind": k})).collect())
}

/// the operator positions a reference can be routed through (edge of a cycle): name, builder
fn edges(thorough: bool) -> Vec<(&'static str, fn(&str) -> Value)> {
  let mut v: Vec<(&'static str, fn(&str) -> Value)> = vec![
    ("matches", |t| json!({"matches": t})),
    ("all", |t| json!({"all": [{"matches": t}]})),
    ("any", |t| json!({"any": [{"matches": t}]})),
    ("not", |t| json!({"not": {"matches": t}})),
    ("inside", |t| json!({"inside": {"matches": t, "stopBy": "end"}})),
    ("has", |t| json!({"has": {"matches": t, "stopBy": "end"}})),
    ("precedes", |t| json!({"precedes": {"matches": t, "stopBy": "end"}})),
    ("follows", |t| json!({"follows": {"matches": t, "stopBy": "end"}})),
    ("inside.stopBy", |t| json!({"inside": {"kind": "program", "stopBy": {"matches": t}}})),
    ("has.stopBy", |t| json!({"has": {"kind": "number", "stopBy": {"matches": t}}})),
    ("precedes.stopBy", |t| json!({"precedes": {"kind": "number", "stopBy": {"matches": t}}})),
    ("follows.stopBy", |t| json!({"follows": {"kind": "number", "stopBy": {"matches": t}}})),
    ("nthChild.ofRule", |t| json!({"nthChild": {"position": 1, "ofRule": {"matches": t}}})),
  ];
  if thorough {
    v.push(("inside.neighbor", |t| json!({"inside": {"matches": t}})));
    v.push(("has.neighbor", |t| json!({"has": {"matches": t}})));
    v.push(("precedes.neighbor", |t| json!({"precedes": {"matches": t}})));
    v.push(("follows.neighbor", |t| json!({"follows": {"matches": t}})));
    v.push(("has.field", |t| json!({"has": {"matches": t, "field": "arguments", "stopBy": "end"}})));
    v.push(("inside.field", |t| json!({"inside": {"matches": t, "field": "arguments", "stopBy": "end"}})));
  }
  v
}
/// pseudo edge available only where a rule core exists (global utility rules): constraints
const EDGE_CONSTRAINTS: usize = 1000;

fn edge_name(e: usize, thorough: bool) -> String {
  if e == EDGE_CONSTRAINTS {
    "constraints".to_string()
  } else {
    edges(thorough)[e].0.to_string()
  }
}

/// entry positions from the main rule into the cycle: every edge, constraints, fix expansion, rewriter rule
fn entry_count(thorough: bool) -> usize {
  edges(thorough).len() + 4
}
fn entry_name(i: usize, thorough: bool) -> String {
  let n = edges(thorough).len();
  if i < n {
    edges(thorough)[i].0.to_string()
  } else {
    ["constraints", "fix.expandStart", "fix.expandEnd", "rewriter.rule"][i - n].to_string()
  }
}

fn main_rule_for_entry(entry: usize, target: &str, thorough: bool) -> Value {
  let es = edges(thorough);
  let n = es.len();
  if entry < n {
    json!({"id": "main", "language": "JavaScript", "message": "m $V",
           "rule": {"all": [{"any": kinds_any()}, (es[entry].1)(target)]}})
  } else {
    match entry - n {
      0 => json!({"id": "main", "language": "JavaScript", "message": "m $V",
                  "rule": {"any": kinds_any(), "pattern": "$V"}, "constraints": {"V": {"matches": target}}}),
      1 => json!({"id": "main", "language": "JavaScript", "rule": {"any": kinds_any()},
                  "fix": {"template": "x", "expandStart": {"matches": target, "stopBy": "end"}}}),
      2 => json!({"id": "main", "language": "JavaScript", "rule": {"any": kinds_any()},
                  "fix": {"template": "x", "expandEnd": {"matches": target, "stopBy": "end"}}}),
      _ => json!({"id": "main", "language": "JavaScript", "rule": {"any": kinds_any(), "pattern": "$V"},
                  "transform": {"Y": {"rewrite": {"source": "$V", "rewriters": ["rw"]}}},
                  "rewriters": [{"id": "rw", "rule": {"all": [{"any": kinds_any()}, {"matches": target}]}, "fix": "y"}],
                  "fix": "$Y"}),
    }
  }
}

fn merge_obj(mut a: Value, b: Value) -> Value {
  if let (Some(ao), Some(bo)) = (a.as_object_mut(), b.as_object()) {
    for (k, v) in bo {
      ao.insert(k.clone(), v.clone());
    }
  }
  a
}

fn canonical_rotation(items: &[String]) -> Vec<String> {
  let n = items.len();
  (0..n).map(|r| (0..n).map(|i| items[(i + r) % n].clone()).collect::<Vec<_>>()).min().unwrap_or_default()
}

fn build_cycle(c: &CycleSpec, thorough: bool) -> Case {
  let es = edges(thorough);
  let len = c.edges.len();
  let name = |i: usize| format!("{}{}", if c.global[i % len] { "g" } else { "u" }, i % len);
  let mut utils = serde_json::Map::new();
  let mut globals = vec![];
  let mut parts = vec![];
  for i in 0..len {
    let target = name(i + 1);
    let e = c.edges[i];
    parts.push(format!("{}{}", if c.global[i] { "G:" } else { "" }, edge_name(e, thorough)));
    if c.global[i] {
      let core = if e == EDGE_CONSTRAINTS {
        json!({"rule": {"any": kinds_any(), "pattern": "$Q"}, "constraints": {"Q": {"matches": target}}})
      } else {
        json!({"rule": (es[e].1)(&target)})
      };
      globals.push(V::from_json(&merge_obj(json!({"id": name(i), "language": "JavaScript"}), core)).text());
    } else {
      utils.insert(name(i), (es[e].1)(&target));
    }
  }
  let mut main = main_rule_for_entry(c.entry, &name(0), thorough);
  if !utils.is_empty() {
    main["utils"] = Value::Object(utils);
  }
  // the loader's cycle detection is written for references through matches / all / any / not; a
  // cycle made only of those is a different defect class from one through any other position
  let composite_only = c.edges.iter().all(|e| *e < 4);
  let route = format!("{}:{}", if composite_only { "cycle-composite-only" } else { "cycle-via-other-operator" }, canonical_rotation(&parts).join(">"));
  let all_local = c.global.iter().all(|g| !g);
  let all_global = c.global.iter().all(|g| *g);
  Case {
    family: format!("cycle:{}:len{}", if all_local { "utils" } else if all_global { "globals" } else { "mixed" }, len),
    desc: format!("entry {} -> cycle {}", entry_name(c.entry, thorough), parts.join(">")),
    route,
    globals,
    rule: Some(V::from_json(&main).text()),
    values: vec![],
  }
}

const TRANS_KINDS: &[&str] = &["substring", "replace", "convert", "rewrite"];
fn build_transform_cycle(kinds: &[usize]) -> Case {
  let len = kinds.len();
  let mut t = serde_json::Map::new();
  for (i, k) in kinds.iter().enumerate() {
    let src = format!("$T{}", (i + 1) % len);
    let body = match TRANS_KINDS[*k] {
      "substring" => json!({"substring": {"source": src, "startChar": 0}}),
      "replace" => json!({"replace": {"source": src, "replace": "a", "by": "b"}}),
      "convert" => json!({"convert": {"source": src, "toCase": "upperCase"}}),
      _ => json!({"rewrite": {"source": src, "rewriters": []}}),
    };
    t.insert(format!("T{i}"), body);
  }
  let main = json!({"id": "main", "language": "JavaScript", "rule": {"kind": "identifier", "pattern": "$A"},
                    "transform": Value::Object(t), "message": "m $T0", "fix": "$T0"});
  let parts: Vec<String> = kinds.iter().map(|k| TRANS_KINDS[*k].to_string()).collect();
  Case {
    family: format!("cycle:transform:len{len}"),
    desc: format!("transform cycle {}", parts.join(">")),
    route: format!("cycle-transform:{}", canonical_rotation(&parts).join(">")),
    globals: vec![],
    rule: Some(V::from_json(&main).text()),
    values: vec![],
  }
}

const RW_VARIANTS: &[&str] = &["whole-node", "argument", "all-arguments"];
fn build_rewriter_cycle(variants: &[usize]) -> Case {
  let len = variants.len();
  let mut rws = vec![];
  for (i, v) in variants.iter().enumerate() {
    let next = format!("r{}", (i + 1) % len);
    let (rule, src) = match RW_VARIANTS[*v] {
      "whole-node" => (json!({"any": kinds_any(), "pattern": "$V"}), "$V"),
      "argument" => (json!({"kind": "call_expression", "pattern": "$F($V)"}), "$V"),
      _ => (json!({"kind": "call_expression", "pattern": "$F($$$V)"}), "$$$V"),
    };
    rws.push(json!({"id": format!("r{i}"), "rule": rule,
                    "transform": {"X": {"rewrite": {"source": src, "rewriters": [next]}}}, "fix": "<$X>"}));
  }
  let main = json!({"id": "main", "language": "JavaScript", "rule": {"any": kinds_any(), "pattern": "$M"},
                    "transform": {"Y": {"rewrite": {"source": "$M", "rewriters": ["r0"]}}},
                    "rewriters": rws, "message": "m $Y", "fix": "$Y"});
  let parts: Vec<String> = variants.iter().map(|k| RW_VARIANTS[*k].to_string()).collect();
  Case {
    family: format!("cycle:rewriters:len{len}"),
    desc: format!("rewriter cycle {}", parts.join(">")),
    route: format!("cycle-rewriters:{}", canonical_rotation(&parts).join(">")),
    globals: vec![],
    rule: Some(V::from_json(&main).text()),
    values: vec![],
  }
}

/// raw texts: not produced by substitution (malformed YAML, aliases, deep nesting, many documents)
fn raw_texts(thorough: bool) -> Vec<(String, String)> {
  let mut v: Vec<(String, String)> = vec![
    ("empty".into(), "".into()),
    ("only-newline".into(), "\n".into()),
    ("only-separator".into(), "---\n".into()),
    ("open-brace".into(), "{".into()),
    ("open-bracket".into(), "[".into()),
    ("tab-indent".into(), "id: a\n\tlanguage: JavaScript\n".into()),
    ("bare-scalar".into(), "x".into()),
    ("bad-escape".into(), "id: \"\\q\"\n".into()),
    ("unterminated-string".into(), "id: \"abc\n".into()),
    ("duplicate-keys".into(), "id: a\nid: b\nlanguage: JavaScript\nrule: {kind: identifier}\n".into()),
    ("alias-self".into(), "id: a\nlanguage: JavaScript\nrule: &r {all: [*r]}\n".into()),
    ("alias-undefined".into(), "id: a\nlanguage: JavaScript\nrule: *nope\n".into()),
    ("merge-key".into(), "base: &b {kind: identifier}\nid: a\nlanguage: JavaScript\nrule: {<<: *b}\n".into()),
    ("tagged".into(), "id: !!binary aGk=\nlanguage: JavaScript\nrule: {kind: identifier}\n".into()),
    ("tag-enum".into(), "id: a\nlanguage: JavaScript\nrule: {kind: identifier}\nfix: !Str x\n".into()),
    ("two-docs-second-bad".into(), "id: a\nlanguage: JavaScript\nrule: {kind: identifier}\n---\nid: b\n".into()),
    ("two-docs-same-id".into(), "id: a\nlanguage: JavaScript\nrule: {kind: identifier}\n---\nid: a\nlanguage: JavaScript\nrule: {kind: number}\n".into()),
    ("empty-second-doc".into(), "id: a\nlanguage: JavaScript\nrule: {kind: identifier}\n---\n".into()),
    ("bom".into(), "\u{feff}id: a\nlanguage: JavaScript\nrule: {kind: identifier}\n".into()),
    ("crlf".into(), "id: a\r\nlanguage: JavaScript\r\nrule: {kind: identifier}\r\n".into()),
    ("key-is-map".into(), "{a: b}: c\n".into()),
    ("yaml-billion-laughs".into(), {
      let mut s = String::from("a0: &a0 [x, x, x, x, x, x, x, x, x]\n");
      for i in 1..10 {
        s.push_str(&format!("a{i}: &a{i} [*a{p}, *a{p}, *a{p}, *a{p}, *a{p}, *a{p}, *a{p}, *a{p}, *a{p}]\n", p = i - 1));
      }
      s.push_str("id: a\nlanguage: JavaScript\nrule: {kind: identifier}\nmetadata: {k: *a9}\n");
      s
    }),
  ];
  // (name, opening text, closing text, innermost rule)
  let ops: Vec<(&str, &str, &str, &str)> = vec![
    ("not", "{not: ", "}", "{kind: number}"),
    ("all", "{all: [", "]}", "{kind: identifier}"),
    ("any", "{any: [", "]}", "{kind: identifier}"),
    ("inside", "{inside: ", "}", "{kind: program, stopBy: end}"),
    ("has", "{has: ", "}", "{kind: identifier, stopBy: end}"),
    ("follows", "{follows: ", "}", "{kind: identifier, stopBy: end}"),
    ("stopBy", "{inside: {kind: program, stopBy: ", "}}", "{kind: program}"),
    ("ofRule", "{nthChild: {position: 1, ofRule: ", "}}", "{kind: identifier}"),
  ];
  // deeper than 10^4 is kept out: serde_yaml needs ~100 s (quadratic) to refuse a 10^5-deep flow
  // document with "recursion limit exceeded" - slow, but it terminates with an error
  let depths: &[usize] = if thorough { &[10, 50, 100, 127, 128, 1000, 10000] } else { &[10, 50, 100, 128, 1000, 10000] };
  for (name, open, close, leaf) in &ops {
    for &d in depths {
      // k nested ofRule levels cost (number of siblings)^k evaluations: finite but far beyond the
      // hang limit from k ~ 20 on; depths that the YAML recursion limit rejects are kept
      if *name == "ofRule" && d > 10 && d < 1000 {
        continue;
      }
      let x = format!("{}{}{}", open.repeat(d), leaf, close.repeat(d));
      v.push((format!("nest:{name}:{d}"), format!("id: a\nlanguage: JavaScript\nrule: {{kind: identifier, all: [{x}]}}\n")));
    }
  }
  // a chain of utils, each using the next (no cycle), long enough to be a deep recursion
  for &d in depths.iter().filter(|d| **d <= 1000) {
    let mut utils = String::new();
    for i in 0..d {
      utils.push_str(&format!("  u{i}: {{matches: u{}}}\n", i + 1));
    }
    utils.push_str(&format!("  u{d}: {{kind: identifier}}\n"));
    v.push((format!("util-chain:{d}"), format!("id: a\nlanguage: JavaScript\nrule: {{matches: u0}}\nutils:\n{utils}")));
  }
  // many transforms in a dependency chain
  for &d in depths.iter().filter(|d| **d <= 1000) {
    let mut t = String::from("  T0: {substring: {source: $A}}\n");
    for i in 1..=d {
      t.push_str(&format!("  T{i}: {{substring: {{source: $T{}}}}}\n", i - 1));
    }
    v.push((format!("transform-chain:{d}"), format!("id: a\nlanguage: JavaScript\nrule: {{kind: identifier, pattern: $A}}\ntransform:\n{t}fix: $T{d}\n")));
  }
  v
}

struct Space {
  thorough: bool,
  skels: Vec<Skel>,
  raws: Vec<(String, String)>,
  specs: Vec<Spec>,
  dims: BTreeMap<String, u64>,
  sections: Vec<String>,
}

fn section_roots(sk: &Skel) -> Vec<(String, Path)> {
  // the sections whose pairs are enumerated with the FULL alphabet
  let mut out = vec![];
  for p in &sk.paths {
    let last = match p.last() {
      Some(Seg::K(k)) => k.as_str(),
      _ => continue,
    };
    let top = p.len() == 1;
    let take = match last {
      "transform" | "fix" | "rewriters" => top,
      "nthChild" | "range" => true,
      _ => false,
    };
    if take && matches!(at(&sk.doc, p), V::M(_) | V::L(_)) {
      out.push((path_str(p), p.clone()));
    }
  }
  out
}

fn build_space(thorough: bool) -> Space {
  let skels = vec![Skel::new("S1", skeleton_s1()), Skel::new("S2", skeleton_s2())];
  let mut specs = vec![];
  let mut sections: Vec<String> = vec!["(anywhere)".to_string()];
  let mut dims: BTreeMap<String, u64> = BTreeMap::new();
  let mut bump = |k: String, n: u64| *dims.entry(k).or_insert(0) += n;
  for sk in &skels {
    specs.push(Spec::Base(sk.name));
    bump(format!("{}:slots", sk.name), sk.paths.len() as u64);
    // singles
    for slot in 0..sk.paths.len() {
      for op in 0..sk.ops[slot].len() {
        specs.push(Spec::Single { sk: sk.name, slot: slot as u32, op: op as u32 });
        bump(format!("{}:single", sk.name), 1);
      }
    }
    // pairs inside the listed sections (quick: reduced alphabet + alternates; thorough: full alphabet)
    let mut covered: HashSet<(usize, usize)> = HashSet::new();
    for (sname, root) in section_roots(sk) {
      let slots = sk.section_slots(&root);
      let use_full = thorough;
      for (ia, &a) in slots.iter().enumerate() {
        for &b in &slots[ia + 1..] {
          if is_prefix(&sk.paths[a], &sk.paths[b]) || is_prefix(&sk.paths[b], &sk.paths[a]) {
            continue;
          }
          covered.insert((a, b));
          let (na, nb) = if use_full { (sk.ops[a].len(), sk.ops[b].len()) } else { (sk.ops_reduced[a].len(), sk.ops_reduced[b].len()) };
          let sec = sections.iter().position(|x| *x == sname).unwrap_or_else(|| {
            sections.push(sname.clone());
            sections.len() - 1
          }) as u32;
          for opa in 0..na {
            for opb in 0..nb {
              specs.push(Spec::Pair { sk: sk.name, section: sec, table: if use_full { 0 } else { 1 }, a: a as u32, opa: opa as u32, b: b as u32, opb: opb as u32 });
            }
          }
          bump(format!("{}:pair:{}{}", sk.name, sname, if use_full { "" } else { " (reduced alphabet)" }), (na * nb) as u64);
        }
      }
    }
    // thorough: pairs everywhere (all other non-nested slot pairs of the document), mini alphabet
    if thorough {
      for a in 0..sk.paths.len() {
        for b in a + 1..sk.paths.len() {
          if covered.contains(&(a, b)) || is_prefix(&sk.paths[a], &sk.paths[b]) || is_prefix(&sk.paths[b], &sk.paths[a]) {
            continue;
          }
          let (na, nb) = (sk.ops_mini[a].len(), sk.ops_mini[b].len());
          for opa in 0..na {
            for opb in 0..nb {
              specs.push(Spec::Pair { sk: sk.name, section: 0, table: 2, a: a as u32, opa: opa as u32, b: b as u32, opb: opb as u32 });
            }
          }
          bump(format!("{}:pair:anywhere (mini alphabet)", sk.name), (na * nb) as u64);
        }
      }
    }
  }
  // cycles
  let ne = edges(thorough).len();
  let nentry = entry_count(thorough);
  let direct = 0usize; // entry `matches`
  for len in 1..=3usize {
    // node kinds: all local, all global, and (len >= 2) every mixed assignment
    let assignments: Vec<Vec<bool>> = (0..(1u32 << len)).map(|m| (0..len).map(|i| m >> i & 1 == 1).collect()).collect();
    for global in assignments {
      let all_local = global.iter().all(|g| !g);
      let all_global = global.iter().all(|g| *g);
      if len == 3 && !(all_local || all_global) && !thorough {
        continue; // quick: mixed cycles up to length 2
      }
      // edge alphabets per node: globals additionally have the constraints position
      let alph: Vec<Vec<usize>> = global.iter().map(|g| if *g { (0..ne).chain([EDGE_CONSTRAINTS]).collect() } else { (0..ne).collect() }).collect();
      let total: usize = alph.iter().map(|a| a.len()).product();
      for mut idx in 0..total {
        let mut es = vec![];
        for a in &alph {
          es.push(a[idx % a.len()]);
          idx /= a.len();
        }
        let entries: Vec<usize> = if len <= 2 && (all_local || all_global) || thorough && len <= 2 { (0..nentry).collect() } else { vec![direct] };
        for entry in entries {
          specs.push(Spec::Cycle(CycleSpec { entry, edges: es.clone(), global: global.clone() }));
          bump(format!("cycle:{}:len{}", if all_local { "utils" } else if all_global { "globals" } else { "mixed" }, len), 1);
        }
      }
    }
    let nt = TRANS_KINDS.len();
    for idx in 0..nt.pow(len as u32) {
      let ks: Vec<usize> = (0..len).map(|i| idx / nt.pow(i as u32) % nt).collect();
      specs.push(Spec::TransformCycle(ks));
      bump(format!("cycle:transform:len{len}"), 1);
    }
    let nr = RW_VARIANTS.len();
    for idx in 0..nr.pow(len as u32) {
      let ks: Vec<usize> = (0..len).map(|i| idx / nr.pow(i as u32) % nr).collect();
      specs.push(Spec::RewriterCycle(ks));
      bump(format!("cycle:rewriters:len{len}"), 1);
    }
  }
  let raws = raw_texts(thorough);
  for i in 0..raws.len() {
    specs.push(Spec::Raw(i));
    bump("raw".into(), 1);
  }
  Space { thorough, skels, raws, specs, dims, sections }
}

impl Space {
  fn skel(&self, name: &str) -> &Skel {
    self.skels.iter().find(|s| s.name == name).unwrap()
  }
  fn materialise(&self, i: usize) -> Case {
    match &self.specs[i] {
      Spec::Base(name) => {
        let sk = self.skel(name);
        let (globals, rule) = sk.wrap(&sk.doc);
        Case { family: format!("{name}:base"), desc: "unchanged skeleton".into(), route: "subst:none".into(), globals, rule, values: vec![] }
      }
      Spec::Single { sk, slot, op } => {
        let sk = self.skel(sk);
        let mut doc = sk.doc.clone();
        let mut values = vec![];
        let slot = *slot as usize;
        let desc = sk.apply(&mut doc, slot, &sk.ops[slot][*op as usize], &mut values);
        let (globals, rule) = sk.wrap(&doc);
        Case { family: format!("{}:single", sk.name), desc, route: format!("subst:{}", top_section(&sk.paths[slot])), globals, rule, values }
      }
      Spec::Pair { sk, section, table, a, opa, b, opb } => {
        let sk = self.skel(sk);
        let mut doc = sk.doc.clone();
        let mut values = vec![];
        let (a, b) = (*a as usize, *b as usize);
        let table = match *table {
          0 => &sk.ops,
          1 => &sk.ops_reduced,
          _ => &sk.ops_mini,
        };
        let section = &self.sections[*section as usize];
        let d1 = sk.apply(&mut doc, a, &table[a][*opa as usize], &mut values);
        let d2 = sk.apply(&mut doc, b, &table[b][*opb as usize], &mut values);
        let (globals, rule) = sk.wrap(&doc);
        Case { family: format!("{}:pair", sk.name), desc: format!("{d1} ; {d2}"), route: format!("subst:{}", section.trim_start_matches('/')), globals, rule, values }
      }
      Spec::Cycle(c) => build_cycle(c, self.thorough),
      Spec::TransformCycle(k) => build_transform_cycle(k),
      Spec::RewriterCycle(k) => build_rewriter_cycle(k),
      Spec::Raw(i) => Case {
        family: "raw".into(),
        desc: self.raws[*i].0.clone(),
        route: format!("raw:{}", self.raws[*i].0.split(':').take(2).collect::<Vec<_>>().join(":")),
        globals: vec![],
        rule: Some(self.raws[*i].1.clone()),
        values: vec![],
      },
    }
  }
}

fn top_section(p: &Path) -> String {
  match p.first() {
    Some(Seg::K(k)) => k.clone(),
    _ => "(root)".into(),
  }
}

// =====================================================================================
// the child: runs cases handed over on stdin, reports on stdout
// =====================================================================================
fn error_chain(e: &dyn std::error::Error) -> String {
  let mut s = e.to_string();
  let mut cur = e.source();
  while let Some(c) = cur {
    s.push_str(" | ");
    s.push_str(&c.to_string());
    cur = c.source();
  }
  s
}

const CRAFTED_JS: &[&str] = &[
  "foo(a_b, 1, c)",
  "foo(a_b, 1, c);\nbar(a_b)\n",
  "foo(a_b)",
  "x = foo(a_é, 'é', 1, a_b)",
  "foo(bar(baz(1, a_b), a_b), a_b, 2)",
  "foo(a_b, 1, c",
  "a_b",
  "",
  // case changes around multi-byte letters (word splitting of `convert`), multi-byte at the end
  "foo(a_bÉcДд, 1, c)",
  "foo(a_приветМир, xÉ, ÉÉx)",
];

struct Sources {
  g0: Option<GlobalRules<SupportLang>>,
  thorough: bool,
  cache: HashMap<(SupportLang, bool), Vec<(AstGrep<D>, bool)>>,
}
impl Sources {
  fn get(&mut self, lang: SupportLang, deep: bool) -> &Vec<(AstGrep<D>, bool)> {
    let thorough = self.thorough && deep;
    self.cache.entry((lang, thorough)).or_insert_with(|| {
      let sp = spec(lang);
      let mut texts: Vec<String> = vec![];
      if lang == SupportLang::JavaScript || lang == SupportLang::TypeScript || lang == SupportLang::Tsx {
        texts.extend(CRAFTED_JS.iter().map(|s| s.to_string()));
      }
      texts.extend(sp.corpus.iter().map(|s| s.to_string()));
      texts.extend(gen::all(sp.tokens, if thorough { 3 } else { 2 }));
      texts
        .into_iter()
        .map(|t| {
          let g = lang.ast_grep(t);
          let small = g.root().dfs().count() <= SMALL_NODES;
          (g, small)
        })
        .collect()
    })
  }
}

fn load_globals(globals: &[String]) -> Result<GlobalRules<SupportLang>, String> {
  let mut utils = vec![];
  for g in globals {
    utils.push(from_str(g).map_err(|e| format!("global util yaml: {}", error_chain(&e)))?);
  }
  DeserializeEnv::<SupportLang>::parse_global_utils(utils).map_err(|e| format!("global utils: {}", error_chain(&e)))
}

fn load(globals: &[String], rule: &str, g0: &mut Option<GlobalRules<SupportLang>>) -> Result<RuleCollection<SupportLang>, String> {
  // the fixed global file of the S1 cases is parsed once per child (registrations are immutable after parsing)
  let globals: GlobalRules<SupportLang> = if globals.len() == 1 && globals[0] == global_g0() {
    if g0.is_none() {
      *g0 = Some(load_globals(globals)?);
    }
    g0.clone().unwrap()
  } else {
    load_globals(globals)?
  };
  let configs = from_yaml_string::<SupportLang>(rule, &globals).map_err(|e| format!("rule: {}", error_chain(&e)))?;
  RuleCollection::try_new(configs).map_err(|e| format!("glob: {}", error_chain(&e)))
}

fn scan_one(rule: &RuleConfig<SupportLang>, grep: &AstGrep<D>, step: &mut &'static str) -> (u64, u64) {
  let mut matches = 0;
  let mut edits = 0;
  *step = "find_all";
  let found: Vec<_> = grep.root().find_all(&rule.matcher).collect();
  for nm in found {
    matches += 1;
    *step = "get_message";
    let _ = rule.get_message(&nm);
    *step = "get_fixer";
    if let Ok(Some(fixer)) = rule.get_fixer() {
      *step = "make_edit";
      let e = nm.make_edit(&rule.matcher, &fixer);
      *step = "generate_replacement";
      let _ = fixer.generate_replacement(&nm);
      edits += 1;
      let _ = e;
    }
    if let Some(fixer) = &rule.matcher.fixer {
      *step = "make_edit(core fixer)";
      let _ = nm.make_edit(&rule.matcher, fixer);
    }
  }
  (matches, edits)
}

fn child_case(wire: &Value, sources: &mut Sources, idx: u64, out: &mut impl Write) {
  let globals: Vec<String> = wire["globals"].as_array().map(|a| a.iter().filter_map(|x| x.as_str().map(|s| s.to_string())).collect()).unwrap_or_default();
  let rule = wire["rule"].as_str().unwrap_or("").to_string();
  let small_only = wire["small"].as_bool().unwrap_or(false);
  let deep = wire["deep"].as_bool().unwrap_or(true);
  writeln!(out, "P {idx} load").ok();
  out.flush().ok();
  let mut g0 = sources.g0.take();
  let loaded = guarded(std::panic::AssertUnwindSafe(|| load(&globals, &rule, &mut g0)));
  sources.g0 = g0;
  let coll = match loaded {
    Err(p) => {
      writeln!(out, "R {idx} {}", json!({"load": "panic", "msg": p, "at": last_panic_loc()})).ok();
      out.flush().ok();
      return;
    }
    Ok(Err(e)) => {
      writeln!(out, "R {idx} {}", json!({"load": "err", "msg": e})).ok();
      out.flush().ok();
      return;
    }
    Ok(Ok(c)) => c,
  };
  writeln!(out, "P {idx} scan").ok();
  out.flush().ok();
  let mut rules = 0u64;
  let mut matches = 0u64;
  let mut edits = 0u64;
  let mut panics: Vec<Value> = vec![];
  let mut seen: HashSet<String> = HashSet::new();
  coll.for_each_rule(|rule| {
    rules += 1;
    let lang = rule.language;
    for (grep, is_small) in sources.get(lang, deep) {
      if small_only && !is_small {
        continue;
      }
      let mut step = "find_all";
      let r = guarded(std::panic::AssertUnwindSafe(|| scan_one(rule, grep, &mut step)));
      match r {
        Ok((m, e)) => {
          matches += m;
          edits += e;
        }
        Err(msg) => {
          let first = msg.lines().next().unwrap_or("").to_string();
          if seen.insert(format!("{step}|{first}")) && panics.len() < 8 {
            panics.push(json!({"step": step, "msg": msg, "at": last_panic_loc(), "source": grep.source().to_string()}));
          }
        }
      }
    }
  });
  writeln!(out, "R {idx} {}", json!({"load": "ok", "rules": rules, "matches": matches, "edits": edits, "scan_panics": panics})).ok();
  out.flush().ok();
}

fn child_main(thorough: bool) -> ! {
  quiet_panics();
  let stdin = std::io::stdin();
  let mut sources = Sources { g0: None, thorough, cache: HashMap::new() };
  for line in stdin.lock().lines() {
    let Ok(line) = line else { break };
    let Some((idx, body)) = line.split_once(' ') else { continue };
    let idx: u64 = idx.parse().unwrap_or(0);
    let wire: Value = match serde_json::from_str(body) {
      Ok(v) => v,
      Err(_) => {
        println!("R {idx} {}", json!({"load": "machinery", "msg": "child could not parse the case"}));
        continue;
      }
    };
    // every case runs on a FRESH thread: std seeds the per-thread SipHash keys of HashMap from
    // getrandom() (owned by the LD_PRELOAD shim, a pure function of VERIF_HASH_SEED) and then
    // counts up per map, so a fresh thread gives every case the same hash iteration orders no
    // matter which cases this child ran before. The thread has the stack of a main thread.
    let sources = &mut sources;
    std::thread::scope(|sc| {
      let h = std::thread::Builder::new()
        .stack_size(CHILD_STACK)
        .spawn_scoped(sc, move || {
          let mut out = std::io::stdout();
          child_case(&wire, sources, idx, &mut out);
        })
        .expect("spawn case thread");
      let _ = h.join();
    });
  }
  std::process::exit(0)
}

// =====================================================================================
// the parent side of one worker
// =====================================================================================
struct Slot {
  child: Mutex<Option<Child>>,
  started_ms: AtomicU64, // 0 = idle
  timed_out: AtomicBool,
}

struct Worker {
  slot: Arc<Slot>,
  stdin: Option<ChildStdin>,
  stdout: Option<BufReader<ChildStdout>>,
  stderr: Option<std::thread::JoinHandle<Vec<u8>>>,
  tier: String,
  epoch: Instant,
}

#[derive(Debug, Clone)]
enum Outcome {
  Result(Value),
  /// the child died or was killed: phase in flight, signal / exit code, stderr tail, timed out
  Crash { phase: String, signal: Option<i32>, code: Option<i32>, stderr: String, timeout: bool },
}

impl Worker {
  fn new(slot: Arc<Slot>, tier: &str, epoch: Instant) -> Worker {
    let mut w = Worker { slot, stdin: None, stdout: None, stderr: None, tier: tier.to_string(), epoch };
    w.spawn();
    w
  }
  fn spawn(&mut self) {
    let exe = std::env::current_exe().unwrap_or_else(|e| machinery(&format!("current_exe: {e}")));
    let mut child = Command::new(exe)
      .arg("--child")
      .arg("--tier")
      .arg(&self.tier)
      .stdin(Stdio::piped())
      .stdout(Stdio::piped())
      .stderr(Stdio::piped())
      .spawn()
      .unwrap_or_else(|e| machinery(&format!("cannot spawn worker child: {e}")));
    self.stdin = child.stdin.take();
    self.stdout = child.stdout.take().map(BufReader::new);
    let mut err = child.stderr.take().expect("piped stderr");
    self.stderr = Some(std::thread::spawn(move || {
      let mut buf = vec![];
      let _ = err.read_to_end(&mut buf);
      buf
    }));
    *self.slot.child.lock().unwrap() = Some(child);
  }
  fn reap(&mut self, phase: String) -> Outcome {
    self.stdin = None;
    self.stdout = None;
    let status = {
      let mut g = self.slot.child.lock().unwrap();
      let st = g.as_mut().and_then(|c| c.wait().ok());
      *g = None;
      st
    };
    let stderr = self.stderr.take().and_then(|h| h.join().ok()).unwrap_or_default();
    let timeout = self.slot.timed_out.swap(false, Ordering::SeqCst);
    let text = String::from_utf8_lossy(&stderr).to_string();
    // thread ids in the runtime's message differ from run to run: digits are masked
    let mut masked = String::new();
    for c in text.chars() {
      if c.is_ascii_digit() {
        if !masked.ends_with('#') {
          masked.push('#');
        }
      } else {
        masked.push(c);
      }
    }
    let text = masked;
    let tail: String = text.chars().rev().take(600).collect::<Vec<_>>().into_iter().rev().collect();
    self.spawn();
    Outcome::Crash { phase, signal: status.and_then(|s| s.signal()), code: status.and_then(|s| s.code()), stderr: tail, timeout }
  }
  fn run(&mut self, idx: usize, wire: &str) -> Outcome {
    let now = self.epoch.elapsed().as_millis() as u64 + 1;
    self.slot.started_ms.store(now, Ordering::SeqCst);
    let mut phase = "send".to_string();
    let sent = {
      let si = self.stdin.as_mut().expect("stdin");
      writeln!(si, "{idx} {wire}").and_then(|_| si.flush())
    };
    let out = if sent.is_err() {
      self.reap(phase)
    } else {
      loop {
        let mut line = String::new();
        let n = self.stdout.as_mut().expect("stdout").read_line(&mut line).unwrap_or(0);
        if n == 0 {
          break self.reap(phase);
        }
        let line = line.trim_end();
        if let Some(rest) = line.strip_prefix("P ") {
          if let Some((_, ph)) = rest.split_once(' ') {
            phase = ph.to_string();
          }
        } else if let Some(rest) = line.strip_prefix("R ") {
          if let Some((i, body)) = rest.split_once(' ') {
            if i.parse::<usize>().ok() == Some(idx) {
              match serde_json::from_str(body) {
                Ok(v) => break Outcome::Result(v),
                Err(e) => machinery(&format!("worker child sent an unparseable result: {e}")),
              }
            }
          }
        }
      }
    };
    self.slot.started_ms.store(0, Ordering::SeqCst);
    out
  }
  fn shutdown(&mut self) {
    self.stdin = None;
    if let Some(mut c) = self.slot.child.lock().unwrap().take() {
      let _ = c.wait();
    }
  }
}

// =====================================================================================
// judging
// =====================================================================================
fn norm_msg(msg: &str, values: &[String]) -> String {
  let mut first = msg.lines().next().unwrap_or("").to_string();
  let mut vals: Vec<&String> = values.iter().filter(|v| v.chars().count() >= 2 || !v.is_ascii()).collect();
  vals.sort_by_key(|v| std::cmp::Reverse(v.len()));
  for v in vals {
    if !v.is_empty() {
      first = first.replace(v.as_str(), "<v>");
    }
  }
  let mut out = String::new();
  let mut last_hash = false;
  let mut in_quote = false;
  let mut escaped = false;
  for c in first.chars() {
    // the content of a double-quoted (Debug-printed) string is a value, not part of the class
    if in_quote {
      if escaped {
        escaped = false;
      } else if c == '\\' {
        escaped = true;
      } else if c == '"' {
        in_quote = false;
        out.push('"');
      }
      continue;
    }
    if c == '"' {
      in_quote = true;
      out.push('"');
      out.push('_');
      last_hash = false;
      continue;
    }
    if c.is_ascii_digit() {
      if !last_hash {
        out.push('#');
      }
      last_hash = true;
    } else {
      out.push(c);
      last_hash = false;
    }
  }
  out.chars().take(140).collect()
}

/// error message -> validation path (values, digits and quoted fragments removed)
fn norm_err(msg: &str) -> String {
  let mut out = String::new();
  let mut quote: Option<char> = None;
  for c in msg.chars() {
    match quote {
      Some(q) => {
        if c == q {
          quote = None;
          out.push(c);
        }
      }
      None => {
        if c == '`' || c == '"' {
          quote = Some(c);
          out.push(c);
          out.push('_');
        } else if c.is_ascii_digit() {
          if !out.ends_with('#') {
            out.push('#');
          }
        } else {
          out.push(c);
        }
      }
    }
  }
  out.chars().take(200).collect()
}

/// source file (no directory, no line) of a panic location `path/file.rs:123`: two defects with the
/// same generic message ("attempt to subtract with overflow") stay distinct classes
fn panic_file(at: &Value) -> String {
  let at = at.as_str().unwrap_or("");
  let path = at.rsplit_once(':').map(|(p, _)| p).unwrap_or(at);
  path.rsplit('/').next().unwrap_or("").to_string()
}

struct Verdict {
  sig: String,
  observed: Value,
}

fn judge(case: &Case, out: &Outcome) -> Vec<Verdict> {
  let mut v = vec![];
  match out {
    Outcome::Result(r) => {
      match r["load"].as_str() {
        Some("panic") => v.push(Verdict {
          sig: format!("load:panic:{}:{}", panic_file(&r["at"]), norm_msg(r["msg"].as_str().unwrap_or(""), &case.values)),
          observed: json!({"phase": "load", "panic": r["msg"], "at": r["at"]}),
        }),
        Some("ok") => {
          for p in r["scan_panics"].as_array().cloned().unwrap_or_default() {
            v.push(Verdict {
              sig: format!("scan:panic:{}:{}", panic_file(&p["at"]), norm_msg(p["msg"].as_str().unwrap_or(""), &case.values)),
              observed: json!({"phase": "scan", "step": p["step"], "panic": p["msg"], "at": p["at"], "source": p["source"]}),
            });
          }
        }
        _ => {}
      }
    }
    Outcome::Crash { phase, signal, code, stderr, timeout } => {
      let obs = json!({"phase": phase, "signal": signal, "exit_code": code, "stderr_tail": stderr, "timeout": timeout});
      if *timeout {
        v.push(Verdict { sig: format!("hang:{phase}"), observed: obs });
      } else if stderr.contains("overflowed its stack") || *signal == Some(11) {
        v.push(Verdict { sig: format!("{phase}:abort:stack-overflow:{}", case.route), observed: obs });
      } else {
        let what = match (signal, code) {
          (Some(s), _) => format!("signal{s}"),
          (None, Some(c)) => format!("exit{c}"),
          _ => "died".to_string(),
        };
        v.push(Verdict { sig: format!("{phase}:abort:{what}:{}", case.route), observed: obs });
      }
    }
  }
  v
}

// =====================================================================================
// main
// =====================================================================================
#[derive(Default)]
struct FamilyStats {
  generated: u64,
  accepted: u64,
  rejected: u64,
  matched: u64,
  crashed: u64,
}

fn replay(args: &Args, path: &std::path::Path) -> ! {
  let text = std::fs::read_to_string(path).unwrap_or_else(|e| machinery(&format!("cannot read replay file: {e}")));
  let doc: Value = serde_json::from_str(&text).unwrap_or_else(|e| machinery(&format!("replay file does not parse: {e}")));
  let Some(case) = Case::from_json(&doc["case"]) else {
    machinery("replay file has no library-layer case (a `layer: cli` case is replayed by pychecks/c11_cli.py)")
  };
  let slot = Arc::new(Slot { child: Mutex::new(None), started_ms: AtomicU64::new(0), timed_out: AtomicBool::new(false) });
  let epoch = Instant::now();
  let stop = Arc::new(AtomicBool::new(false));
  let wd = watchdog(vec![slot.clone()], epoch, stop.clone());
  let mut w = Worker::new(slot, &args.tier, epoch);
  let out = w.run(0, &case.wire());
  w.shutdown();
  stop.store(true, Ordering::SeqCst);
  let _ = wd.join();
  println!("case: {} — {}", case.family, case.desc);
  for g in &case.globals {
    println!("global utility rule file:\n{g}");
  }
  println!("rule file:\n{}", case.rule.clone().unwrap_or_default());
  println!("expected: loading returns Ok or Err; no panic / abort / stack overflow / hang while loading or scanning");
  match &out {
    Outcome::Result(r) => println!("observed: {r}"),
    Outcome::Crash { phase, signal, code, stderr, timeout } => println!("observed: child died in phase {phase}: signal={signal:?} exit={code:?} timeout={timeout} stderr tail: {stderr}"),
  }
  let verdicts = judge(&case, &out);
  for v in &verdicts {
    println!("STILL-VIOLATES sig={}", v.sig);
  }
  if verdicts.is_empty() {
    println!("no violation observed");
  }
  std::process::exit(if verdicts.is_empty() { 0 } else { 1 })
}

fn watchdog(slots: Vec<Arc<Slot>>, epoch: Instant, stop: Arc<AtomicBool>) -> std::thread::JoinHandle<()> {
  std::thread::spawn(move || {
    while !stop.load(Ordering::SeqCst) {
      std::thread::sleep(Duration::from_millis(100));
      let now = epoch.elapsed().as_millis() as u64 + 1;
      for s in &slots {
        let st = s.started_ms.load(Ordering::SeqCst);
        if st != 0 && now > st + HANG_MS {
          if let Some(c) = s.child.lock().unwrap().as_mut() {
            s.timed_out.store(true, Ordering::SeqCst);
            let _ = c.kill();
          }
          s.started_ms.store(0, Ordering::SeqCst);
        }
      }
    }
  })
}

/// convert / substring / replace applied to every short text over a case-and-width alphabet
fn transform_family(rep: &Reporter, thorough: bool) -> (u64, u64, u64) {
  use rayon::prelude::*;
  let syms = ["a", "B", "é", "É", "д", "Д", "_", "-", " ", "1", "🦀"];
  let max = if thorough { 5 } else { 4 };
  let texts: Vec<String> = (0..vcore::gen::count(syms.len(), max))
    .map(|i| vcore::gen::nth_tokens(syms.len(), max, i).iter().map(|&t| syms[t]).collect::<String>())
    .filter(|t| !t.contains('\'') && !t.contains('\\'))
    .collect();
  let cases = ["lowerCase", "upperCase", "capitalize", "camelCase", "snakeCase", "kebabCase", "pascalCase"];
  let seps = ["caseChange", "dash", "dot", "slash", "space", "underscore"];
  let mut sep_sets: Vec<Option<Vec<&str>>> = vec![None];
  for (i, a) in seps.iter().enumerate() {
    sep_sets.push(Some(vec![*a]));
    for b in &seps[i + 1..] {
      sep_sets.push(Some(vec![*a, *b]));
    }
  }
  let mut configs: Vec<Value> = vec![];
  for c in cases {
    for ss in &sep_sets {
      let mut o = json!({"source": "$A", "toCase": c});
      if let Some(ss) = ss {
        o["separatedBy"] = json!(ss);
      }
      configs.push(json!({"convert": o}));
    }
  }
  let idx: Vec<Option<i64>> = std::iter::once(None).chain((-3..=3).map(Some)).collect();
  for a in &idx {
    for b in &idx {
      let mut o = json!({"source": "$A"});
      if let Some(a) = a {
        o["startChar"] = json!(a);
      }
      if let Some(b) = b {
        o["endChar"] = json!(b);
      }
      configs.push(json!({"substring": o}));
    }
  }
  for (re, by) in [("a", "é"), ("[éÉ]", ""), ("(?P<x>.)", "$x$x"), ("^", "🦀"), ("\\b", "-"), (".$", "")] {
    configs.push(json!({"replace": {"source": "$A", "replace": re, "by": by}}));
  }
  let evals = AtomicU64::new(0);
  let mb = AtomicU64::new(0);
  let lang = SupportLang::JavaScript;
  let greps: Vec<(String, AstGrep<D>)> = texts.iter().map(|t| (t.clone(), lang.ast_grep(format!("'{t}'")))).collect();
  configs.par_iter().for_each(|cfg| {
    let doc = json!({"id": "t", "language": "JavaScript", "rule": {"pattern": "$A", "kind": "string_fragment"}, "transform": {"T": cfg}, "fix": "<$T>", "message": "m $T"});
    let globals = GlobalRules::default();
    let rule = match guarded(std::panic::AssertUnwindSafe(|| from_yaml_string::<SupportLang>(&doc.to_string(), &globals))) {
      Ok(Ok(mut r)) => r.pop().unwrap(),
      Ok(Err(_)) => return,
      Err(msg) => {
        rep.violation(&format!("load:panic:transform-family:{}", msg.chars().filter(|c| !c.is_ascii_digit()).take(60).collect::<String>()), json!({"transform": cfg, "panic": msg}));
        return;
      }
    };
    for (t, g) in &greps {
      evals.fetch_add(1, Ordering::Relaxed);
      let cs: Vec<char> = t.chars().collect();
      if cs.windows(2).any(|w| w[0].is_lowercase() && w[1].is_uppercase() && (w[0].len_utf8() > 1 || w[1].len_utf8() > 1)) {
        mb.fetch_add(1, Ordering::Relaxed);
      }
      let r = guarded(std::panic::AssertUnwindSafe(|| {
        let mut n = 0;
        for nm in g.root().find_all(&rule.matcher) {
          let _ = rule.get_message(&nm);
          if let Ok(Some(f)) = rule.get_fixer() {
            let e = nm.make_edit(&rule.matcher, &f);
            String::from_utf8(e.inserted_text).map_err(|_| "fix text is not UTF-8")?;
          }
          n += 1;
        }
        Ok::<u32, &'static str>(n)
      }));
      match r {
        Ok(Ok(_)) => {}
        Ok(Err(e)) => rep.violation("scan:transform-family:invalid-utf8", json!({"transform": cfg, "text": t, "error": e})),
        Err(msg) => rep.violation(
          &format!("scan:panic:transform-family:{}:{}", cfg.as_object().unwrap().keys().next().unwrap(), msg.chars().map(|c| if c.is_ascii_digit() { '#' } else { c }).take(48).collect::<String>().split('`').next().unwrap_or("")),
          json!({"transform": cfg, "text": t, "panic": msg, "at": last_panic_loc()}),
        ),
      }
    }
  });
  (evals.load(Ordering::Relaxed), mb.load(Ordering::Relaxed), configs.len() as u64)
}

fn main() {
  let args = Args::parse();
  if args.extra.iter().any(|a| a == "--child") {
    child_main(args.thorough());
  }
  quiet_panics();
  if let Some(p) = &args.replay {
    replay(&args, p);
  }
  let rep = Reporter::new("C11", args.clone());
  let space = build_space(args.thorough());
  let n = space.specs.len();
  // debugging aids (no verdict): `--dims` prints the size of every dimension, `--dump N` prints case N
  if args.extra.iter().any(|a| a == "--dims") {
    println!("{}", serde_json::to_string_pretty(&json!({"cases": n, "dims": space.dims})).unwrap());
    std::process::exit(0);
  }
  if let Some(k) = args.extra.iter().position(|a| a == "--wires") {
    // debugging aid: print the wire lines of cases [from, from + count)
    let from: usize = args.extra.get(k + 1).and_then(|x| x.parse().ok()).unwrap_or(0);
    let count: usize = args.extra.get(k + 2).and_then(|x| x.parse().ok()).unwrap_or(1000);
    let t = Instant::now();
    let mut out = String::new();
    for i in from..(from + count).min(n) {
      out.push_str(&format!("{} {}\n", i, space.materialise(i).wire()));
    }
    eprintln!("materialise+wire of {count} cases: {:?}", t.elapsed());
    print!("{out}");
    std::process::exit(0);
  }
  if let Some(k) = args.extra.iter().position(|a| a == "--dump") {
    let i: usize = args.extra.get(k + 1).and_then(|x| x.parse().ok()).unwrap_or(0);
    println!("{}", json!({"property": "C11", "sig": "", "case": space.materialise(i).json()}));
    std::process::exit(0);
  }

  // every generated case is run (a text produced by two different substitutions runs twice and is
  // reported twice, so that nothing depends on scheduling); distinct texts are counted by hash
  let only: Option<String> = args.extra.iter().position(|a| a == "--only").and_then(|k| args.extra.get(k + 1).cloned());
  let todo: Vec<usize> = (0..n).collect();
  let seen_all: Mutex<HashSet<u128>> = Mutex::new(HashSet::with_capacity(n));
  let seen_matched: Mutex<HashSet<u128>> = Mutex::new(HashSet::new());
  let t_pass1 = rep.elapsed();

  // pass 2: hand the distinct cases to worker children
  let nworkers = std::thread::available_parallelism().map(|x| x.get()).unwrap_or(8).min(32);
  let epoch = Instant::now();
  let slots: Vec<Arc<Slot>> = (0..nworkers).map(|_| Arc::new(Slot { child: Mutex::new(None), started_ms: AtomicU64::new(0), timed_out: AtomicBool::new(false) })).collect();
  let stop = Arc::new(AtomicBool::new(false));
  let wd = watchdog(slots.clone(), epoch, stop.clone());
  let next = AtomicUsize::new(0);
  let fam: Mutex<BTreeMap<String, FamilyStats>> = Mutex::new(BTreeMap::new());
  let errs: Mutex<BTreeMap<String, u64>> = Mutex::new(BTreeMap::new());
  let samples: Mutex<BTreeMap<String, BTreeMap<(u8, usize), Value>>> = Mutex::new(BTreeMap::new());
  let total_matches = AtomicU64::new(0);
  let total_edits = AtomicU64::new(0);
  let restarts = AtomicU64::new(0);
  let sigs: Mutex<BTreeSet<String>> = Mutex::new(BTreeSet::new());
  std::thread::scope(|sc| {
    for slot in &slots {
      let slot = slot.clone();
      let (space, todo, next, fam, errs, samples, rep) = (&space, &todo, &next, &fam, &errs, &samples, &rep);
      let (total_matches, total_edits, restarts, sigs) = (&total_matches, &total_edits, &restarts, &sigs);
      let (seen_all, seen_matched, only) = (&seen_all, &seen_matched, &only);
      let tier = args.tier.clone();
      sc.spawn(move || {
        let mut w = Worker::new(slot, &tier, epoch);
        loop {
          let k = next.fetch_add(1, Ordering::SeqCst);
          if k >= todo.len() {
            break;
          }
          let i = todo[k];
          let case = space.materialise(i);
          if only.as_ref().map(|o| !case.family.starts_with(o.as_str())).unwrap_or(false) {
            continue;
          }
          let wire = case.wire();
          let hash = {
            // two independent 64-bit hashes of the text
            let (mut h1, mut h2) = (0xcbf29ce484222325u64, 0x9e3779b97f4a7c15u64);
            for b in wire.bytes() {
              h1 = (h1 ^ b as u64).wrapping_mul(0x100000001b3);
              h2 = (h2.rotate_left(5) ^ b as u64).wrapping_mul(0xff51afd7ed558ccd);
            }
            ((h1 as u128) << 64) | h2 as u128
          };
          seen_all.lock().unwrap().insert(hash);
          let out = w.run(i, &wire);
          let verdicts = judge(&case, &out);
          let family = case.family.clone();
          let mut accepted = false;
          let mut matched = false;
          match &out {
            Outcome::Result(r) => match r["load"].as_str() {
              Some("ok") => {
                accepted = true;
                let m = r["matches"].as_u64().unwrap_or(0);
                matched = m > 0;
                if matched {
                  seen_matched.lock().unwrap().insert(hash);
                }
                total_matches.fetch_add(m, Ordering::Relaxed);
                total_edits.fetch_add(r["edits"].as_u64().unwrap_or(0), Ordering::Relaxed);
              }
              Some("err") => {
                *errs.lock().unwrap().entry(norm_err(r["msg"].as_str().unwrap_or(""))).or_insert(0) += 1;
              }
              Some("machinery") => machinery("worker child could not parse a case line"),
              _ => {}
            },
            Outcome::Crash { .. } => {
              restarts.fetch_add(1, Ordering::Relaxed);
            }
          }
          {
            let mut f = fam.lock().unwrap();
            let e = f.entry(family.clone()).or_default();
            e.generated += 1;
            if accepted {
              e.accepted += 1;
            } else if matches!(&out, Outcome::Result(r) if r["load"] == "err") {
              e.rejected += 1;
            }
            if matched {
              e.matched += 1;
            }
            if !verdicts.is_empty() {
              e.crashed += 1;
            }
          }
          {
            // samples: per family the lowest-index case that was accepted and matched (else the
            // lowest-index case); deterministic
            let key = (if matched { 0u8 } else { 1u8 }, i);
            let mut s = samples.lock().unwrap();
            let m = s.entry(family).or_default();
            if m.keys().next().map(|l| key < *l).unwrap_or(true) {
              let outcome = match &out {
                Outcome::Result(r) => json!({"load": r["load"], "error": r["msg"], "matches": r["matches"], "edits": r["edits"], "scan_panics": r["scan_panics"].as_array().map(|a| a.len())}),
                Outcome::Crash { phase, signal, .. } => json!({"crash_in": phase, "signal": signal}),
              };
              m.clear();
              m.insert(key, json!({"desc": case.desc, "outcome": outcome}));
            }
          }
          for v in verdicts {
            let mut cj = case.json();
            cj["observed"] = v.observed;
            sigs.lock().unwrap().insert(v.sig.clone());
            rep.violation(&v.sig, cj);
          }
        }
        w.shutdown();
      });
    }
  });
  stop.store(true, Ordering::SeqCst);
  let _ = wd.join();

  eprintln!("timing: enumerate {:.1}s, run {:.1}s", t_pass1, rep.elapsed() - t_pass1);
  let fam = fam.into_inner().unwrap();
  let errs = errs.into_inner().unwrap();
  let (mut acc, mut rej, mut mat, mut crashed, mut ran) = (0u64, 0u64, 0u64, 0u64, 0u64);
  let distinct = seen_all.into_inner().unwrap().len();
  let distinct_matched = seen_matched.into_inner().unwrap().len();
  let mut fam_json = serde_json::Map::new();
  for (k, f) in &fam {
    acc += f.accepted;
    rej += f.rejected;
    mat += f.matched;
    crashed += f.crashed;
    ran += f.generated;
    fam_json.insert(k.clone(), json!({"generated": f.generated, "accepted": f.accepted, "rejected": f.rejected, "accepted_with_match": f.matched, "cases_with_violation": f.crashed}));
  }
  let mut sample_list = vec![];
  for (f, m) in samples.into_inner().unwrap() {
    if let Some(((_, i), v)) = m.into_iter().next() {
      let c = space.materialise(i);
      if sample_list.len() < 8 && (f.ends_with(":single") || f.ends_with(":pair") || f.starts_with("cycle:utils:len2") || f.starts_with("cycle:globals:len1") || f.starts_with("cycle:rewriters:len1") || f == "raw") {
        sample_list.push(json!({"family": f, "desc": v["desc"], "outcome": v["outcome"], "rule_text_head": c.rule.unwrap_or_default().chars().take(160).collect::<String>()}));
      }
    }
  }
  let mut err_top: Vec<(&String, &u64)> = errs.iter().collect();
  err_top.sort_by(|a, b| b.1.cmp(a.1).then(a.0.cmp(b.0)));
  let sigs = sigs.into_inner().unwrap();
  // crash classes: signatures with the cycle route / section suffix removed
  let classes: BTreeSet<String> = sigs
    .iter()
    .map(|s| match s.find(":cycle-") {
      Some(k) => s[..k + s[k + 1..].find(':').map(|j| j + 1).unwrap_or(s.len() - k)].to_string(),
      None => s.split(":subst:").next().unwrap_or(s).to_string(),
    })
    .collect();
  let s1 = space.skel("S1");
  let s2 = space.skel("S2");
  let bounds = json!({
      "nasty_strings": nasty_strings().iter().map(|s| if s.len() > 40 { format!("{}..({} chars)", &s[..8], s.len()) } else { s.clone() }).collect::<Vec<_>>(),
      "nasty_numbers": NASTY_NUMBERS,
      "nasty_wrong_types": ["null", "[]", "{}", "true", "[[]]"],
      "reduced_alphabet": nasty_reduced().iter().map(|v| v.short()).collect::<Vec<_>>(),
      "mini_alphabet": nasty_mini().iter().map(|v| v.short()).collect::<Vec<_>>(),
      "S1_slots": s1.paths.len(),
      "S2_slots": s2.paths.len(),
      "S1_pair_sections": section_roots(s1).iter().map(|(n, _)| n.clone()).collect::<Vec<_>>(),
      "S2_pair_sections": section_roots(s2).iter().map(|(n, _)| n.clone()).collect::<Vec<_>>(),
      "cycle_edge_alphabet": edges(args.thorough()).iter().map(|e| e.0).chain(["constraints (global utility rules only)"]).collect::<Vec<_>>(),
      "cycle_entry_positions": (0..entry_count(args.thorough())).map(|i| entry_name(i, args.thorough())).collect::<Vec<_>>(),
      "cycle_lengths": [1, 2, 3],
      "cycle_node_kinds": if args.thorough() { "all local, all global, every mixed assignment (lengths 1..3)" } else { "all local, all global (lengths 1..3), every mixed assignment (length 2)" },
      "cycle_entries": "every entry position x every cycle of length <= 2 (quick: all-local and all-global; thorough: also mixed); direct `matches` entry for length 3",
      "transform_cycle_kinds": TRANS_KINDS,
      "rewriter_cycle_variants": RW_VARIANTS,
      "raw_texts": space.raws.len(),
      "scan_sources": format!("javascript: {} crafted sources + corpus + every token string of length <= {} over the vcore::langs table{}; other languages: corpus + token strings; cycle and raw families: only the sources with <= {} nodes", CRAFTED_JS.len(), if args.thorough() { 3 } else { 2 }, if args.thorough() { " (pair substitutions: length <= 2)" } else { "" }, SMALL_NODES),
      "hang_timeout_ms": HANG_MS,
      "small_source_max_nodes": SMALL_NODES,
      "child_stack_bytes": CHILD_STACK,
      "worker_children": nworkers,
    });
  let (tf_evals, tf_nonascii_case_changes, tf_configs) = transform_family(&rep, args.thorough());
  let cov = json!({
    "evaluations": ran + tf_evals,
    "distinct_nontrivial": distinct_matched,
    "transform_text_family": {"configs": tf_configs, "evaluations": tf_evals, "evaluations_on_texts_with_a_multibyte_case_change": tf_nonascii_case_changes,
      "what": "every convert (7 cases x separatedBy absent / each single separator / each pair of separators), substring (start,end in -3..3|absent) and replace (6 regexes) transform of `$A` x every text of <= 4 symbols over {a, B, é, É, д, Д, _, -, space, 1, crab} captured as a JavaScript string fragment; loaded through from_yaml_string and applied by the real matcher in-process under catch_unwind: no panic, result valid UTF-8"},
    "rule": "a case = (global utility rule files, rule file) text; cases = skeleton S1 (rule file with every section) and S2 (global utility rule file): every single substitution of every slot (every node of the document tree) by every value of the nasty alphabet + per-slot valid alternates + (map slots) one added key per nasty string; every pair of substitutions at two non-nested slots inside the sections transform / fix / rewriters / each nthChild / each range (quick: values from the reduced alphabet + alternates; thorough: full alphabet, and additionally every other non-nested slot pair of the whole document with the mini alphabet + alternates); every reference cycle of length 1..3 over the edge alphabet, see bounds; a list of raw texts. A text produced by two different substitutions is run (and counted per family) twice; `cases_distinct` and `distinct_nontrivial` count distinct texts. Each accepted configuration is scanned (find_all, get_message, get_fixer + make_edit + generate_replacement) over the source set of its language. distinct_nontrivial = distinct texts the loader accepted AND that produced at least one match during the scan (so message / transform / fix code ran)",
    "exhaustive": only.is_none(),
    "debug_family_filter": only,
    "cases_generated": n,
    "cases_distinct": distinct,
    "cases_run": ran,
    "accepted": acc,
    "rejected": rej,
    "accepted_and_scanned": acc,
    "accepted_with_at_least_one_match": mat,
    "cases_with_violation": crashed,
    "distinct_signatures": sigs.len(),
    "distinct_crash_classes": classes.len(),
    "crash_classes": classes,
    "total_matches_scanned": total_matches.load(Ordering::Relaxed),
    "total_edits_made": total_edits.load(Ordering::Relaxed),
    "child_restarts_after_crash": restarts.load(Ordering::Relaxed),
    "distinct_error_messages": errs.len(),
    "most_frequent_error_messages": err_top.iter().take(25).map(|(k, v)| json!({"message": k, "count": v})).collect::<Vec<_>>(),
    "per_family": fam_json,
    "per_dimension_generated": space.dims,
    "bounds": bounds,
    "samples": sample_list,
  });
  rep.finish(
    "exploration",
    cov,
    vec![
      "every case runs in a worker child process; a crash (signal / abort / 20 s timeout) is attributed to the one case in flight, the phase comes from the child's progress line".into(),
      "the child runs cases on a thread with an 8 MiB stack (the default main-thread stack); ast-grep's own scan threads have 2 MiB, so a stack overflow seen here also happens in the CLI".into(),
      "loading = parse_global_utils over the global files, from_yaml_string, RuleCollection::try_new (compiles files/ignores globs); rules with severity off are dropped by RuleCollection exactly as in the CLI and are not scanned".into(),
      "test files, snapshot files, sgconfig.yml and the utilDirs path are CLI-only loaders: covered by pychecks/c11_cli.py (cli_layer in this evidence file)".into(),
      "the 20 s hang limit is the only use of wall-clock; no case of the space comes near it when the property holds".into(),
      "dev profile (debug assertions and overflow checks on), opt-level 1".into(),
    ],
  );
}
