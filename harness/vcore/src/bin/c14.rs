//! C14 — suppression comments silence exactly the findings they name, nothing else.
//!
//! Space (bounded-exhaustive): every source of <= 3 (thorough 4) lines over a 36-letter line
//! alphabet = {blank, 5 statements} x {no comment, `ast-grep-ignore` with 5 id lists}
//! (statement absent + comment = own-line comment; statement + comment = trailing comment), in
//! JavaScript, Python and Html, x every non-empty subset of {r1, r2} x separate_fix in {false, true},
//! with the `unused-suppression` rule enabled. Sub-grids: id-list spelling variants (<= 2 lines,
//! thorough 3), and all lines inside an indented block (<= 2 lines, thorough 3; spelling variants
//! there <= 1, thorough 2).
//!
//! Reference `ref_suppress` is a set comprehension over (finding, comment) pairs of what the
//! generator planted; it never looks at the syntax tree.

use ast_grep_config::{from_yaml_string, CombinedScan, GlobalRules, RuleConfig, Severity};
use ast_grep_core::{AstGrep, Language};
use ast_grep_language::SupportLang;
use rayon::prelude::*;
use serde_json::{json, Value};
use std::collections::{BTreeMap, BTreeSet, HashSet};
use std::sync::atomic::{AtomicU64, Ordering};
use vcore::report::*;
use vcore::rules::D;

// ---------------------------------------------------------------------------------------------
// alphabet

/// a statement and what is planted in it: (rule index 0=r1 / 1=r2, byte column start, end)
struct Stmt {
  text: &'static str,
  plants: &'static [(usize, usize, usize)],
}

struct LangSpec {
  name: &'static str,
  lang: SupportLang,
  yaml_lang: &'static str,
  stmts: [Stmt; 5],
  open: &'static str,
  close: &'static str,
  block_header: &'static [&'static str],
  block_footer: &'static [&'static str],
  indent: &'static str,
  r1: &'static str,
  r2: &'static str,
  fix: &'static str,
}

const CALLS: [Stmt; 5] = [
  Stmt { text: "foo(1)", plants: &[(0, 0, 6)] },
  Stmt { text: "bar(2)", plants: &[(1, 0, 6)] },
  Stmt { text: "foo(bar(2))", plants: &[(0, 0, 11), (1, 4, 10)] },
  Stmt { text: "foo(1); bar(2)", plants: &[(0, 0, 6), (1, 8, 14)] },
  Stmt { text: "baz(3)", plants: &[] },
];
const ELEMS: [Stmt; 5] = [
  Stmt { text: "<a>t</a>", plants: &[(0, 0, 8)] },
  Stmt { text: "<b>t</b>", plants: &[(1, 0, 8)] },
  Stmt { text: "<a><b>t</b></a>", plants: &[(0, 0, 15), (1, 3, 11)] },
  Stmt { text: "<a>t</a><b>t</b>", plants: &[(0, 0, 8), (1, 8, 16)] },
  Stmt { text: "<i>t</i>", plants: &[] },
];

/// both rules match the SAME node in `foo(..)` statements (r2 = any call to foo or bar)
const CALLS_SAME_NODE: [Stmt; 5] = [
  Stmt { text: "foo(1)", plants: &[(0, 0, 6), (1, 0, 6)] },
  Stmt { text: "bar(2)", plants: &[(1, 0, 6)] },
  Stmt { text: "foo(bar(2))", plants: &[(0, 0, 11), (1, 0, 11), (1, 4, 10)] },
  Stmt { text: "foo(1); bar(2)", plants: &[(0, 0, 6), (1, 0, 6), (1, 8, 14)] },
  Stmt { text: "baz(3)", plants: &[] },
];

/// rules whose only potential kind (`identifier`) has a SMALLER kind id than the comment kind:
/// the comment nodes then lie beyond the end of CombinedScan's kind table
const CALLS_IDENT: [Stmt; 5] = [
  Stmt { text: "foo(1)", plants: &[(0, 0, 3)] },
  Stmt { text: "bar(2)", plants: &[(1, 0, 3)] },
  Stmt { text: "foo(bar(2))", plants: &[(0, 0, 3), (1, 4, 7)] },
  Stmt { text: "foo(1); bar(2)", plants: &[(0, 0, 3), (1, 8, 11)] },
  Stmt { text: "baz(3)", plants: &[] },
];

/// statements that span TWO lines (the finding starts on the first). A comment requested for such a
/// line is written on its own line INSIDE the statement (after the first line): it governs the
/// statement's second line, where no finding starts, so it silences nothing — while an own-line
/// comment on the line before still governs the finding's start line. (Trailing comments are
/// quantified over single-line statements only.)
const CALLS_TWO_LINES: [Stmt; 5] = [
  Stmt { text: "foo(\n1)", plants: &[(0, 0, 7)] },
  Stmt { text: "bar(\n2)", plants: &[(1, 0, 7)] },
  Stmt { text: "foo(bar(\n2))", plants: &[(0, 0, 12), (1, 4, 11)] },
  Stmt { text: "foo(1); bar(\n2)", plants: &[(0, 0, 6), (1, 8, 15)] },
  Stmt { text: "baz(\n3)", plants: &[] },
];

/// C statements (with their terminators; the call node excludes the `;`)
const CALLS_SEMI: [Stmt; 5] = [
  Stmt { text: "foo(1);", plants: &[(0, 0, 6)] },
  Stmt { text: "bar(2);", plants: &[(1, 0, 6)] },
  Stmt { text: "foo(bar(2));", plants: &[(0, 0, 11), (1, 4, 10)] },
  Stmt { text: "foo(1); bar(2);", plants: &[(0, 0, 6), (1, 8, 14)] },
  Stmt { text: "baz(3);", plants: &[] },
];

static LANGS: [LangSpec; 7] = [
  // the lines follow a preprocessor directive, a node whose extent INCLUDES its line break (it ends
  // at column 0 of the next line): an own-line comment right after it is still an own-line comment
  LangSpec {
    name: "c-after-preprocessor-line",
    lang: SupportLang::C,
    yaml_lang: "C",
    stmts: CALLS_SEMI,
    open: "// ",
    close: "",
    block_header: &["void f() {", "#define L 1"],
    block_footer: &["}"],
    indent: "",
    // (`foo($$$)` alone is not a call in C: kind + regex instead)
    r1: r#"{"kind": "call_expression", "regex": "^foo[(]"}"#,
    r2: r#"{"kind": "call_expression", "regex": "^bar[(]"}"#,
    fix: "qux()",
  },
  LangSpec {
    name: "javascript-two-line-statements",
    lang: SupportLang::JavaScript,
    yaml_lang: "JavaScript",
    stmts: CALLS_TWO_LINES,
    open: "// ",
    close: "",
    block_header: &["function f() {"],
    block_footer: &["}"],
    indent: "  ",
    r1: r#"{"pattern": "foo($$$)"}"#,
    r2: r#"{"pattern": "bar($$$)"}"#,
    fix: "qux()",
  },
  LangSpec {
    name: "javascript-low-kind-ids",
    lang: SupportLang::JavaScript,
    yaml_lang: "JavaScript",
    stmts: CALLS_IDENT,
    open: "// ",
    close: "",
    block_header: &["function f() {"],
    block_footer: &["}"],
    indent: "  ",
    r1: r#"{"kind": "identifier", "regex": "^foo$"}"#,
    r2: r#"{"kind": "identifier", "regex": "^bar$"}"#,
    fix: "qux",
  },
  LangSpec {
    name: "javascript-same-node",
    lang: SupportLang::JavaScript,
    yaml_lang: "JavaScript",
    stmts: CALLS_SAME_NODE,
    open: "// ",
    close: "",
    block_header: &["function f() {"],
    block_footer: &["}"],
    indent: "  ",
    r1: r#"{"pattern": "foo($$$)"}"#,
    r2: r#"{"kind": "call_expression", "regex": "^(foo|bar)[(]"}"#,
    fix: "qux()",
  },
  LangSpec {
    name: "javascript",
    lang: SupportLang::JavaScript,
    yaml_lang: "JavaScript",
    stmts: CALLS,
    open: "// ",
    close: "",
    block_header: &["function f() {"],
    block_footer: &["}"],
    indent: "  ",
    r1: r#"{"pattern": "foo($$$)"}"#,
    r2: r#"{"pattern": "bar($$$)"}"#,
    fix: "qux()",
  },
  LangSpec {
    name: "python",
    lang: SupportLang::Python,
    yaml_lang: "Python",
    stmts: CALLS,
    open: "# ",
    close: "",
    // the block starts with a non-matching statement so that it is never empty (a block made of
    // comments only is not Python)
    block_header: &["if x:", "    baz(0)"],
    block_footer: &[],
    indent: "    ",
    r1: r#"{"pattern": "foo($$$)"}"#,
    r2: r#"{"pattern": "bar($$$)"}"#,
    fix: "qux()",
  },
  LangSpec {
    name: "html",
    lang: SupportLang::Html,
    yaml_lang: "Html",
    stmts: ELEMS,
    open: "<!-- ",
    close: " -->",
    block_header: &["<div>"],
    block_footer: &["</div>"],
    indent: "  ",
    r1: r#"{"kind": "element", "has": {"kind": "start_tag", "has": {"kind": "tag_name", "regex": "^a$"}}}"#,
    r2: r#"{"kind": "element", "has": {"kind": "start_tag", "has": {"kind": "tag_name", "regex": "^b$"}}}"#,
    fix: "<u></u>",
  },
];

/// an id list as written after `ast-grep-ignore`, and what it lists (None = lists nothing = ALL)
struct IdList {
  tail: &'static str,
  ids: Option<&'static [&'static str]>,
}

const BASE_TABLE: [IdList; 5] = [
  IdList { tail: "", ids: None },
  IdList { tail: ": r1", ids: Some(&["r1"]) },
  IdList { tail: ": r2", ids: Some(&["r2"]) },
  IdList { tail: ": r1, r2", ids: Some(&["r1", "r2"]) },
  IdList { tail: ": r3", ids: Some(&["r3"]) },
];
/// spelling variants of the id list (sub-grid)
const SPELL_TABLE: [IdList; 5] = [
  IdList { tail: ": r1,r2", ids: Some(&["r1", "r2"]) },
  IdList { tail: ": r1 , r2", ids: Some(&["r1", "r2"]) },
  IdList { tail: ":  r1", ids: Some(&["r1"]) },
  IdList { tail: ":r2", ids: Some(&["r2"]) },
  IdList { tail: ":   r2,  r1", ids: Some(&["r2", "r1"]) },
];

fn table(name: &str) -> &'static [IdList; 5] {
  match name {
    "base" => &BASE_TABLE,
    "spelling" => &SPELL_TABLE,
    _ => machinery(&format!("unknown id-list table {name}")),
  }
}

const A: usize = 36; // line alphabet size: (stmt none|0..4) x (comment none|0..4)
const RULE_IDS: [&str; 2] = ["r1", "r2"];
const RULE_SETS: [&[usize]; 3] = [&[0], &[1], &[0, 1]];

fn decode(mut idx: u64, n: usize) -> Vec<usize> {
  let mut v = vec![0; n];
  for i in (0..n).rev() {
    v[i] = (idx % A as u64) as usize;
    idx /= A as u64;
  }
  v
}

#[derive(Clone, Debug)]
struct Comment {
  line: usize,
  own: bool,
  ids: Option<&'static [&'static str]>,
  range: (usize, usize),
}
impl Comment {
  fn governs(&self, l: usize) -> bool {
    (self.own && self.line + 1 == l) || (!self.own && self.line == l)
  }
  fn governed_line(&self) -> usize {
    if self.own {
      self.line + 1
    } else {
      self.line
    }
  }
  fn names(&self, rule: &str) -> bool {
    match self.ids {
      None => true,
      Some(ids) => ids.contains(&rule),
    }
  }
}

#[derive(Clone, Debug, PartialEq, Eq, PartialOrd, Ord)]
struct Finding {
  rule: usize,
  line: usize,
  range: (usize, usize),
}

struct Layout {
  source: String,
  /// the same lines without any comment
  stripped: String,
  comments: Vec<Comment>,
  findings: Vec<Finding>,
}

fn build(spec: &LangSpec, block: bool, tab: &[IdList; 5], lines: &[usize]) -> Layout {
  let mut source = String::new();
  let mut stripped = String::new();
  let mut comments = vec![];
  let mut findings = vec![];
  let mut line_no = 0;
  if block {
    for h in spec.block_header {
      source.push_str(h);
      source.push('\n');
      stripped.push_str(h);
      stripped.push('\n');
      line_no += 1;
    }
  }
  let indent = if block { spec.indent } else { "" };
  for &tok in lines {
    let (s, c) = (tok / 6, tok % 6);
    if s > 0 || c > 0 {
      source.push_str(indent);
    }
    if s > 0 {
      stripped.push_str(indent);
    }
    let two_lines = s > 0 && spec.stmts[s - 1].text.contains('\n');
    if two_lines {
      let st = &spec.stmts[s - 1];
      let base = source.len();
      let nl = st.text.find('\n').unwrap();
      // the comment (if any) goes on its own line after the statement's first line; the
      // comment-free copy gets as many spaces, so that byte ranges are the same in both
      let inside = if c > 0 { format!("{indent}{}ast-grep-ignore{}{}\n", spec.open, tab[c - 1].tail, spec.close) } else { String::new() };
      for &(rule, a, b) in st.plants {
        let b2 = if b > nl { b + inside.len() } else { b };
        findings.push(Finding { rule, line: line_no, range: (base + a, base + b2) });
      }
      source.push_str(&st.text[..=nl]);
      stripped.push_str(&st.text[..=nl]);
      line_no += 1;
      if c > 0 {
        let start = source.len() + indent.len();
        source.push_str(&inside);
        stripped.push_str(&" ".repeat(inside.len() - 1));
        stripped.push('\n');
        comments.push(Comment { line: line_no, own: true, ids: tab[c - 1].ids, range: (start, source.len() - 1) });
        line_no += 1;
      }
      source.push_str(&st.text[nl + 1..]);
      stripped.push_str(&st.text[nl + 1..]);
      source.push('\n');
      stripped.push('\n');
      line_no += 1;
      continue;
    }
    if s > 0 {
      let st = &spec.stmts[s - 1];
      let base = source.len();
      for &(rule, a, b) in st.plants {
        findings.push(Finding { rule, line: line_no, range: (base + a, base + b) });
      }
      source.push_str(st.text);
      stripped.push_str(st.text);
    }
    if c > 0 {
      if s > 0 {
        source.push(' ');
      }
      let start = source.len();
      source.push_str(spec.open);
      source.push_str("ast-grep-ignore");
      source.push_str(tab[c - 1].tail);
      source.push_str(spec.close);
      comments.push(Comment { line: line_no, own: s == 0, ids: tab[c - 1].ids, range: (start, source.len()) });
    }
    source.push('\n');
    stripped.push('\n');
    line_no += 1;
  }
  if block {
    for h in spec.block_footer {
      source.push_str(h);
      source.push('\n');
      stripped.push_str(h);
      stripped.push('\n');
    }
  }
  Layout { source, stripped, comments, findings }
}

// ---------------------------------------------------------------------------------------------
// the subject

struct Subject {
  rules: Vec<RuleConfig<SupportLang>>, // r1, r2
  unused: RuleConfig<SupportLang>,
}

fn load_subject(spec: &LangSpec) -> Subject {
  let yaml = format!(
    "{{\"id\": \"r1\", \"language\": \"{l}\", \"rule\": {r1}}}\n---\n{{\"id\": \"r2\", \"language\": \"{l}\", \"rule\": {r2}, \"fix\": {fix}}}\n",
    l = spec.yaml_lang,
    r1 = spec.r1,
    r2 = spec.r2,
    fix = serde_json::to_string(spec.fix).unwrap()
  );
  let globals = GlobalRules::default();
  let rules = match from_yaml_string::<SupportLang>(&yaml, &globals) {
    Ok(r) => r,
    Err(e) => machinery(&format!("rules for {} do not load: {e:?}", spec.name)),
  };
  if rules.len() != 2 || rules[0].id != "r1" || rules[1].id != "r2" || rules[0].fix.is_some() || rules[1].fix.is_none() {
    machinery("rule documents did not load as r1 (no fix), r2 (fix)");
  }
  let unused = CombinedScan::unused_config(Severity::Hint, spec.lang);
  Subject { rules, unused }
}

type Obs = BTreeMap<String, Vec<(usize, usize, usize)>>;

fn observe(sub: &Subject, active: &[usize], root: &AstGrep<D>, separate_fix: bool) -> Result<Obs, String> {
  guarded(std::panic::AssertUnwindSafe(|| {
    let rules: Vec<&RuleConfig<SupportLang>> = active.iter().map(|&i| &sub.rules[i]).collect();
    let mut scan = CombinedScan::new(rules);
    scan.set_unused_suppression_rule(&sub.unused);
    let res = scan.scan(root, separate_fix);
    let mut obs: Obs = BTreeMap::new();
    for (rule, nms) in &res.matches {
      let e = obs.entry(rule.id.clone()).or_default();
      for nm in nms {
        let r = nm.range();
        e.push((nm.start_pos().line(), r.start, r.end));
      }
    }
    for (rule, nm) in &res.diffs {
      let r = nm.range();
      obs.entry(rule.id.clone()).or_default().push((nm.start_pos().line(), r.start, r.end));
    }
    for v in obs.values_mut() {
      v.sort();
    }
    obs
  }))
}

// ---------------------------------------------------------------------------------------------
// ref_suppress — written from the statement

struct Expected {
  /// per active rule: findings that must be reported
  reported: BTreeMap<usize, BTreeSet<(usize, usize, usize)>>,
  /// comments (index into layout.comments) that must be reported unused
  unused: BTreeSet<usize>,
  /// number of (comment, active finding) pairs where the comment governs and names the finding
  silencing_pairs: usize,
}

fn ref_suppress(lay: &Layout, active: &[usize]) -> Expected {
  let silences = |c: &Comment, f: &Finding| c.governs(f.line) && c.names(RULE_IDS[f.rule]);
  let act: Vec<&Finding> = lay.findings.iter().filter(|f| active.contains(&f.rule)).collect();
  let mut reported: BTreeMap<usize, BTreeSet<(usize, usize, usize)>> = active.iter().map(|&r| (r, BTreeSet::new())).collect();
  for f in &act {
    let suppressed = lay.comments.iter().any(|c| silences(c, f));
    if !suppressed {
      reported.get_mut(&f.rule).unwrap().insert((f.line, f.range.0, f.range.1));
    }
  }
  let unused = (0..lay.comments.len()).filter(|&i| !act.iter().any(|f| silences(&lay.comments[i], f))).collect();
  let silencing_pairs = lay.comments.iter().map(|c| act.iter().filter(|f| silences(c, f)).count()).sum();
  Expected { reported, unused, silencing_pairs }
}

// ---------------------------------------------------------------------------------------------
// comparison and classification of disagreements
//
// Every single disagreement (one finding, or one comment) gets its own signature
// `<class>:<kind>`. Three narrow classes are computed from what the generator planted; anything
// they do not describe exactly is `mismatch:*`.
//  * two-comments-govern-one-line — the line the item belongs to is governed by BOTH an own-line
//    comment on the line above and a trailing comment on the line itself, and the disagreement is
//    that the own-line comment is ignored (a finding only it names is reported / it is never
//    reported unused).
//  * closing-delimiter-in-id-list — the language's comments end with a closing delimiter
//    (`-->`) and the disagreement is that the LAST id of a comment's list is not honoured (a
//    finding named only there is reported / the comment is reported unused although its last id
//    silences something).
//  * two-comments-govern-one-line+closing-delimiter — both at once: doubly governed line, the
//    own-line comment names the finding, the trailing comment names it only as last id.

#[derive(Clone, Copy, PartialEq, Eq, PartialOrd, Ord, Debug)]
enum Class {
  Mismatch,
  TwoComments,
  ClosingDelimiter,
  TwoCommentsClosingDelimiter,
}
impl Class {
  fn prefix(self) -> &'static str {
    match self {
      Class::Mismatch => "mismatch",
      Class::TwoComments => "two-comments-govern-one-line",
      Class::ClosingDelimiter => "closing-delimiter-in-id-list",
      Class::TwoCommentsClosingDelimiter => "two-comments-govern-one-line+closing-delimiter",
    }
  }
}

struct Item {
  class: Class,
  kind: String,
  detail: Value,
}
impl Item {
  fn sig(&self) -> String {
    format!("{}:{}", self.class.prefix(), self.kind)
  }
}

fn own_above(lay: &Layout, l: usize) -> Option<&Comment> {
  lay.comments.iter().find(|c| c.own && c.line + 1 == l)
}
fn trailing_on(lay: &Layout, l: usize) -> Option<&Comment> {
  lay.comments.iter().find(|c| !c.own && c.line == l)
}

/// does comment `c` name `rule` by listing nothing or through an id that is not the last one of
/// its list?
fn names_not_by_last(c: &Comment, rule: &str) -> bool {
  match c.ids {
    None => true,
    Some(ids) => ids[..ids.len() - 1].contains(&rule),
  }
}

fn compare(spec: &LangSpec, lay: &Layout, active: &[usize], exp: &Expected, obs: &Obs) -> Vec<Item> {
  let mut items: Vec<Item> = vec![];
  let closing = !spec.close.is_empty();
  let act: Vec<&Finding> = lay.findings.iter().filter(|f| active.contains(&f.rule)).collect();
  let mm = |kind: &str, detail: Value| Item { class: Class::Mismatch, kind: kind.to_string(), detail };
  // findings
  for (id, list) in obs {
    if id == "unused-suppression" {
      continue;
    }
    let Some(ri) = RULE_IDS.iter().position(|r| r == id) else {
      items.push(mm("unknown-rule-id-reported", json!({"id": id})));
      continue;
    };
    if !active.contains(&ri) {
      items.push(mm("inactive-rule-reported", json!({"id": id})));
      continue;
    }
    let want = &exp.reported[&ri];
    let mut seen = BTreeSet::new();
    for o in list {
      let detail = json!({"rule": id, "line": o.0, "range": [o.1, o.2], "text": lay.source.get(o.1..o.2)});
      if !seen.insert(*o) {
        items.push(mm("finding-reported-twice", detail));
        continue;
      }
      if want.contains(o) {
        continue;
      }
      let planted = lay.findings.iter().any(|f| f.rule == ri && (f.line, f.range.0, f.range.1) == *o);
      if !planted {
        items.push(mm("reported-node-not-planted", detail));
        continue;
      }
      // a planted finding that some governing comment names, but reported
      let l = o.0;
      let item = match (own_above(lay, l), trailing_on(lay, l)) {
        (Some(ow), Some(tr)) => {
          if names_not_by_last(tr, id) {
            mm("finding-reported-though-trailing-comment-names-it", detail)
          } else if !tr.names(id) {
            // only the own-line comment names it
            Item { class: Class::TwoComments, kind: "finding-reported-though-own-line-comment-names-it".into(), detail }
          } else if !closing {
            mm("finding-reported-though-trailing-comment-names-it", detail)
          } else if ow.names(id) {
            Item { class: Class::TwoCommentsClosingDelimiter, kind: "finding-reported-though-own-line-comment-names-it-and-trailing-names-it-last".into(), detail }
          } else {
            Item { class: Class::ClosingDelimiter, kind: "finding-reported-though-named-last-in-list".into(), detail }
          }
        }
        (Some(c), None) | (None, Some(c)) => {
          if closing && !names_not_by_last(c, id) {
            Item { class: Class::ClosingDelimiter, kind: "finding-reported-though-named-last-in-list".into(), detail }
          } else {
            mm(&format!("finding-reported-though-{}-comment-names-it", if c.own { "own-line" } else { "trailing" }), detail)
          }
        }
        (None, None) => machinery("reference: a finding is expected suppressed without a governing comment"),
      };
      items.push(item);
    }
  }
  for &ri in active {
    let got: BTreeSet<(usize, usize, usize)> = obs.get(RULE_IDS[ri]).map(|v| v.iter().cloned().collect()).unwrap_or_default();
    for w in &exp.reported[&ri] {
      if !got.contains(w) {
        items.push(mm("unsuppressed-finding-not-reported", json!({"rule": RULE_IDS[ri], "line": w.0, "range": [w.1, w.2], "text": &lay.source[w.1..w.2]})));
      }
    }
  }
  // unused suppressions
  let empty = vec![];
  let got_unused = obs.get("unused-suppression").unwrap_or(&empty);
  let mut seen = BTreeSet::new();
  let mut got_idx = BTreeSet::new();
  for o in got_unused {
    let detail = json!({"line": o.0, "range": [o.1, o.2], "text": lay.source.get(o.1..o.2)});
    if !seen.insert(*o) {
      items.push(mm("unused-reported-twice", detail));
      continue;
    }
    match lay.comments.iter().position(|c| (c.line, c.range.0, c.range.1) == *o) {
      None => items.push(mm("unused-reported-for-non-comment", detail)),
      Some(i) => {
        got_idx.insert(i);
      }
    }
  }
  for (i, c) in lay.comments.iter().enumerate() {
    let want = exp.unused.contains(&i);
    let got = got_idx.contains(&i);
    if want == got {
      continue;
    }
    let l = c.governed_line();
    let place = if c.own { "own-line" } else { "trailing" };
    let detail = json!({"comment_line": c.line, "comment": &lay.source[c.range.0..c.range.1], "placement": place});
    let doubly = own_above(lay, l).is_some() && trailing_on(lay, l).is_some();
    let item = if want {
      // silenced nothing, yet not reported unused
      if doubly && c.own {
        Item { class: Class::TwoComments, kind: "own-line-comment-not-reported-unused".into(), detail }
      } else {
        mm(&format!("unused-comment-not-reported:{place}"), detail)
      }
    } else {
      // silences something, yet reported unused: the closing-delimiter class iff every active
      // finding it silences is named only by the last id of its list
      let via_other = act.iter().any(|f| c.governs(f.line) && names_not_by_last(c, RULE_IDS[f.rule]));
      if closing && !via_other && !(doubly && c.own) {
        Item { class: Class::ClosingDelimiter, kind: "comment-reported-unused-though-its-last-id-silences".into(), detail }
      } else {
        mm(&format!("used-comment-reported-unused:{place}"), detail)
      }
    };
    items.push(item);
  }
  items
}

// ---------------------------------------------------------------------------------------------
// planted-set sanity: what the generator says it planted is what the rules' matchers find

fn found(sub: &Subject, root: &AstGrep<D>) -> Vec<Finding> {
  let mut v = vec![];
  for (ri, rule) in sub.rules.iter().enumerate() {
    for nm in root.root().find_all(&rule.matcher) {
      let r = nm.range();
      v.push(Finding { rule: ri, line: nm.start_pos().line(), range: (r.start, r.end) });
    }
  }
  v.sort();
  v
}

/// findings as (rule, line, column range): the form that survives removal of comments
fn by_column(src: &str, fs: &[Finding]) -> Vec<(usize, usize, usize, usize)> {
  let mut v: Vec<_> = fs
    .iter()
    .map(|f| {
      let ls = src[..f.range.0].rfind('\n').map(|p| p + 1).unwrap_or(0);
      (f.rule, f.line, f.range.0 - ls, f.range.1 - ls)
    })
    .collect();
  v.sort();
  v
}

// ---------------------------------------------------------------------------------------------

#[derive(Default)]
struct Stats {
  cases: AtomicU64,
  evaluations: AtomicU64,
  nontrivial: AtomicU64,
  with_suppressed: AtomicU64,
  with_unused: AtomicU64,
  with_two_comments_line: AtomicU64,
  disagreeing_cases: AtomicU64,
  not_judged_parse_error: AtomicU64,
}

struct Grid {
  lang: usize,
  block: bool,
  table: &'static str,
  n: usize,
}

struct CaseOut {
  violations: Vec<(String, Value)>,
}

/// evaluate one layout against every rule set and both scan modes
#[allow(clippy::too_many_arguments)]
fn eval_layout(
  spec: &LangSpec,
  sub: &Subject,
  verified: Option<&HashSet<String>>,
  block: bool,
  tab_name: &str,
  lines: &[usize],
  only_rules: Option<&[usize]>,
  st: &Stats,
) -> CaseOut {
  let tab = table(tab_name);
  let lay = build(spec, block, tab, lines);
  let mut out = CaseOut { violations: vec![] };
  let root = spec.lang.ast_grep(&lay.source);
  // harness sanity (never a verdict): planted == found, with and without the comments
  let mut planted = lay.findings.clone();
  planted.sort();
  let two_line_family = spec.stmts.iter().any(|s| s.text.contains('\n'));
  match verified {
    Some(set) if set.contains(&lay.stripped) => {}
    Some(_) if !two_line_family => machinery(&format!("comment-free copy was not pre-verified: {:?}", lay.stripped)),
    // (a comment inside a two-line statement leaves a line of spaces in the comment-free copy,
    // which the pre-verified set does not contain: verified here)
    _ => {
      let sroot = spec.lang.ast_grep(&lay.stripped);
      if by_column(&lay.stripped, &found(sub, &sroot)) != by_column(&lay.source, &planted) {
        machinery(&format!("planted findings differ from find_all on the comment-free copy {:?}", lay.stripped));
      }
    }
  }
  if found(sub, &root) != planted {
    machinery(&format!("planted findings differ from find_all on {:?} ({})", lay.source, spec.name));
  }
  if root.root().dfs().any(|n| n.is_error()) {
    st.not_judged_parse_error.fetch_add(1, Ordering::Relaxed);
    return out;
  }
  let two_comment_line = lay.comments.iter().any(|c| c.own && trailing_on(&lay, c.line + 1).is_some());
  for active in RULE_SETS {
    if let Some(o) = only_rules {
      if o != active {
        continue;
      }
    }
    let exp = ref_suppress(&lay, active);
    st.cases.fetch_add(1, Ordering::Relaxed);
    if exp.silencing_pairs > 0 {
      st.nontrivial.fetch_add(1, Ordering::Relaxed);
    }
    let n_active = lay.findings.iter().filter(|f| active.contains(&f.rule)).count();
    let n_reported: usize = exp.reported.values().map(|s| s.len()).sum();
    if n_reported < n_active {
      st.with_suppressed.fetch_add(1, Ordering::Relaxed);
    }
    if !exp.unused.is_empty() {
      st.with_unused.fetch_add(1, Ordering::Relaxed);
    }
    if two_comment_line {
      st.with_two_comments_line.fetch_add(1, Ordering::Relaxed);
    }
    let exp_json = || json!({
      "reported": exp.reported.iter().map(|(r, s)| (RULE_IDS[*r].to_string(), json!(s.iter().map(|x| json!({"line": x.0, "range": [x.1, x.2]})).collect::<Vec<_>>()))).collect::<serde_json::Map<_, _>>(),
      "unused_comments": exp.unused.iter().map(|&i| json!({"line": lay.comments[i].line, "range": [lay.comments[i].range.0, lay.comments[i].range.1]})).collect::<Vec<_>>(),
    });
    let rules_json: Vec<&str> = active.iter().map(|&r| RULE_IDS[r]).collect();
    let mut disagreed = false;
    for separate_fix in [false, true] {
      st.evaluations.fetch_add(1, Ordering::Relaxed);
      let case = |extra: Value| {
        let mut c = json!({
          "lang": spec.name, "block": block, "table": tab_name, "lines": lines, "rules": rules_json,
          "separate_fix": separate_fix, "source": lay.source, "expected": exp_json(),
        });
        for (k, v) in extra.as_object().unwrap() {
          c[k] = v.clone();
        }
        c
      };
      match observe(sub, active, &root, separate_fix) {
        Err(msg) => {
          let m: String = msg.chars().map(|c| if c.is_ascii_digit() { '#' } else { c }).take(80).collect();
          out.violations.push((format!("scan-panic:{m}"), case(json!({"panic": msg, "at": last_panic_loc()}))));
          disagreed = true;
        }
        Ok(obs) => {
          let items = compare(spec, &lay, active, &exp, &obs);
          if items.is_empty() {
            continue;
          }
          disagreed = true;
          let obs_json: serde_json::Map<String, Value> = obs
            .iter()
            .map(|(k, v)| (k.clone(), json!(v.iter().map(|x| json!({"line": x.0, "range": [x.1, x.2]})).collect::<Vec<_>>())))
            .collect();
          // one violation per distinct signature; each carries every disagreement of the case
          let all: Vec<Value> = items.iter().map(|it| json!({"sig": it.sig(), "where": it.detail})).collect();
          let sigs: BTreeSet<String> = items.iter().map(|it| it.sig()).collect();
          for sig in sigs {
            out.violations.push((sig, case(json!({"observed": obs_json, "disagreements": all}))));
          }
        }
      }
    }
    if disagreed {
      st.disagreeing_cases.fetch_add(1, Ordering::Relaxed);
    }
  }
  out
}

/// check every comment-free layout of the grid once: planted findings == find_all
fn preverify(spec: &LangSpec, sub: &Subject, block: bool, n: usize) -> HashSet<String> {
  let mut set = HashSet::new();
  let total = 6u64.pow(n as u32);
  for idx in 0..total {
    let mut x = idx;
    let mut lines = vec![0; n];
    for i in (0..n).rev() {
      lines[i] = (x % 6) as usize * 6; // statement index, no comment
      x /= 6;
    }
    let lay = build(spec, block, &BASE_TABLE, &lines);
    let root = spec.lang.ast_grep(&lay.source);
    let mut planted = lay.findings.clone();
    planted.sort();
    if found(sub, &root) != planted {
      machinery(&format!("planted findings differ from find_all on comment-free {:?} ({})", lay.source, spec.name));
    }
    set.insert(lay.source);
  }
  set
}

/// a few actual cases of the explored space with what the reference expects (fixed choice)
fn fixed_samples(thorough: bool) -> Value {
  let tok = |stmt: usize, comment: usize| stmt * 6 + comment; // 0 = none
  let mut picks: Vec<(usize, bool, &str, Vec<usize>, &[usize])> = vec![
    (0, false, "base", vec![tok(0, 2), tok(3, 0), tok(1, 5)], &[0, 1]),
    (1, false, "base", vec![tok(4, 3), tok(0, 1), tok(2, 0)], &[1]),
    (2, false, "base", vec![tok(0, 1), tok(3, 0), tok(5, 4)], &[0, 1]),
    (0, false, "spelling", vec![tok(0, 2), tok(4, 0)], &[0, 1]),
    (1, true, "base", vec![tok(1, 1), tok(0, 3)], &[0, 1]),
    (0, false, "base", vec![tok(0, 1), tok(1, 3)], &[0]),
  ];
  if thorough {
    picks.push((2, false, "base", vec![tok(0, 4), tok(4, 2), tok(0, 0), tok(2, 1)], &[0, 1]));
  }
  let mut out = vec![];
  for (li, block, tab, lines, active) in picks {
    let lay = build(&LANGS[li], block, table(tab), &lines);
    let exp = ref_suppress(&lay, active);
    out.push(json!({
      "lang": LANGS[li].name, "block": block, "table": tab, "lines": lines, "source": lay.source,
      "rules": active.iter().map(|&r| RULE_IDS[r]).collect::<Vec<_>>(),
      "expected_reported": exp.reported.iter().map(|(r, s)| (RULE_IDS[*r].to_string(), json!(s.iter().map(|x| &lay.source[x.1..x.2]).collect::<Vec<_>>()))).collect::<serde_json::Map<_, _>>(),
      "expected_unused_comments": exp.unused.iter().map(|&i| json!({"line": lay.comments[i].line, "text": &lay.source[lay.comments[i].range.0..lay.comments[i].range.1]})).collect::<Vec<_>>(),
    }));
  }
  json!(out)
}

fn main() {
  let args = Args::parse();
  quiet_panics();
  let rep = Reporter::new("C14", args.clone());
  let subjects: Vec<Subject> = LANGS.iter().map(load_subject).collect();
  let st = Stats::default();

  if let Some(p) = &args.replay {
    let v: Value = serde_json::from_str(&std::fs::read_to_string(p).unwrap_or_else(|e| machinery(&format!("cannot read replay: {e}"))))
      .unwrap_or_else(|e| machinery(&format!("replay does not parse: {e}")));
    let case = &v["case"];
    let li = LANGS.iter().position(|l| Some(l.name) == case["lang"].as_str()).unwrap_or_else(|| machinery("replay: unknown lang"));
    let block = case["block"].as_bool().unwrap_or(false);
    let tab = case["table"].as_str().unwrap_or("base").to_string();
    let lines: Vec<usize> = case["lines"].as_array().unwrap_or_else(|| machinery("replay: no lines")).iter().map(|x| x.as_u64().unwrap() as usize).collect();
    let rules: Vec<usize> = case["rules"].as_array().unwrap_or_else(|| machinery("replay: no rules")).iter().map(|x| RULE_IDS.iter().position(|r| Some(*r) == x.as_str()).unwrap()).collect();
    let lay = build(&LANGS[li], block, table(&tab), &lines);
    if Some(lay.source.as_str()) != case["source"].as_str() {
      machinery("replay: the line alphabet changed, the stored source is not reproduced");
    }
    let out = eval_layout(&LANGS[li], &subjects[li], None, block, &tab, &lines, Some(&rules), &st);
    let want_fix = case["separate_fix"].as_bool();
    let mut still = false;
    println!("source:\n{}", lay.source);
    println!("rules: {}", case["rules"]);
    let want_sig = v["sig"].as_str();
    for (sig, c) in &out.violations {
      if want_fix.is_some() && c["separate_fix"].as_bool() != want_fix {
        continue;
      }
      if want_sig.is_some() && want_sig != Some(sig.as_str()) {
        println!("(the case also shows another disagreement: {sig})");
        continue;
      }
      still = true;
      println!("sig: {sig}\nseparate_fix: {}\nexpected: {}\nobserved: {}\ndisagreements: {}", c["separate_fix"], c["expected"], c["observed"], c["disagreements"]);
    }
    if !still {
      println!("observed == expected (no violation)");
    }
    std::process::exit(if still { 1 } else { 0 });
  }

  let thorough = args.thorough();
  let mut grids: Vec<Grid> = vec![];
  for lang in 0..LANGS.len() {
    // (the preprocessor-line family is about the block header: block grids only)
    let header_family = LANGS[lang].name == "c-after-preprocessor-line";
    for n in 1..=(if header_family { 0 } else if thorough { 4 } else { 3 }) {
      grids.push(Grid { lang, block: false, table: "base", n });
    }
    for n in 1..=(if header_family { 0 } else if thorough { 3 } else { 2 }) {
      grids.push(Grid { lang, block: false, table: "spelling", n });
    }
    for n in 1..=(if thorough { 3 } else { 2 }) {
      grids.push(Grid { lang, block: true, table: "base", n });
    }
    for n in 1..=(if thorough { 2 } else { 1 }) {
      grids.push(Grid { lang, block: true, table: "spelling", n });
    }
  }
  let mut per_grid = vec![];
  for g in &grids {
    let spec = &LANGS[g.lang];
    let sub = &subjects[g.lang];
    let verified = preverify(spec, sub, g.block, g.n);
    let total = (A as u64).pow(g.n as u32);
    let before = st.cases.load(Ordering::Relaxed);
    (0..total).into_par_iter().for_each(|idx| {
      let lines = decode(idx, g.n);
      // the spelling sub-grid repeats comment-free layouts of the base grid: skip them
      if g.table != "base" && lines.iter().all(|t| t % 6 == 0) {
        return;
      }
      let out = eval_layout(spec, sub, Some(&verified), g.block, g.table, &lines, None, &st);
      for (sig, case) in out.violations {
        rep.violation(&sig, case);
      }
    });
    per_grid.push(json!({"lang": spec.name, "block": g.block, "id_list_table": g.table, "lines": g.n, "layouts": total, "cases": st.cases.load(Ordering::Relaxed) - before}));
  }
  let g = |a: &AtomicU64| a.load(Ordering::Relaxed);
  let cov = json!({
    "evaluations": g(&st.evaluations),
    "distinct_nontrivial": g(&st.nontrivial),
    "rule": "a case = (language, block?, id-list table, line sequence, rule set); all cases are distinct by construction (comment-free layouts of the spelling sub-grid are skipped as repeats). Non-trivial = at least one suppression comment governs the start line of, and names, a finding of an active rule (so something must be silenced). evaluations = cases x separate_fix in {false,true}, each one real CombinedScan::scan compared with ref_suppress",
    "samples": fixed_samples(thorough),
    "exhaustive": true,
    "bounds": {
      "line_alphabet": "36 = {blank, r1 finding, r2 finding, both nested, both sequential, non-matching} x {no comment, ast-grep-ignore with 5 id lists}",
      "max_lines": if thorough { 4 } else { 3 },
      "languages": LANGS.iter().map(|l| l.name).collect::<Vec<_>>(),
      "rule_sets": ["r1", "r2", "r1+r2"],
      "id_lists_base": BASE_TABLE.iter().map(|t| t.tail).collect::<Vec<_>>(),
      "id_lists_spelling": SPELL_TABLE.iter().map(|t| t.tail).collect::<Vec<_>>(),
      "spelling_subgrid_max_lines": if thorough { 3 } else { 2 },
      "indented_block_variant_max_lines": if thorough { json!({"base": 3, "spelling": 2}) } else { json!({"base": 2, "spelling": 1}) },
    },
    "grids": per_grid,
    "cases": g(&st.cases),
    "cases_with_a_suppressed_finding_expected": g(&st.with_suppressed),
    "cases_with_an_unused_comment_expected": g(&st.with_unused),
    "cases_with_a_line_governed_by_two_comments": g(&st.with_two_comments_line),
    "disagreeing_cases": g(&st.disagreeing_cases),
    "layouts_not_judged_parse_error": g(&st.not_judged_parse_error),
  });
  rep.finish(
    "exploration",
    cov,
    vec![
      "comments are single-line, well-formed, generated (their lines and id lists are known, not re-derived from the tree); a trailing comment follows a single-line statement; in the two-line-statement family a comment requested for a statement line is an own-line comment INSIDE the statement (governs its second line, silences nothing)".into(),
      "where a finding is reported (matches vs diffs) and in which order is not judged: per rule id the multiset of (start line, byte range) is compared".into(),
      "harness sanity (exit 2, never a verdict): planted findings equal find_all of each rule's matcher on the source and on its comment-free copy".into(),
      "dev profile, opt-level 1; deterministic".into(),
    ],
  );
}
