//! C10 — editing a parsed document is indistinguishable from parsing the edited text.
//! Explicit-state model checking: states = document texts, transitions = edits executed by the
//! real AstGrep::edit / AstGrep::replace; BFS over edit histories, deduplicated by text.
//! Invariant (checked after every transition): source() == ref_splice, and when the new text
//! parses without errors from scratch, the incremental tree dump == the fresh tree dump.

use ast_grep_core::source::Edit;
use ast_grep_core::{AstGrep, Language, Node};
use rayon::prelude::*;
use serde_json::json;
use std::collections::HashSet;
use std::sync::atomic::{AtomicU64, Ordering};
use vcore::dump::*;
use vcore::gen;
use vcore::langs::{spec_by_name, LangSpec};
use vcore::report::*;
use vcore::rules::D;

type Dump = Vec<(u16, bool, usize, usize, usize, usize, usize, usize)>;

fn dump(n: &Node<D>, out: &mut Dump) {
  let r = n.range();
  let s = n.start_pos();
  let e = n.end_pos();
  // byte columns straight from tree-sitter's points
  out.push((n.kind_id(), n.is_named(), r.start, r.end, s.line(), s.ts_point().column() as usize, e.line(), e.ts_point().column() as usize));
  for c in children_vec(n) {
    dump(&c, out);
  }
}

#[derive(Clone, Debug)]
enum Op {
  Edit { pos: usize, del: usize, ins: String },
  Replace { pattern: String, fix: String },
}

impl Op {
  fn json(&self) -> serde_json::Value {
    match self {
      Op::Edit { pos, del, ins } => json!({"edit": {"position": pos, "deleted_length": del, "inserted_text": ins}}),
      Op::Replace { pattern, fix } => json!({"replace": {"pattern": pattern, "fix": fix}}),
    }
  }
}

const INSERTS_FULL: &[&str] = &["", "x", " ", "\n", "é", "(", ")", "1;", "\n  b\n"];
const INSERTS_SMALL: &[&str] = &["", "x", "\n", "é", "("];

fn ops_for(text: &str, root: &AstGrep<D>, full: bool, replaces: &[(&str, &str)]) -> Vec<Op> {
  let mut node_lens: std::collections::BTreeMap<usize, Vec<usize>> = Default::default();
  let mut nodes = vec![];
  all_nodes(&root.root(), &mut nodes);
  for n in &nodes {
    let r = n.range();
    if !r.is_empty() && r.end <= text.len() {
      node_lens.entry(r.start).or_default().push(r.len());
    }
  }
  let inserts = if full { INSERTS_FULL } else { INSERTS_SMALL };
  let mut out = vec![];
  for pos in (0..=text.len()).filter(|p| text.is_char_boundary(*p)) {
    let mut dels: Vec<usize> = vec![0, 1, 2];
    if full {
      if let Some(ls) = node_lens.get(&pos) {
        dels.extend(ls.iter().cloned());
      }
    }
    dels.sort();
    dels.dedup();
    for del in dels {
      if pos + del > text.len() || !text.is_char_boundary(pos + del) {
        continue;
      }
      for ins in inserts {
        if del == 0 && ins.is_empty() {
          continue;
        }
        out.push(Op::Edit { pos, del, ins: ins.to_string() });
      }
    }
  }
  for (p, f) in replaces {
    out.push(Op::Replace { pattern: p.to_string(), fix: f.to_string() });
  }
  out
}

fn ref_apply(text: &str, op: &Op) -> Option<String> {
  match op {
    Op::Edit { pos, del, ins } => {
      let b = vcore::refs::splice(text.as_bytes(), &[(*pos, *del, ins.as_bytes().to_vec())]);
      String::from_utf8(b).ok()
    }
    Op::Replace { .. } => None, // the edit comes from the real matcher; text checked via the edit it produced
  }
}

struct Stats {
  transitions: AtomicU64,
  judged_trees: AtomicU64,
  replace_hits: AtomicU64,
}

/// run one history from the initial text on the real implementation; returns the final doc
fn run_history(spec: &LangSpec, init: &str, hist: &[Op]) -> AstGrep<D> {
  let mut g = spec.lang.ast_grep(init);
  for op in hist {
    apply(&mut g, op);
  }
  g
}

fn apply(g: &mut AstGrep<D>, op: &Op) -> Option<(usize, usize, Vec<u8>)> {
  match op {
    Op::Edit { pos, del, ins } => {
      g.edit(Edit { position: *pos, deleted_length: *del, inserted_text: ins.as_bytes().to_vec() }).expect("edit");
      Some((*pos, *del, ins.as_bytes().to_vec()))
    }
    Op::Replace { pattern, fix } => {
      // the edit the library proposes is recorded for the reference splice; the document itself is
      // changed through the FUSED call AstGrep::replace (find + make the edit + apply it)
      let e = g.root().replace(pattern.as_str(), fix.as_str())?;
      let rec = (e.position, e.deleted_length, e.inserted_text.clone());
      let changed = g.replace(pattern.as_str(), fix.as_str()).expect("replace");
      assert!(changed, "AstGrep::replace found nothing although Node::replace proposed an edit");
      Some(rec)
    }
  }
}

fn check_transition(rep: &Reporter, spec: &LangSpec, init: &str, hist: &[Op], prev: &AstGrep<D>, op: &Op, st: &Stats) -> Option<(String, AstGrep<D>)> {
  st.transitions.fetch_add(1, Ordering::Relaxed);
  let before = prev.source().to_string();
  let mut g = prev.clone();
  let case = |extra: serde_json::Value| {
    let mut h: Vec<serde_json::Value> = hist.iter().map(|o| o.json()).collect();
    h.push(op.json());
    json!({"lang": spec.name, "initial": init, "history": h, "text_before_last_op": before, "detail": extra})
  };
  let res = guarded(std::panic::AssertUnwindSafe(|| apply(&mut g, op)));
  let applied = match res {
    Ok(a) => a,
    Err(msg) => {
      rep.violation("panic", case(json!({"panic": msg, "at": last_panic_loc()})));
      return None;
    }
  };
  let Some((pos, del, ins)) = applied else {
    return None; // replace found nothing: no transition
  };
  if matches!(op, Op::Replace { .. }) {
    st.replace_hits.fetch_add(1, Ordering::Relaxed);
  }
  let want = match ref_apply(&before, op) {
    Some(w) => w,
    None => {
      if pos + del > before.len() {
        rep.violation("replace-edit-out-of-range", case(json!({"edit": [pos, del]})));
        return None;
      }
      match String::from_utf8(vcore::refs::splice(before.as_bytes(), &[(pos, del, ins)])) {
        Ok(s) => s,
        Err(_) => {
          rep.violation("replace-edit-not-utf8", case(json!({"edit": [pos, del]})));
          return None;
        }
      }
    }
  };
  // the description of the edit handed to tree-sitter: byte offsets and (row, byte column) points
  // of the start, of the old end in the OLD text and of the new end in the NEW text
  if let Op::Edit { pos, del, ins } = op {
    use ast_grep_core::source::Content;
    let mut scratch = before.clone();
    let ie = scratch.accept_edit(&Edit::<String> { position: *pos, deleted_length: *del, inserted_text: ins.as_bytes().to_vec() });
    let pt = |t: &str, off: usize| -> (usize, usize) {
      let b = &t.as_bytes()[..off];
      let row = b.iter().filter(|c| **c == b'\n').count();
      let col = off - b.iter().rposition(|c| *c == b'\n').map(|i| i + 1).unwrap_or(0);
      (row, col)
    };
    let got = (
      ie.start_byte() as usize, ie.old_end_byte() as usize, ie.new_end_byte() as usize,
      (ie.start_position().row() as usize, ie.start_position().column() as usize),
      (ie.old_end_position().row() as usize, ie.old_end_position().column() as usize),
      (ie.new_end_position().row() as usize, ie.new_end_position().column() as usize),
    );
    let exp = (*pos, pos + del, pos + ins.len(), pt(&before, *pos), pt(&before, pos + del), pt(&want, pos + ins.len()));
    if got != exp {
      let which = if got.0 != exp.0 || got.1 != exp.1 || got.2 != exp.2 { "bytes" } else if got.3 != exp.3 { "start-point" } else if got.4 != exp.4 { "old-end-point" } else { "new-end-point" };
      rep.violation(&format!("input-edit-description-wrong:{which}"), case(json!({"got": format!("{got:?}"), "want": format!("{exp:?}")})));
    }
    if scratch != want {
      rep.violation("accept_edit-text-differs-from-splice", case(json!({"got": scratch, "want": want})));
    }
  }
  let text = g.source().to_string();
  if text != want {
    rep.violation("source-differs-from-splice", case(json!({"got": text, "want": want})));
    return None;
  }
  let fresh = spec.lang.ast_grep(&text);
  if !has_error(&fresh.root()) {
    st.judged_trees.fetch_add(1, Ordering::Relaxed);
    let (mut a, mut b) = (vec![], vec![]);
    dump(&g.root(), &mut a);
    dump(&fresh.root(), &mut b);
    if a != b {
      let kind = if has_error(&g.root()) { "incremental-tree-has-error" } else { "tree-differs" };
      // the fresh parse reads a reserved word as an identifier (tree-sitter keyword extraction):
      // the one situation in which tree-sitter's own incremental parse is known to differ
      let mut fresh_nodes = vec![];
      all_nodes(&fresh.root(), &mut fresh_nodes);
      let kw = fresh_nodes.iter().any(|n| {
        n.kind() == "identifier" && matches!(&*n.text(), "else" | "elif" | "if" | "except" | "finally" | "in" | "is" | "not" | "and" | "or")
      });
      let tag = if kw { format!("{}:keyword-as-identifier", spec.name) } else { format!("depth{}", hist.len() + 1) };
      rep.violation(
        &format!("{kind}:{tag}:{}", match op { Op::Edit { .. } => "edit", Op::Replace { .. } => "replace" }),
        case(json!({"text": text, "incremental_sexp": g.root().to_sexp(), "fresh_sexp": fresh.root().to_sexp()})),
      );
    }
  }
  Some((text, g))
}

fn initial_texts(spec: &LangSpec, n: usize) -> Vec<String> {
  let mut out: Vec<String> = spec.corpus.iter().map(|s| s.to_string()).collect();
  let mut shapes = HashSet::new();
  let total = gen::count(spec.tokens.len(), 4);
  for i in 0..total {
    if out.len() >= n + spec.corpus.len() {
      break;
    }
    let src = gen::nth(spec.tokens, 4, i);
    let g = spec.lang.ast_grep(&src);
    if has_error(&g.root()) || src.split(' ').count() < 3 {
      continue;
    }
    if shapes.insert(shape(&g.root())) {
      out.push(src);
    }
  }
  out
}

fn replaces(lang: &str) -> Vec<(&'static str, &'static str)> {
  match lang {
    "html" => vec![("<a>", "<b>")],
    "css" => vec![("a", "b")],
    // (the last two: a replacement that is a proper PREFIX of the replaced text, and an empty one)
    _ => vec![("a", "(a)"), ("$X + $Y", "$Y + $X"), ("1", "2\n"), ("$X + $Y", "$X"), ("b", "")],
  }
}

fn main() {
  let args = Args::parse();
  quiet_panics();
  let rep = Reporter::new("C10", args.clone());
  if let Some(p) = &args.replay {
    let v: serde_json::Value = serde_json::from_str(&std::fs::read_to_string(p).unwrap()).unwrap();
    let case = &v["case"];
    let spec = spec_by_name(case["lang"].as_str().unwrap()).unwrap();
    let init = case["initial"].as_str().unwrap();
    let hist: Vec<Op> = case["history"]
      .as_array()
      .unwrap()
      .iter()
      .map(|o| {
        if let Some(e) = o.get("edit") {
          Op::Edit { pos: e["position"].as_u64().unwrap() as usize, del: e["deleted_length"].as_u64().unwrap() as usize, ins: e["inserted_text"].as_str().unwrap().to_string() }
        } else {
          Op::Replace { pattern: o["replace"]["pattern"].as_str().unwrap().into(), fix: o["replace"]["fix"].as_str().unwrap().into() }
        }
      })
      .collect();
    let g = run_history(spec, init, &hist);
    let fresh = spec.lang.ast_grep(g.source());
    println!("text: {:?}\nincremental: {}\nfresh:       {}", g.source(), g.root().to_sexp(), fresh.root().to_sexp());
    let (mut a, mut b) = (vec![], vec![]);
    dump(&g.root(), &mut a);
    dump(&fresh.root(), &mut b);
    std::process::exit(if a != b { 1 } else { 0 });
  }
  let plan: Vec<(&str, usize)> = if args.thorough() {
    vec![("javascript", 24), ("typescript", 16), ("tsx", 12), ("python", 24), ("rust", 20), ("c", 16), ("html", 12), ("css", 12), ("go", 6), ("java", 6), ("ruby", 6), ("json", 6), ("yaml", 6), ("bash", 6)]
  } else {
    vec![("javascript", 16), ("typescript", 8), ("python", 16), ("rust", 10), ("c", 8), ("html", 6), ("css", 6)]
  };
  let max_depth = if args.thorough() { 3 } else { 2 };
  let st = Stats { transitions: AtomicU64::new(0), judged_trees: AtomicU64::new(0), replace_hits: AtomicU64::new(0) };
  let samples = Samples::new(6);
  let mut states_total = 0u64;
  let mut per_lang = vec![];
  for (lang, n_init) in plan {
    let spec = spec_by_name(lang).unwrap();
    let inits = initial_texts(spec, n_init);
    let reps = replaces(lang);
    // read-only during a level's parallel phase; extended sequentially (in deterministic
    // order) between levels, so the representative history of a text does not depend on timing
    let mut seen_lang: HashSet<String> = HashSet::new();
    let mut n_states_lang = 0u64;
    // level-synchronous BFS over all initial texts; a state is (initial, history), identified by its text
    let mut frontier: Vec<(usize, Vec<Op>, String)> = vec![];
    for (i, init) in inits.iter().enumerate() {
      if seen_lang.insert(init.clone()) {
        frontier.push((i, vec![], init.clone()));
        n_states_lang += 1;
      }
    }
    let (cap2, cap3) = if args.thorough() { (48, 14) } else { (34, 10) };
    for depth in 1..=max_depth {
      let full = depth == 1;
      let seen_ref = &seen_lang;
      let cand: Vec<(usize, Vec<Op>, String)> = frontier
        .par_iter()
        .flat_map(|(ii, hist, text)| {
          let init = &inits[*ii];
          // deeper levels: only from error-free states of bounded length, reduced alphabet
          if depth >= 2 {
            let fresh = spec.lang.ast_grep(text);
            let cap = if depth == 2 { cap2 } else { cap3 };
            if has_error(&fresh.root()) || text.len() > cap {
              return vec![];
            }
          }
          let prev = run_history(spec, init, hist);
          let ops = ops_for(text, &prev, full, if full { &reps } else { &[] });
          let mut out = vec![];
          for op in ops {
            if let Some((t, _)) = check_transition(&rep, spec, init, hist, &prev, &op, &st) {
              if !seen_ref.contains(&t) {
                let mut h = hist.clone();
                h.push(op);
                out.push((*ii, h, t));
              }
            }
          }
          out
        })
        .collect();
      let mut next = vec![];
      for (ii, h, t) in cand {
        if seen_lang.insert(t.clone()) {
          next.push((ii, h, t));
        }
      }
      n_states_lang += next.len() as u64;
      if std::env::var("VERIF_DEBUG").is_ok() {
        eprintln!("{lang} depth {depth}: frontier {} -> {} new states, t={:.1}s", frontier.len(), next.len(), rep.elapsed());
      }
      if depth == 2 {
        if let Some((ii, h, t)) = next.get(next.len() / 2) {
          samples.offer(|| json!({"lang": lang, "initial": inits[*ii], "history": h.iter().map(|o| o.json()).collect::<Vec<_>>(), "text": t}));
        }
      }
      frontier = next;
    }
    states_total += n_states_lang;
    per_lang.push(json!({"lang": lang, "initial_texts": inits.len(), "states": n_states_lang}));
  }
  let cov = json!({
    "states": states_total,
    "transitions": st.transitions.load(Ordering::Relaxed),
    "traces_validated_against_impl": st.transitions.load(Ordering::Relaxed),
    "samples": samples.take(),
    "evaluations": st.transitions.load(Ordering::Relaxed),
    "distinct_nontrivial": st.judged_trees.load(Ordering::Relaxed),
    "rule": "states = distinct document texts reached (per language); transitions = every edit of the alphabet (position = every char boundary; delete in {0,1,2, length of a node starting there}; insert in a 9-string alphabet incl. newline and multi-byte; plus AstGrep::replace with 1-3 patterns) executed on the real AstGrep from every state, BFS to max_depth (depth >= 2 from error-free states with a reduced alphabet); every transition is executed on the implementation; distinct_nontrivial = transitions whose resulting text parses without errors, i.e. whose tree equality was judged",
    "exhaustive": true,
    "max_depth": max_depth,
    "expansion_caps": "depth-2 transitions are taken from error-free states of at most 34 (thorough 48) bytes, depth-3 from at most 10 (thorough 14) bytes; depth 1 is unrestricted",
    "replace_transitions_that_matched": st.replace_hits.load(Ordering::Relaxed),
    "per_language": per_lang,
  });
  rep.finish(
    "model_checking",
    cov,
    vec![
      "states with equal text are merged: if the invariant holds in both they have the same futures (the tree is then the fresh tree)".into(),
      "tree equality is judged only when the resulting text parses without errors from scratch, as the property states; text equality is always judged".into(),
      "dev profile (debug assertions on), opt-level 1".into(),
    ],
  );
}
