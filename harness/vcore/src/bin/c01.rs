//! C01 (library layers) — search completeness: no index or prefilter drops or invents a match.
//! (a) Node::find_all(m) == ref_find(m) (per-node brute force) for patterns x strictness,
//!     contextual patterns, kind matchers, rule cores (incl. utility graphs in every
//!     registration order);
//! (b) every node matched by brute force has its kind in potential_kinds() when that is Some;
//! (c) Visitor::reentrant(false) / Node::replace_all == outermost filter of ref_find;
//! (d) CombinedScan::scan (both modes) == per-rule ref_find for every subset <= 3 of a pool.
//! The CLI layer (e) lives in pychecks/c01_cli.py and is merged by ./check.

use ast_grep_config::{from_str, from_yaml_string, CombinedScan, DeserializeEnv, GlobalRules, RuleConfig, SerializableRuleCore};
use ast_grep_core::matcher::{KindMatcher, MatcherExt};
use ast_grep_core::traversal::Visitor;
use ast_grep_core::{AstGrep, Language, Matcher, Node, Pattern};
use ast_grep_language::SupportLang;
use rayon::prelude::*;
use serde_json::{json, Value};
use std::collections::{BTreeMap, BTreeSet};
use std::sync::atomic::{AtomicU64, Ordering};
use std::sync::Mutex;
use vcore::cuts::cuts_of;
use vcore::dump::*;
use vcore::gen;
use vcore::langs::{spec_by_name, LangSpec};
use vcore::pats::*;
use vcore::report::*;
use vcore::rulegen::*;
use vcore::rules::*;

type Rg = (usize, usize);
fn rg(n: &Node<D>) -> Rg {
  (n.range().start, n.range().end)
}

/// ref_find: plain recursion over child(i), match_node on every node. Returns
/// (candidate range, candidate kind id, returned-node range) in document order.
fn ref_find<M: Matcher<SupportLang>>(m: &M, root: &Node<D>) -> Vec<(Rg, u16, Rg)> {
  fn go<M: Matcher<SupportLang>>(m: &M, n: &Node<D>, out: &mut Vec<(Rg, u16, Rg)>) {
    if let Some(nm) = m.match_node(n.clone()) {
      out.push((rg(n), n.kind_id(), rg(nm.get_node())));
    }
    let mut i = 0;
    while let Some(c) = n.child(i) {
      go(m, &c, out);
      i += 1;
    }
  }
  let mut out = vec![];
  go(m, root, &mut out);
  out
}

/// outermost filter over candidate nodes in pre-order: drop a match whose candidate lies
/// inside an earlier kept candidate
fn ref_outermost<M: Matcher<SupportLang>>(m: &M, root: &Node<D>) -> Vec<Rg> {
  fn go<M: Matcher<SupportLang>>(m: &M, n: &Node<D>, out: &mut Vec<Rg>) {
    if m.match_node(n.clone()).is_some() {
      out.push(rg(n));
      return;
    }
    let mut i = 0;
    while let Some(c) = n.child(i) {
      go(m, &c, out);
      i += 1;
    }
  }
  let mut out = vec![];
  go(m, root, &mut out);
  out
}

#[derive(Default)]
struct Stats {
  evals: AtomicU64,
  with_match: AtomicU64,
  kinds_effective: AtomicU64,
  combined: AtomicU64,
}

struct Case<'a> {
  rep: &'a Reporter,
  st: &'a Stats,
  lang: &'a str,
  class: String,
  desc: Value,
}

/// layers (a) and (b) (and (c) when `overlap_free`) for one matcher on one tree
fn check_matcher<M: Matcher<SupportLang>>(c: &Case, m: &M, src: &str, root: &AstGrep<D>, overlap_free: bool) {
  c.st.evals.fetch_add(1, Ordering::Relaxed);
  let r = root.root();
  let res = guarded(std::panic::AssertUnwindSafe(|| {
    let want = ref_find(m, &r);
    let got: Vec<Rg> = r.find_all(m).map(|nm| rg(nm.get_node())).collect();
    let kinds = m.potential_kinds();
    let outer = if overlap_free {
      let v: Vec<Rg> = Visitor::new(m).reentrant(false).visit(r.clone()).map(|nm| rg(nm.get_node())).collect();
      let e: Vec<usize> = r.replace_all(m, "x").into_iter().map(|e| e.position).collect();
      Some((ref_outermost(m, &r), v, e))
    } else {
      None
    };
    (want, got, kinds, outer)
  }));
  let (want, got, kinds, outer) = match res {
    Ok(x) => x,
    Err(msg) => {
      c.rep.violation(
        &format!("panic:{}:{}", c.class, msg.chars().take(50).collect::<String>()),
        json!({"lang": c.lang, "matcher": c.desc, "src": src, "panic": msg, "at": last_panic_loc()}),
      );
      return;
    }
  };
  if !want.is_empty() {
    c.st.with_match.fetch_add(1, Ordering::Relaxed);
  }
  let want_ret: Vec<Rg> = want.iter().map(|w| w.2).collect();
  if want_ret != got {
    c.rep.violation(
      &format!("find_all-differs:{}", c.class),
      json!({"lang": c.lang, "matcher": c.desc, "src": src, "brute_force": want_ret, "find_all": got}),
    );
  }
  if let Some(k) = &kinds {
    let mut excluded_some = false;
    for (cand, kind, _) in &want {
      if !k.contains(*kind as usize) {
        c.rep.violation(
          &format!("kind-set-too-small:{}", c.class),
          json!({"lang": c.lang, "matcher": c.desc, "src": src, "node": cand, "kind_id": kind}),
        );
      }
    }
    let mut nodes = vec![];
    all_nodes(&r, &mut nodes);
    if nodes.iter().any(|n| !k.contains(n.kind_id() as usize)) {
      excluded_some = true;
    }
    if excluded_some && !want.is_empty() {
      c.st.kinds_effective.fetch_add(1, Ordering::Relaxed);
    }
  }
  if let Some((o_want, o_vis, o_edits)) = outer {
    if o_want != o_vis {
      c.rep.violation(
        &format!("overlap-free-differs:{}", c.class),
        json!({"lang": c.lang, "matcher": c.desc, "src": src, "outermost": o_want, "visitor": o_vis}),
      );
    }
    let starts: Vec<usize> = o_want.iter().map(|r| r.0).collect();
    if starts != o_edits {
      c.rep.violation(
        &format!("replace_all-differs:{}", c.class),
        json!({"lang": c.lang, "matcher": c.desc, "src": src, "outermost_starts": starts, "edit_positions": o_edits}),
      );
    }
  }
}

fn trees(spec: &LangSpec, l: usize) -> Vec<(String, AstGrep<D>)> {
  let total = gen::count(spec.tokens.len(), l);
  let mut srcs: Vec<String> = (0..total).map(|i| gen::nth(spec.tokens, l, i)).collect();
  srcs.extend(spec.corpus.iter().map(|s| s.to_string()));
  srcs
    .into_par_iter()
    .map(|s| {
      let g = spec.lang.ast_grep(&s);
      (s, g)
    })
    .collect()
}

fn pattern_class(p: &Pattern<SupportLang>, sname: &str) -> String {
  use ast_grep_core::matcher::PatternNode as PN;
  let root = match &p.node {
    PN::MetaVar { .. } => "metavar-root",
    PN::Terminal { kind_id, .. } if *kind_id == 65535 => "error-terminal-root",
    PN::Terminal { .. } => "terminal-root",
    PN::Internal { kind_id, .. } if *kind_id == 65535 => "error-root",
    PN::Internal { .. } => "internal-root",
  };
  format!("pattern:{sname}:{root}")
}

/// utility documents: dependencies through composite operators, relations, stopBy rules and
/// nthChild.ofRule
fn util_docs(la: &LangAtoms) -> Vec<RuleDoc> {
  let k = |i: usize| R::Kind(la.kinds[i].to_string());
  let m = |s: &str| R::Matches(s.to_string());
  let mut docs = vec![];
  let mk = |rule: R, utils: Vec<(&str, R)>| RuleDoc {
    rule,
    utils: utils.into_iter().map(|(a, b)| (a.to_string(), b)).collect(),
    constraints: BTreeMap::new(),
    globals: BTreeMap::new(),
  };
  // chain through any/all/not
  docs.push(mk(m("u2"), vec![("u0", k(0)), ("u1", R::Any(vec![m("u0"), k(2)])), ("u2", R::All(vec![m("u1"), R::Not(Box::new(k(2)))]))]));
  docs.push(mk(R::Any(vec![m("u1"), m("u2")]), vec![("u0", k(0)), ("u1", R::Any(vec![m("u0"), k(1)])), ("u2", k(2))]));
  // through relations
  for relk in 0..4 {
    let rel = Rel { rule: m("u0"), stop: Stop::End, field: None };
    let r = match relk {
      0 => R::Inside(Box::new(rel)),
      1 => R::Has(Box::new(rel)),
      2 => R::Precedes(Box::new(rel)),
      _ => R::Follows(Box::new(rel)),
    };
    docs.push(mk(R::Any(vec![m("u1"), m("u2")]), vec![("u0", k(0)), ("u1", R::Obj(vec![k(1), r.clone()])), ("u2", R::Obj(vec![k(0), R::Not(Box::new(m("u1")))]))]));
  }
  // through a stopBy rule
  docs.push(mk(
    m("u1"),
    vec![("u0", k(1)), ("u1", R::Obj(vec![k(0), R::Inside(Box::new(Rel { rule: k(3), stop: Stop::Rule(Box::new(m("u0"))), field: None }))])), ("u2", k(2))],
  ));
  // through nthChild.ofRule (its kind set is the ofRule's kind set)
  docs.push(mk(
    R::Any(vec![m("u1"), m("u2")]),
    vec![("u0", k(0)), ("u1", R::Nth { pos: "1".into(), reverse: false, of: Some(Box::new(m("u0"))) }), ("u2", R::All(vec![m("u1"), m("u0")]))],
  ));
  // a utility whose kind set comes ONLY through nthChild.ofRule of another utility and that caches
  // it in a conjunction (second, kind-less key): registered too early the cache would be None forever
  docs.push(mk(
    R::Any(vec![m("u1"), m("u2")]),
    vec![("u0", k(0)), ("u1", R::Obj(vec![R::Nth { pos: "1".into(), reverse: false, of: Some(Box::new(m("u0"))) }, R::Regex(la.regexes[0].to_string())])), ("u2", R::Obj(vec![m("u1"), R::Regex(".".into())]))],
  ));
  docs.push(mk(
    R::All(vec![m("u2")]),
    vec![("u0", R::Any(vec![k(0), k(2)])), ("u1", R::Nth { pos: "2n+1".into(), reverse: true, of: Some(Box::new(m("u0"))) }), ("u2", R::Any(vec![m("u1"), k(1)]))],
  ));
  docs
}

fn rule_config_yaml(id: &str, lang: &str, rule: &R, fix: Option<&str>) -> String {
  let mut v = json!({"id": id, "language": lang, "rule": rule.to_json()});
  if let Some(f) = fix {
    v["fix"] = json!(f);
  }
  v.to_string()
}

fn main() {
  let args = Args::parse();
  quiet_panics();
  let rep = Reporter::new("C01", args.clone());
  let st = Stats::default();
  let samples = Samples::new(10);
  if let Some(p) = &args.replay {
    // pattern and rule cases are re-evaluated; exit 1 if find_all still differs from brute force
    let v: Value = serde_json::from_str(&std::fs::read_to_string(p).unwrap_or_else(|e| machinery(&format!("replay file: {e}")))).unwrap_or_else(|e| machinery(&format!("replay file: {e}")));
    let case = &v["case"];
    let spec = spec_by_name(case["lang"].as_str().unwrap_or("")).unwrap_or_else(|| machinery("replay: unknown language"));
    let src = case["src"].as_str().unwrap_or("");
    let g = spec.lang.ast_grep(src);
    let r = g.root();
    let m = &case["matcher"];
    let run = |mm: &dyn Fn() -> (Vec<Rg>, Vec<Rg>, bool)| {
      let (want, got, kinds_ok) = mm();
      println!("source: {src:?}\nmatcher: {m}\nbrute force (per-node match): {want:?}\nfind_all:                     {got:?}\nevery matching node's kind is in potential_kinds: {kinds_ok}");
      std::process::exit(if want == got && kinds_ok { 0 } else { 1 });
    };
    fn both<M: Matcher<SupportLang>>(m: &M, r: &ast_grep_core::Node<D>) -> (Vec<Rg>, Vec<Rg>, bool) {
      let want = ref_find(m, r);
      let got: Vec<Rg> = r.find_all(m).map(|nm| rg(nm.get_node())).collect();
      let ok = match m.potential_kinds() {
        Some(k) => want.iter().all(|w| k.contains(w.1 as usize)),
        None => true,
      };
      (want.iter().map(|w| w.2).collect(), got, ok)
    }
    if let Some(pt) = m["pattern"].as_str() {
      let p = Pattern::try_new(pt, spec.lang).unwrap_or_else(|e| machinery(&format!("replay: pattern: {e}"))).with_strictness(strictness(m["strictness"].as_str().unwrap_or("smart")));
      run(&|| both(&p, &r));
    } else if let Some(k) = m["kind"].as_str() {
      let km = KindMatcher::new(k, spec.lang);
      run(&|| both(&km, &r));
    } else if m.get("context").is_some() {
      let p = Pattern::contextual(m["context"].as_str().unwrap(), m["selector"].as_str().unwrap(), spec.lang).unwrap_or_else(|e| machinery(&format!("replay: {e}")));
      run(&|| both(&p, &r));
    } else if m.is_object() && m.get("doc").is_none() {
      let core = load_core_json(&json!({"rule": m}), spec.lang).unwrap_or_else(|e| machinery(&format!("replay: rule: {e:?}")));
      run(&|| both(&core, &r));
    }
    println!("C01 replay: this case class (utility registration order / CombinedScan subset) is replayed by rerunning the tier; the file carries the full case");
    std::process::exit(0);
  }
  let plan: Vec<(&str, usize, usize)> = if args.thorough() {
    vec![("javascript", 4, 3), ("typescript", 3, 3), ("tsx", 3, 3), ("python", 3, 3), ("rust", 4, 3), ("c", 3, 3), ("html", 3, 3), ("css", 3, 3)]
  } else {
    vec![("javascript", 3, 3), ("python", 3, 3), ("rust", 3, 3)]
  };
  let mut per_lang = vec![];
  let orders_seen: Mutex<BTreeMap<String, BTreeSet<Vec<String>>>> = Mutex::new(BTreeMap::new());
  for (lang, l, l_rules) in plan {
    let spec = spec_by_name(lang).unwrap();
    let la = atoms_for(lang).unwrap();
    let ts = trees(spec, l);
    let ts_small = trees(spec, l_rules);
    // ---- patterns
    let (alpha, _) = accepted_patterns(spec, 7, 3, |_, _| {});
    let mut texts: BTreeSet<String> = alpha.iter().map(|p| p.text.clone()).collect();
    for (src, g) in &ts_small {
      let _ = src;
      let mut nodes = vec![];
      all_nodes(&g.root(), &mut nodes);
      for n in &nodes {
        if has_error(n) || !n.is_named() || n.range().is_empty() {
          continue;
        }
        for c in cuts_of(n, 1) {
          if c.text.len() <= 40 {
            texts.insert(c.text);
          }
        }
      }
    }
    let pats: Vec<(String, Pattern<SupportLang>)> = texts
      .into_iter()
      .filter_map(|t| {
        let l2 = spec.lang;
        let t2 = t.clone();
        let p = guarded(move || Pattern::try_new(&t2, l2)).ok()?.ok()?;
        Some((t, p))
      })
      .collect();
    let n_pats = pats.len();
    pats.par_iter().for_each(|(text, base)| {
      for sname in STRICTNESS {
        let p = base.clone().with_strictness(strictness(sname));
        let c = Case { rep: &rep, st: &st, lang, class: pattern_class(&p, sname), desc: json!({"pattern": text, "strictness": sname}) };
        for (src, g) in &ts {
          check_matcher(&c, &p, src, g, *sname == "smart");
        }
      }
    });
    // contextual patterns: context = accepted pattern text, selector = atom kinds
    let ctx: Vec<(String, String, Pattern<SupportLang>)> = pats
      .iter()
      .flat_map(|(t, _)| la.kinds.iter().map(move |k| (t.clone(), k.to_string())))
      .filter_map(|(t, k)| {
        let l2 = spec.lang;
        let (t2, k2) = (t.clone(), k.clone());
        let p = guarded(move || Pattern::contextual(&t2, &k2, l2)).ok()?.ok()?;
        Some((t, k, p))
      })
      .collect();
    let n_ctx = ctx.len();
    ctx.par_iter().for_each(|(t, k, p)| {
      let c = Case { rep: &rep, st: &st, lang, class: format!("contextual-{}", pattern_class(p, "smart")), desc: json!({"context": t, "selector": k}) };
      for (src, g) in &ts_small {
        check_matcher(&c, p, src, g, true);
      }
    });
    // ---- library combinators (core::ops): And / Or / Not / All / Any over patterns and kinds;
    // their potential_kinds are derived from their parts and feed the same kind dispatch
    {
      use ast_grep_core::ops::Op;
      let some: Vec<&(String, Pattern<SupportLang>)> = pats.iter().filter(|(t, _)| t.len() <= 12).step_by((pats.len() / 12).max(1)).take(12).collect();
      // plus the built-in ERROR kind (its id is shared by every grammar and is special-cased in kind comparisons)
      let mut kinds: Vec<&str> = la.kinds.to_vec();
      kinds.push("ERROR");
      let run = |class: &str, desc: Value, m: &dyn Fn(&Case, &str, &AstGrep<D>)| {
        let c = Case { rep: &rep, st: &st, lang, class: format!("ops:{class}"), desc };
        for (src, g) in &ts_small {
          m(&c, src, g);
        }
      };
      for (t1, p1) in &some {
        for k in &kinds {
          let km = || KindMatcher::new(k, spec.lang);
          let m1 = Op::every(p1.clone()).and(km());
          run("and", json!({"and": [t1, {"kind": k}]}), &|c, src, g| check_matcher(c, &m1, src, g, false));
          let m2 = Op::either(p1.clone()).or(km());
          run("or", json!({"or": [t1, {"kind": k}]}), &|c, src, g| check_matcher(c, &m2, src, g, false));
          let m3 = Op::every(km()).and(Op::not(p1.clone()));
          run("and-not", json!({"and": [{"kind": k}, {"not": t1}]}), &|c, src, g| check_matcher(c, &m3, src, g, false));
        }
        let m4 = Op::not(p1.clone());
        run("not", json!({"not": t1}), &|c, src, g| check_matcher(c, &m4, src, g, false));
        for (t2, p2) in &some {
          let m5 = Op::all([p1.clone(), p2.clone()]);
          run("all", json!({"all": [t1, t2]}), &|c, src, g| check_matcher(c, &m5, src, g, false));
          let m6 = Op::any([p1.clone(), p2.clone()]);
          run("any", json!({"any": [t1, t2]}), &|c, src, g| check_matcher(c, &m6, src, g, false));
        }
      }
    }
    // ---- kinds
    for k in la.kinds.iter().copied().chain(["ERROR"]) {
      let m = KindMatcher::new(k, spec.lang);
      let c = Case { rep: &rep, st: &st, lang, class: "kind".into(), desc: json!({"kind": k}) };
      ts.par_iter().for_each(|(src, g)| check_matcher(&c, &m, src, g, true));
    }
    // ---- rule cores (depth <= 2)
    let rules = rules_up_to(la, if args.thorough() { 2 } else { 1 }, 3, true);
    let extra: Vec<R> = if args.thorough() {
      vec![]
    } else {
      // a slice of the depth-2 space in the quick tier
      rules_up_to(la, 2, 2, false).into_iter().filter(|r| r.depth() >= 2).step_by(9).collect()
    };
    let n_rules = rules.len() + extra.len();
    rules.par_iter().chain(extra.par_iter()).for_each(|r| {
      let doc = RuleDoc::simple(r.clone());
      let Ok(core) = doc.load_core(spec.lang) else { return };
      let c = Case { rep: &rep, st: &st, lang, class: format!("rule:{}", r.key()), desc: r.to_json() };
      for (src, g) in &ts_small {
        check_matcher(&c, &core, src, g, false);
      }
    });
    // ---- utility graphs in every registration order (owned hash seeds: fresh thread + offset)
    let docs = util_docs(la);
    for (di, doc) in docs.iter().enumerate() {
      let text = doc.core_json().to_string();
      let n_keys = doc.utils.len();
      let want_orders: usize = (1..=n_keys).product();
      let mut seen: BTreeSet<Vec<String>> = BTreeSet::new();
      let load_results: Mutex<BTreeMap<Vec<String>, Result<(), String>>> = Mutex::new(BTreeMap::new());
      let mut offset = 0usize;
      while seen.len() < want_orders && offset < 400 {
        let text2 = text.clone();
        let lang2 = spec.lang;
        let rep_ref = &rep;
        let st_ref = &st;
        let ts_ref = &ts_small;
        let doc_json = doc.core_json();
        let load_results = &load_results;
        let order = std::thread::scope(|s| {
          s.spawn(move || {
            // advance this fresh thread's RandomState counter: the `utils` map is then
            // created with a different SipHash key, i.e. a different iteration order
            let dummies: Vec<std::collections::HashMap<u8, u8>> = (0..offset).map(|_| std::collections::HashMap::new()).collect();
            drop(dummies);
            let ser: SerializableRuleCore = from_str(&text2).expect("util doc parses");
            let order: Vec<String> = ser.utils.as_ref().unwrap().keys().cloned().collect();
            // the same document as a full rule file: accepted or rejected, but the same in every order
            {
              let mut cfg = doc_json.clone();
              cfg["id"] = json!("u");
              cfg["language"] = json!(lang);
              let globals = GlobalRules::default();
              let loaded = from_yaml_string::<SupportLang>(&cfg.to_string(), &globals).map(|_| ()).map_err(|e| format!("{e:?}"));
              load_results.lock().unwrap().insert(order.clone(), loaded);
            }
            let core = match ser.get_matcher(DeserializeEnv::new(lang2)) {
              Ok(c) => c,
              Err(e) => {
                rep_ref.violation("util-doc-rejected", json!({"lang": lang, "doc": doc_json, "order": order, "error": format!("{e:?}")}));
                return order;
              }
            };
            let c = Case { rep: rep_ref, st: st_ref, lang, class: format!("utils-doc{di}"), desc: json!({"doc": doc_json, "utils_iteration_order": order}) };
            for (src, g) in ts_ref.iter() {
              check_matcher(&c, &core, src, g, false);
            }
            order
          })
          .join()
          .unwrap()
        });
        seen.insert(order);
        offset += 1;
      }
      {
        let lr = load_results.lock().unwrap();
        let oks = lr.values().filter(|r| r.is_ok()).count();
        if oks != 0 && oks != lr.len() {
          let bad = lr.iter().find(|(_, r)| r.is_err()).unwrap();
          let good = lr.iter().find(|(_, r)| r.is_ok()).unwrap();
          rep.violation(
            &format!("utils-doc{di}:rule-file-accepted-or-rejected-depending-on-registration-order"),
            json!({"lang": lang, "doc": doc.core_json(), "order_accepted": good.0, "order_rejected": bad.0, "error": bad.1.clone().err()}),
          );
        }
      }
      orders_seen.lock().unwrap().insert(format!("{lang}:doc{di}"), seen);
    }
    // ---- CombinedScan: every subset <= 3 of a pool
    let mut pool_yaml = vec![];
    let pool_rules: Vec<R> = {
      let mut v: Vec<R> = la.kinds.iter().take(4).map(|k| R::Kind(k.to_string())).collect();
      v.push(R::Pat(la.patterns[0].to_string()));
      v.push(R::Obj(vec![R::Kind(la.kinds[0].to_string()), R::Regex(la.regexes[0].to_string())]));
      v.push(R::Any(vec![R::Kind(la.kinds[0].to_string()), R::Kind(la.kinds[2].to_string())]));
      v.push(R::Obj(vec![R::Kind(la.kinds[0].to_string()), R::Inside(Box::new(Rel { rule: R::Kind(la.kinds[1].to_string()), stop: Stop::End, field: None }))]));
      v.push(R::Obj(vec![R::Kind(la.kinds[1].to_string()), R::Has(Box::new(Rel { rule: R::Kind(la.kinds[0].to_string()), stop: Stop::Neighbor, field: None }))]));
      v.push(R::Obj(vec![R::Kind(la.kinds[0].to_string()), R::Nth { pos: "1".into(), reverse: false, of: None }]));
      v
    };
    for (i, r) in pool_rules.iter().enumerate() {
      let fix = if i % 2 == 1 { Some("x") } else { None };
      pool_yaml.push(rule_config_yaml(&format!("r{i}"), lang, r, fix));
    }
    let globals = GlobalRules::default();
    let pool: Vec<RuleConfig<SupportLang>> = pool_yaml
      .iter()
      .map(|y| from_yaml_string::<SupportLang>(y, &globals).unwrap_or_else(|e| machinery(&format!("pool rule rejected: {y}: {e:?}"))).pop().unwrap())
      .collect();
    let n = pool.len();
    let mut subsets: Vec<Vec<usize>> = vec![];
    for a in 0..n {
      subsets.push(vec![a]);
      for b in a + 1..n {
        subsets.push(vec![a, b]);
        for c in b + 1..n {
          subsets.push(vec![a, b, c]);
        }
      }
    }
    // expected per rule per tree
    let expected: Vec<Vec<Vec<Rg>>> = pool
      .iter()
      .map(|rc| ts_small.iter().map(|(_, g)| ref_find(&rc.matcher, &g.root()).into_iter().map(|w| w.2).collect()).collect())
      .collect();
    subsets.par_iter().for_each(|sub| {
      // the pool order given to CombinedScan::new is also varied: reversed for odd subsets
      let mut rules: Vec<&RuleConfig<SupportLang>> = sub.iter().map(|&i| &pool[i]).collect();
      if sub.iter().sum::<usize>() % 2 == 1 {
        rules.reverse();
      }
      let scan = CombinedScan::new(rules);
      for (ti, (src, g)) in ts_small.iter().enumerate() {
        for separate_fix in [false, true] {
          st.combined.fetch_add(1, Ordering::Relaxed);
          let res = guarded(std::panic::AssertUnwindSafe(|| {
            let result = scan.scan(g, separate_fix);
            let mut got: BTreeMap<String, Vec<Rg>> = BTreeMap::new();
            for (rule, nms) in &result.matches {
              got.entry(rule.id.clone()).or_default().extend(nms.iter().map(|nm| rg(nm.get_node())));
            }
            for (rule, nm) in &result.diffs {
              got.entry(rule.id.clone()).or_default().push(rg(nm.get_node()));
            }
            got
          }));
          let got = match res {
            Ok(g) => g,
            Err(msg) => {
              rep.violation("combined-scan:panic", json!({"lang": lang, "rules": sub.iter().map(|&i| pool_yaml[i].clone()).collect::<Vec<_>>(), "src": src, "panic": msg}));
              continue;
            }
          };
          for &i in sub {
            let want = &expected[i][ti];
            let empty = vec![];
            let g = got.get(&format!("r{i}")).unwrap_or(&empty);
            if g != want {
              rep.violation(
                &format!("combined-scan-differs:separate_fix={separate_fix}"),
                json!({"lang": lang, "rules": sub.iter().map(|&i| serde_json::from_str::<Value>(&pool_yaml[i]).unwrap()).collect::<Vec<_>>(), "src": src, "rule": format!("r{i}"), "brute_force": want, "combined": g}),
              );
            }
          }
        }
      }
    });
    samples.offer(|| json!({"lang": lang, "pattern": pats.get(pats.len() / 2).map(|p| p.0.clone()), "rule": rules.get(rules.len() / 2).map(|r| r.to_json()), "utils_doc": docs[0].core_json(), "combined_pool_rule": serde_json::from_str::<Value>(&pool_yaml[5]).unwrap()}));
    per_lang.push(json!({"lang": lang, "L": l, "trees": ts.len(), "L_rules": l_rules, "trees_rules": ts_small.len(),
      "patterns": n_pats, "contextual_patterns": n_ctx, "rule_cores": n_rules, "util_docs": docs.len(), "combined_subsets": subsets.len()}));
  }
  // ---- every OTHER language: patterns only (accepted token strings <= 2 and cuts), 5 strictness
  // levels, on every tree of <= l_all tokens. Grammar-specific pattern shapes (a pattern that is
  // one ERROR leaf, aliased kinds ...) live here.
  let l_all = if args.thorough() { 3 } else { 2 };
  let planned: Vec<&str> = per_lang.iter().filter_map(|p| p["lang"].as_str().map(|s| s.to_string())).map(|s| &*Box::leak(s.into_boxed_str())).collect();
  for spec in vcore::langs::SPECS {
    if planned.contains(&spec.name) {
      continue;
    }
    let lang = spec.name;
    let ts = trees(spec, l_all);
    let (alpha, _) = accepted_patterns(spec, 7, 2, |_, _| {});
    let mut texts: BTreeSet<String> = alpha.iter().map(|p| p.text.clone()).collect();
    for (_, g) in &ts {
      let mut nodes = vec![];
      all_nodes(&g.root(), &mut nodes);
      for n in &nodes {
        if has_error(n) || !n.is_named() || n.range().is_empty() {
          continue;
        }
        for c in cuts_of(n, 1) {
          if c.text.len() <= 30 {
            texts.insert(c.text);
          }
        }
      }
    }
    let pats: Vec<(String, Pattern<SupportLang>)> = texts
      .into_iter()
      .filter_map(|t| {
        let l2 = spec.lang;
        let t2 = t.clone();
        let p = guarded(move || Pattern::try_new(&t2, l2)).ok()?.ok()?;
        Some((t, p))
      })
      .collect();
    pats.par_iter().for_each(|(text, base)| {
      for sname in STRICTNESS {
        let p = base.clone().with_strictness(strictness(sname));
        let c = Case { rep: &rep, st: &st, lang, class: pattern_class(&p, sname), desc: json!({"pattern": text, "strictness": sname}) };
        for (src, g) in &ts {
          check_matcher(&c, &p, src, g, *sname == "smart");
        }
      }
    });
    per_lang.push(json!({"lang": lang, "L": l_all, "trees": ts.len(), "patterns": pats.len(), "patterns_only": true}));
  }
  let orders = orders_seen.lock().unwrap();
  let orders_json: Value = orders
    .iter()
    .map(|(k, v)| (k.clone(), json!({"orders_witnessed": v.len(), "orders": v.iter().collect::<Vec<_>>()})))
    .collect::<serde_json::Map<String, Value>>()
    .into();
  let incomplete: Vec<&String> = orders.iter().filter(|(_, v)| v.len() < 6).map(|(k, _)| k).collect();
  let cov = json!({
    "evaluations": st.evals.load(Ordering::Relaxed) + st.combined.load(Ordering::Relaxed),
    "distinct_nontrivial": st.kinds_effective.load(Ordering::Relaxed),
    "rule": "one evaluation = one (matcher, tree) pair on which find_all is compared with per-node brute force (plus kind-set soundness, and overlap-free traversal for patterns/kinds), or one (rule subset, tree, mode) CombinedScan comparison; matchers = accepted patterns <= 3 tokens and cut patterns x 5 strictness, contextual patterns, kind matchers, rule cores to depth 2, utility graphs in every registration order; distinct_nontrivial = (matcher, tree) pairs with at least one match AND a kind set that excludes at least one kind present in the tree (the acceleration actually pruned something and something had to be found)",
    "samples": samples.take(),
    "exhaustive": true,
    "matcher_tree_pairs": st.evals.load(Ordering::Relaxed),
    "pairs_with_a_match": st.with_match.load(Ordering::Relaxed),
    "combined_scans": st.combined.load(Ordering::Relaxed),
    "utils_registration_orders": orders_json,
    "utils_docs_with_incomplete_order_coverage": incomplete,
    "per_language": per_lang,
  });
  rep.finish(
    "exploration",
    cov,
    vec![
      "hash seeds are owned through the LD_PRELOAD getrandom shim; utils iteration orders are enumerated by advancing a fresh thread's RandomState counter and read back from the deserialised map".into(),
      "sources contain no suppression comments (C14's subject)".into(),
      "dev profile (debug assertions on), opt-level 1".into(),
    ],
  );
}
