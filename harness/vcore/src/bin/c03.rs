//! C03 — every reported pattern match is justified by the documented strictness rules.
//! Space: (pattern, node, strictness) for patterns over the hole alphabet (<= P tokens) and
//! patterns cut from other sources, against every node of every tree (token strings <= L).
//! Oracle: impl matches => ref_align holds; get_match_len never panics / exceeds / splits.

use ast_grep_core::matcher::MatcherExt;
use ast_grep_core::{AstGrep, Language, Matcher, Pattern};
use ast_grep_language::SupportLang;
use rayon::prelude::*;
use serde_json::json;
use std::collections::BTreeSet;
use std::sync::atomic::{AtomicU64, Ordering};
use vcore::align::{align, S};
use vcore::cuts::cuts_of;
use vcore::dump::*;
use vcore::gen;
use vcore::langs::{spec_by_name, LangSpec};
use vcore::pats::*;
use vcore::report::*;
use vcore::rules::D;

fn panic_sig(msg: &str) -> String {
  let s: String = msg
    .chars()
    .map(|c| if c.is_ascii_digit() { '#' } else { c })
    .take(70)
    .collect();
  s
}

struct PatS {
  text: String,
  by_strictness: Vec<(&'static str, S, Pattern<SupportLang>)>,
}

fn descendant_ends(n: &ast_grep_core::Node<D>, out: &mut BTreeSet<usize>) {
  out.insert(n.range().end);
  for c in children_vec(n) {
    descendant_ends(&c, out);
  }
}

fn check_tree(rep: &Reporter, spec: &LangSpec, src: &str, root: &AstGrep<D>, pats: &[PatS], st: &Stats) {
  let mut nodes = vec![];
  all_nodes(&root.root(), &mut nodes);
  let mut evals = 0u64;
  let mut matches = 0u64;
  for p in pats {
    for (sname, s, pat) in &p.by_strictness {
      for n in &nodes {
        evals += 1;
        let m = guarded(std::panic::AssertUnwindSafe(|| pat.match_node(n.clone()).is_some()));
        let matched = match m {
          Ok(b) => b,
          Err(msg) => {
            rep.violation(
              &format!("match:panic:{}", panic_sig(&msg)),
              json!({"lang": spec.name, "pattern": p.text, "strictness": sname, "src": src, "node": [n.range().start, n.range().end], "panic": msg, "at": last_panic_loc()}),
            );
            continue;
          }
        };
        if !matched {
          continue;
        }
        matches += 1;
        if !align(&pat.node, n, *s) {
          rep.violation(
            &format!("unjustified-match:{sname}"),
            json!({"lang": spec.name, "pattern": p.text, "strictness": sname, "src": src, "node": {"kind": n.kind(), "range": [n.range().start, n.range().end]}}),
          );
        }
        let len = guarded(std::panic::AssertUnwindSafe(|| pat.get_match_len(n.clone())));
        match len {
          Err(msg) => rep.violation(
            &format!("match_len:panic:{}", panic_sig(&msg)),
            json!({"lang": spec.name, "pattern": p.text, "strictness": sname, "src": src, "node": [n.range().start, n.range().end], "panic": msg, "at": last_panic_loc()}),
          ),
          Ok(None) => {}
          Ok(Some(len)) => {
            let r = n.range();
            if r.start + len > r.end {
              rep.violation(
                &format!("match_len:exceeds-node:{sname}"),
                json!({"lang": spec.name, "pattern": p.text, "strictness": sname, "src": src, "node": [r.start, r.end], "len": len}),
              );
            } else if len > 0 {
              let mut ends = BTreeSet::new();
              descendant_ends(n, &mut ends);
              if !ends.contains(&(r.start + len)) {
                rep.violation(
                  &format!("match_len:splits-child:{sname}"),
                  json!({"lang": spec.name, "pattern": p.text, "strictness": sname, "src": src, "node": [r.start, r.end], "len": len}),
                );
              }
            }
          }
        }
      }
    }
  }
  st.evals.fetch_add(evals, Ordering::Relaxed);
  st.matches.fetch_add(matches, Ordering::Relaxed);
}

#[derive(Default)]
struct Stats {
  evals: AtomicU64,
  matches: AtomicU64,
}

fn main() {
  let args = Args::parse();
  quiet_panics();
  let rep = Reporter::new("C03", args.clone());
  if let Some(p) = &args.replay {
    let v: serde_json::Value = serde_json::from_str(&std::fs::read_to_string(p).unwrap()).unwrap();
    let case = &v["case"];
    let spec = spec_by_name(case["lang"].as_str().unwrap()).unwrap();
    let src = case["src"].as_str().unwrap();
    let text = case["pattern"].as_str().unwrap();
    let sname = case["strictness"].as_str().unwrap();
    let pat = Pattern::try_new(text, spec.lang).unwrap().with_strictness(strictness(sname));
    let ps = vec![PatS {
      text: text.to_string(),
      by_strictness: vec![(STRICTNESS.iter().find(|x| **x == sname).unwrap(), S::parse(sname), pat)],
    }];
    let root = spec.lang.ast_grep(src);
    check_tree(&rep, spec, src, &root, &ps, &Stats::default());
    println!("replay: {} violation(s)", rep.violation_count());
    std::process::exit(if rep.violation_count() > 0 { 1 } else { 0 });
  }
  // (language, L, pattern source tokens, P, cut-source L)
  let plan: Vec<(&str, usize, usize, usize, usize)> = if args.thorough() {
    vec![
      ("javascript", 5, 7, 3, 4),
      ("typescript", 4, 9, 3, 3),
      ("tsx", 4, 9, 3, 3),
      ("python", 4, 9, 3, 3),
      ("rust", 4, 9, 3, 3),
      ("c", 4, 9, 3, 3),
      ("html", 4, 7, 3, 3),
      ("css", 4, 8, 3, 3),
      ("go", 3, 8, 3, 3),
      ("java", 3, 8, 3, 3),
      ("ruby", 3, 8, 3, 3),
      ("bash", 3, 8, 3, 3),
      ("json", 3, 8, 3, 3),
    ]
  } else {
    vec![("javascript", 4, 7, 3, 3), ("python", 3, 7, 3, 3), ("rust", 3, 7, 3, 3), ("c", 3, 7, 3, 3)]
  };
  let st = Stats::default();
  let samples = Samples::new(8);
  let mut per_lang = vec![];
  let mut n_patterns_total = 0u64;
  for (lang, l, n_src, p, cut_l) in plan {
    let spec = spec_by_name(lang).unwrap();
    // alphabet patterns
    let (alpha, generated) = accepted_patterns(spec, n_src, p, |text, msg| {
      rep.violation(
        &format!("pattern-new:panic:{}", panic_sig(&msg)),
        json!({"lang": lang, "pattern": text, "panic": msg}),
      )
    });
    let mut texts: BTreeSet<String> = alpha.iter().map(|p| p.text.clone()).collect();
    let n_alpha = texts.len();
    // cut patterns from the L=cut_l sources and the corpus
    let total = gen::count(spec.tokens.len(), cut_l);
    let mut cut_srcs: Vec<String> = (0..total).map(|i| gen::nth(spec.tokens, cut_l, i)).collect();
    cut_srcs.extend(spec.corpus.iter().map(|s| s.to_string()));
    let cut_texts: Vec<String> = cut_srcs
      .par_iter()
      .flat_map(|src| {
        let root = spec.lang.ast_grep(src);
        let mut nodes = vec![];
        all_nodes(&root.root(), &mut nodes);
        let mut out = vec![];
        for n in &nodes {
          if has_error(n) || !n.is_named() || n.range().is_empty() {
            continue;
          }
          for c in cuts_of(n, 1) {
            if c.text.len() <= 60 {
              out.push(c.text);
            }
          }
        }
        out
      })
      .collect();
    for t in cut_texts {
      texts.insert(t);
    }
    let pats: Vec<PatS> = texts
      .into_iter()
      .filter_map(|text| {
        let lang = spec.lang;
        let t2 = text.clone();
        let base = guarded(move || Pattern::try_new(&t2, lang)).ok()?.ok()?;
        Some(PatS {
          by_strictness: STRICTNESS
            .iter()
            .map(|s| (*s, S::parse(s), base.clone().with_strictness(strictness(s))))
            .collect(),
          text,
        })
      })
      .collect();
    n_patterns_total += pats.len() as u64;
    for (i, p) in pats.iter().enumerate() {
      if i % 700 == 3 {
        samples.offer(|| json!({"lang": lang, "pattern": p.text}));
      }
    }
    let total = gen::count(spec.tokens.len(), l);
    let mut srcs: Vec<String> = (0..total).map(|i| gen::nth(spec.tokens, l, i)).collect();
    srcs.extend(spec.corpus.iter().map(|s| s.to_string()));
    let before = st.matches.load(Ordering::Relaxed);
    srcs.par_iter().for_each(|src| {
      let root = spec.lang.ast_grep(src);
      check_tree(&rep, spec, src, &root, &pats, &st);
    });
    per_lang.push(json!({"lang": lang, "L": l, "sources": srcs.len(), "pattern_strings_generated": generated,
      "alphabet_patterns_accepted": n_alpha, "patterns_incl_cuts": pats.len(), "P": p,
      "matches": st.matches.load(Ordering::Relaxed) - before}));
  }
  let cov = json!({
    "evaluations": st.evals.load(Ordering::Relaxed),
    "distinct_nontrivial": st.matches.load(Ordering::Relaxed),
    "rule": "every (pattern, strictness, node) triple: patterns = all token strings <= P over (source tokens + $A $B $_ $$A $$$ $$$A) accepted by Pattern::try_new, plus every distinct text cut (0 or 1 hole, or a trailing $$$V run) from an error-free named node of the cut-source set; nodes = every node of every tree of token strings <= L plus corpus; distinct_nontrivial = number of triples on which the implementation reported a match (each is a distinct triple and is the non-trivial case for an `only-if` oracle)",
    "samples": samples.take(),
    "exhaustive": true,
    "patterns": n_patterns_total,
    "per_language": per_lang,
  });
  rep.finish(
    "exploration",
    cov,
    vec![
      "ref_align is the most permissive legal alignment (DESIGN A.1); only impl-match => relation is asserted".into(),
      "dev profile (debug assertions and overflow checks on), opt-level 1".into(),
    ],
  );
}
