//! C19 — tree navigation and positions are mutually consistent on every tree.
//! Space: every token string up to L over each language's table (+ corpus), every node.
//! Oracle: recursive baseline over child(i) and ref_position computed from bytes.

use ast_grep_core::traversal::{Level, Post, Pre};
use ast_grep_core::{Doc, Language, Node};
use rayon::prelude::*;
use serde_json::json;
use std::collections::HashSet;
use std::sync::atomic::{AtomicU64, Ordering};
use std::sync::Mutex;
use vcore::dump::*;
use vcore::langs::{LangSpec, SPECS};
use vcore::report::*;
use vcore::{gen, refs};

// Node identity = (tree-sitter node id, byte range). The kind id is deliberately NOT part of
// the identity: tree-sitter resolves aliased kinds differently through a cursor and through
// next/prev_sibling inside ERROR regions (seen on Rust `a ) { }`), which is the parser
// library disagreeing with itself, not ast-grep; such cases are counted in the evidence
// (`ts_kind_alias_disagreements`) instead of being judged.
type Key = (usize, usize, usize);
fn rg(v: &[Key]) -> Vec<(usize, usize)> {
  v.iter().map(|k| (k.1, k.2)).collect()
}
fn key<D: Doc>(n: &Node<D>) -> Key {
  let r = n.range();
  (n.node_id(), r.start, r.end)
}
static KIND_DISAGREE: AtomicU64 = AtomicU64::new(0);
fn kinds_of<'a, D: Doc + 'a>(it: impl Iterator<Item = Node<'a, D>>) -> Vec<u16> {
  it.take(CAP).map(|n| n.kind_id()).collect()
}

fn pre_base<'r, D: Doc>(n: &Node<'r, D>, out: &mut Vec<Key>) {
  out.push(key(n));
  for c in children_vec(n) {
    pre_base(&c, out);
  }
}
fn post_base<'r, D: Doc>(n: &Node<'r, D>, out: &mut Vec<Key>) {
  for c in children_vec(n) {
    post_base(&c, out);
  }
  out.push(key(n));
}
fn level_base<'r, D: Doc>(n: &Node<'r, D>) -> Vec<Key> {
  let mut out = vec![];
  let mut q = std::collections::VecDeque::new();
  q.push_back(n.clone());
  while let Some(x) = q.pop_front() {
    out.push(key(&x));
    for c in children_vec(&x) {
      q.push_back(c);
    }
  }
  out
}

struct Ctx<'a> {
  rep: &'a Reporter,
  spec: &'a LangSpec,
  src: &'a str,
}

impl Ctx<'_> {
  fn fail<D: Doc>(&self, clause: &str, n: &Node<D>, zw: bool, detail: String) {
    let mut sig = clause.to_string();
    if n.parent().is_none() {
      sig.push_str(":root");
    }
    if zw {
      sig.push_str(":zero-width");
    }
    self.rep.violation(
      &sig,
      json!({"lang": self.spec.name, "src": self.src, "node": {"kind": n.kind(), "range": [n.range().start, n.range().end]}, "clause": clause, "detail": detail}),
    );
  }
}

static ANON_WITH_KIDS: AtomicU64 = AtomicU64::new(0);
const CAP: usize = 10_000; // horizon for iterators that might not terminate

fn check_tree(ctx: &Ctx, nodes_seen: &AtomicU64) {
  let root = ctx.spec.lang.ast_grep(ctx.src);
  let r = root.root();
  let mut nodes = vec![];
  all_nodes(&r, &mut nodes);
  nodes_seen.fetch_add(nodes.len() as u64, Ordering::Relaxed);
  for n in &nodes {
    let kids = children_vec(n);
    let zw_kids = kids.iter().any(|c| c.range().is_empty());
    if !n.is_named() && !kids.is_empty() {
      ANON_WITH_KIDS.fetch_add(1, Ordering::Relaxed);
    }
    // children() agrees with child(i)
    let it: Vec<Key> = n.children().take(CAP).map(|c| key(&c)).collect();
    let base: Vec<Key> = kids.iter().map(key).collect();
    if it != base {
      ctx.fail("children-iter", n, zw_kids, format!("{:?} vs {:?}", rg(&it), rg(&base)));
    }
    // parent of each child, nesting, order
    let nr = n.range();
    let mut prev_end = nr.start;
    for c in &kids {
      let cr = c.range();
      match c.parent() {
        Some(p) if key(&p) == key(n) => {}
        other => ctx.fail(
          "child-parent",
          c,
          cr.is_empty() || zw_kids,
          format!("parent() = {:?}", other.map(|p| p.range())),
        ),
      }
      if cr.start < nr.start || cr.end > nr.end || cr.start > cr.end {
        ctx.fail("child-nesting", c, cr.is_empty(), format!("{cr:?} in {nr:?}"));
      }
      if cr.start < prev_end {
        ctx.fail("child-order", c, cr.is_empty() || zw_kids, format!("{cr:?} after {prev_end}"));
      }
      prev_end = cr.end;
    }
    // ancestors == iterated parent
    let anc: Vec<Key> = n.ancestors().take(CAP).map(|a| key(&a)).collect();
    let mut base = vec![];
    let mut cur = n.parent();
    while let Some(p) = cur {
      base.push(key(&p));
      cur = p.parent();
    }
    if anc != base {
      ctx.fail("ancestors", n, n.range().is_empty(), format!("{:?} vs {:?}", rg(&anc), rg(&base)));
    }
    // siblings: restricted to parents all of whose children have non-zero width
    let sib_zw = match n.parent() {
      Some(p) => has_zero_width_child(&p),
      None => false,
    };
    if !sib_zw {
      let na: Vec<Key> = n.next_all().take(CAP).map(|a| key(&a)).collect();
      let mut base = vec![];
      let mut cur = n.next();
      while let Some(x) = cur {
        base.push(key(&x));
        cur = x.next();
        if base.len() > CAP {
          break;
        }
      }
      if na != base {
        ctx.fail("next_all", n, false, format!("{:?} vs {:?}", rg(&na), rg(&base)));
      }
      let pa: Vec<Key> = n.prev_all().take(CAP).map(|a| key(&a)).collect();
      let mut base = vec![];
      let mut cur = n.prev();
      while let Some(x) = cur {
        base.push(key(&x));
        cur = x.prev();
        if base.len() > CAP {
          break;
        }
      }
      if pa != base {
        // classify: the cursor returned a different node that covers the same bytes
        // (tree-sitter's goto_previous_sibling stepping into the previous sibling)
        let same_ranges = pa.len() == base.len()
          && pa.iter().zip(&base).all(|(a, b)| (a.1, a.2) == (b.1, b.2));
        let clause = if same_ranges { "prev_all:same-range-other-node" } else { "prev_all" };
        ctx.fail(clause, n, false, format!("{:?} vs {:?}", rg(&pa), rg(&base)));
      } else {
        let k1 = kinds_of(n.prev_all());
        let mut k2 = vec![];
        let mut cur = n.prev();
        while let Some(x) = cur {
          k2.push(x.kind_id());
          cur = x.prev();
        }
        let k3 = kinds_of(n.next_all());
        let mut k4 = vec![];
        let mut cur = n.next();
        while let Some(x) = cur {
          k4.push(x.kind_id());
          cur = x.next();
        }
        if k1 != k2 || k3 != k4 {
          KIND_DISAGREE.fetch_add(1, Ordering::Relaxed);
        }
      }
      // and next()/prev() agree with the parent's child list
      if let Some(p) = n.parent() {
        let sibs = children_vec(&p);
        if let Some(i) = sibs.iter().position(|s| key(s) == key(n)) {
          let want_next = sibs.get(i + 1).map(key);
          let want_prev = if i > 0 { sibs.get(i - 1).map(key) } else { None };
          if n.next().map(|x| key(&x)) != want_next {
            ctx.fail("next", n, false, "next() differs from parent's child list".into());
          }
          if n.prev().map(|x| key(&x)) != want_prev {
            ctx.fail("prev", n, false, "prev() differs from parent's child list".into());
          }
        }
      }
    }
    // traversals from this node
    let subtree_zw = {
      let mut v = vec![];
      all_nodes(n, &mut v);
      v.iter().any(|x| x.range().is_empty())
    };
    let mut base = vec![];
    pre_base(n, &mut base);
    let got: Vec<Key> = Pre::new(n).take(CAP).map(|x| key(&x)).collect();
    if got != base {
      ctx.fail("pre-order", n, subtree_zw, format!("visited {} vs {}", got.len(), base.len()));
    }
    let got: Vec<Key> = n.dfs().take(CAP).map(|x| key(&x)).collect();
    if got != base {
      ctx.fail("dfs", n, subtree_zw, format!("visited {} vs {}", got.len(), base.len()));
    }
    let mut base = vec![];
    post_base(n, &mut base);
    let got: Vec<Key> = Post::new(n).take(CAP).map(|x| key(&x)).collect();
    if got != base {
      ctx.fail("post-order", n, subtree_zw, format!("visited {} vs {}", got.len(), base.len()));
    }
    let base = level_base(n);
    let got: Vec<Key> = Level::new(n).take(CAP).map(|x| key(&x)).collect();
    if got != base {
      ctx.fail("level-order", n, subtree_zw, format!("visited {} vs {}", got.len(), base.len()));
    }
    // positions
    let bytes = ctx.src.as_bytes();
    for (which, pos, off) in [
      ("start_pos", n.start_pos(), nr.start),
      ("end_pos", n.end_pos(), nr.end),
    ] {
      if off > bytes.len() {
        ctx.fail("range-in-file", n, false, format!("{off} > {}", bytes.len()));
        continue;
      }
      let (line, col) = refs::position(ctx.src, off);
      if pos.line() != line || pos.column(n) != col {
        ctx.fail(
          which,
          n,
          false,
          format!("got ({}, {}) want ({line}, {col})", pos.line(), pos.column(n)),
        );
      }
    }
    // text == slice
    if nr.end <= bytes.len() && ctx.src.is_char_boundary(nr.start) && ctx.src.is_char_boundary(nr.end) {
      if n.text() != &ctx.src[nr.clone()] {
        ctx.fail("text", n, false, "text() differs from the byte slice".into());
      }
    } else {
      ctx.fail("char-boundary", n, false, format!("{nr:?}"));
    }
  }
}

fn main() {
  let args = Args::parse();
  quiet_panics();
  let rep = Reporter::new("C19", args.clone());
  if let Some(p) = &args.replay {
    let v: serde_json::Value = serde_json::from_str(&std::fs::read_to_string(p).unwrap()).unwrap();
    let case = &v["case"];
    let spec = vcore::langs::spec_by_name(case["lang"].as_str().unwrap()).unwrap();
    let src = case["src"].as_str().unwrap();
    let n = AtomicU64::new(0);
    check_tree(&Ctx { rep: &rep, spec, src }, &n);
    println!("replay: {} violation(s) on `{}`", rep.violation_count(), src.escape_debug());
    std::process::exit(if rep.violation_count() > 0 { 1 } else { 0 });
  }
  let shapes: Mutex<HashSet<String>> = Mutex::new(HashSet::new());
  let trees = AtomicU64::new(0);
  let nodes = AtomicU64::new(0);
  let panics = AtomicU64::new(0);
  let samples = Samples::new(6);
  let mut per_lang = vec![];
  for spec in SPECS {
    let l = match (args.thorough(), spec.deep) {
      (false, true) => 4,
      (false, false) => 3,
      (true, true) => 5,
      (true, false) => 4,
    };
    let total = gen::count(spec.tokens.len(), l);
    let corpus: Vec<String> = spec.corpus.iter().map(|s| s.to_string()).collect();
    let n_before = trees.load(Ordering::Relaxed);
    (0..total + corpus.len()).into_par_iter().for_each(|i| {
      let src = if i < total {
        gen::nth(spec.tokens, l, i)
      } else {
        corpus[i - total].clone()
      };
      let ctx = Ctx { rep: &rep, spec, src: &src };
      let res = guarded(std::panic::AssertUnwindSafe(|| check_tree(&ctx, &nodes)));
      if let Err(msg) = res {
        panics.fetch_add(1, Ordering::Relaxed);
        rep.violation(
          &format!("panic:{}", last_panic_loc()),
          json!({"lang": spec.name, "src": src, "panic": msg}),
        );
      }
      trees.fetch_add(1, Ordering::Relaxed);
      {
        let sg = spec.lang.ast_grep(&src);
        let sh = shape(&sg.root());
        if i % (997 * 13) == 0 {
          samples.offer(|| json!({"lang": spec.name, "src": src, "sexp": sh}));
        }
        let mut nn = vec![];
        all_nodes(&sg.root(), &mut nn);
        if nn.len() >= 3 {
          shapes.lock().unwrap().insert(format!("{}:{}", spec.name, sh));
        }
      }
    });
    per_lang.push(json!({"lang": spec.name, "L": l, "sources": trees.load(Ordering::Relaxed) - n_before}));
  }
  let distinct = shapes.lock().unwrap().len();
  let cov = json!({
    "evaluations": trees.load(Ordering::Relaxed),
    "distinct_nontrivial": distinct,
    "rule": "every token string of length <= L over the per-language table (langs.rs) plus corpus snippets, every node of every tree; distinct_nontrivial = number of distinct (language, S-expression) tree shapes with at least 3 nodes",
    "samples": samples.take(),
    "exhaustive": true,
    "nodes_checked": nodes.load(Ordering::Relaxed),
    "per_language": per_lang,
    "panics": panics.load(Ordering::Relaxed),
    "anonymous_nodes_with_children": ANON_WITH_KIDS.load(Ordering::Relaxed),
    "ts_kind_alias_disagreements": KIND_DISAGREE.load(Ordering::Relaxed),
    "clauses": ["children-iter","child-parent","child-nesting","child-order","ancestors","next_all","prev_all","next","prev","pre-order","dfs","post-order","level-order","start_pos","end_pos","text","char-boundary"],
  });
  rep.finish(
    "exploration",
    cov,
    vec![
      "dev profile (debug assertions on), opt-level 1".into(),
      "sibling clauses are asserted only for parents all of whose children have non-zero width (as the property states)".into(),
      "sources outside the token alphabet / longer than L are not covered".into(),
    ],
  );
}
