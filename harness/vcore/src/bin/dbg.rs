use ast_grep_core::Language;
use vcore::dump::*;
fn pr<D: ast_grep_core::Doc>(n: &ast_grep_core::Node<D>, d: usize) {
  println!("{}{} [{}..{}] id={} named={} missing={} kind_id={}", "  ".repeat(d), n.kind(), n.range().start, n.range().end, n.node_id(), n.is_named(), is_missing(n), n.kind_id());
  let pa: Vec<String> = n.prev_all().take(20).map(|x| format!("{}@{}..{}#{}", x.kind(), x.range().start, x.range().end, x.node_id()%100000)).collect();
  let na: Vec<String> = n.next_all().take(20).map(|x| format!("{}@{}..{}#{}", x.kind(), x.range().start, x.range().end, x.node_id()%100000)).collect();
  println!("{}   prev_all={:?} next_all={:?}", "  ".repeat(d), pa, na);
  for c in children_vec(n) { pr(&c, d+1); }
}
fn main() {
  let a: Vec<String> = std::env::args().collect();
  let spec = vcore::langs::spec_by_name(&a[1]).unwrap();
  let g = spec.lang.ast_grep(&a[2]);
  pr(&g.root(), 0);
}
