//! C05 — rule objects mean what the rule reference says.
//! Space: rule trees to depth D over per-language atoms x every token string <= L, every node.
//! Oracle: RuleCore::match_node(n).is_some() == ref_rule(ast, n).is_some()

use ast_grep_core::matcher::MatcherExt;
use ast_grep_core::{AstGrep, Language};
use rayon::prelude::*;
use serde_json::json;
use std::collections::HashSet;
use std::sync::atomic::{AtomicU64, Ordering};
use std::sync::Mutex;
use vcore::dump::*;
use vcore::langs::spec_by_name;
use vcore::report::*;
use vcore::rulegen::*;
use vcore::rules::*;
use vcore::gen;

struct Tree {
  src: String,
  root: AstGrep<D>,
  /// fields that label more than one child of some node in this tree
  multi_fields: Vec<&'static str>,
  /// tree-sitter's cursor-based sibling walk disagrees with next()/prev() (node or kind) on
  /// some node of this tree: the parser library disagreeing with itself (see C19's known
  /// finding); sibling relations are not judged on such trees
  sibling_api_disagrees: bool,
}

fn build_trees(lang: &str, l: usize, fields: &'static [&'static str]) -> (Vec<Tree>, usize) {
  let spec = spec_by_name(lang).unwrap();
  let total = gen::count(spec.tokens.len(), l);
  let mut srcs: Vec<String> = (0..total).map(|i| gen::nth(spec.tokens, l, i)).collect();
  srcs.extend(spec.corpus.iter().map(|s| s.to_string()));
  build_trees_from(lang, srcs, fields)
}

/// sources for the `range` family: every token string <= l with every gap filled by a space or a
/// newline (so nodes start and end on different lines in every language), plus the corpus
fn multiline_sources(lang: &str, l: usize) -> Vec<String> {
  let spec = spec_by_name(lang).unwrap();
  let toks: Vec<&str> = spec.tokens.iter().cloned().filter(|t| !t.contains('\n')).collect();
  let mut out = vec![];
  for i in 0..gen::count(toks.len(), l) {
    let seq = gen::nth_tokens(toks.len(), l, i);
    let gaps = seq.len().saturating_sub(1);
    for mask in 0..(1usize << gaps) {
      let mut s = String::new();
      for (j, &t) in seq.iter().enumerate() {
        s.push_str(toks[t]);
        if j + 1 < seq.len() {
          s.push(if mask >> j & 1 == 1 { '\n' } else { ' ' });
        }
      }
      out.push(s);
    }
  }
  out.extend(spec.corpus.iter().map(|s| s.to_string()));
  out
}

/// every `range` with lines 0..=3 and (character) columns 0..=5, start <= end
fn range_atoms() -> Vec<R> {
  let mut v = vec![];
  for sl in 0..=3usize {
    for el in sl..=3 {
      for sc in 0..=5usize {
        for ec in 0..=5 {
          if sl == el && sc > ec {
            continue;
          }
          v.push(R::Range(sl, sc, el, ec));
        }
      }
    }
  }
  v
}

fn build_trees_from(lang: &str, srcs: Vec<String>, fields: &'static [&'static str]) -> (Vec<Tree>, usize) {
  let spec = spec_by_name(lang).unwrap();
  let n_all = srcs.len();
  let trees: Vec<Tree> = srcs
    .into_par_iter()
    .filter_map(|src| {
      let root = spec.lang.ast_grep(&src);
      let mut nodes = vec![];
      all_nodes(&root.root(), &mut nodes);
      // property precondition: no zero-width recovery nodes
      if nodes.iter().any(|n| n.range().is_empty() || is_missing(n)) {
        return None;
      }
      let mut multi = vec![];
      for f in fields {
        if nodes.iter().any(|n| n.field_children(f).count() > 1) {
          multi.push(*f);
        }
      }
      // tree-sitter disagreeing with ITSELF: the cursor's sibling walk (goto_first_child_for_byte +
      // goto_previous/next_sibling, the primitives prev_all/next_all are built on) against the
      // prev_sibling()/next_sibling() chain. Decided on tree-sitter's own API only, not through
      // Node::prev_all / next_all, so that a fault in those is judged, not skipped.
      let sib = nodes.iter().any(|n| {
        let ts = n.get_ts_node();
        let Some(p) = ts.parent() else { return false };
        let mut cur = p.walk();
        cur.goto_first_child_for_byte(ts.start_byte());
        let mut a = vec![];
        while cur.goto_previous_sibling() && a.len() < 1000 {
          let x = cur.node();
          a.push((x.id(), x.start_byte(), x.end_byte(), x.kind_id()));
        }
        let mut b = vec![];
        let mut x = ts.prev_sibling();
        while let Some(y) = x {
          b.push((y.id(), y.start_byte(), y.end_byte(), y.kind_id()));
          x = y.prev_sibling();
        }
        let mut cur = p.walk();
        cur.goto_first_child_for_byte(ts.start_byte());
        // the cursor must stand on the node itself for the forward walk to mean anything
        let on_self = cur.node().id() == ts.id();
        let mut c = vec![];
        while cur.goto_next_sibling() && c.len() < 1000 {
          let x = cur.node();
          c.push((x.id(), x.start_byte(), x.end_byte(), x.kind_id()));
        }
        let mut d = vec![];
        let mut x = ts.next_sibling();
        while let Some(y) = x {
          d.push((y.id(), y.start_byte(), y.end_byte(), y.kind_id()));
          x = y.next_sibling();
        }
        a != b || (on_self && c != d) || !on_self
      });
      drop(nodes);
      Some(Tree {
        src,
        root,
        multi_fields: multi,
        sibling_api_disagrees: sib,
      })
    })
    .collect();
  (trees, n_all)
}

fn fields_used(r: &R, out: &mut Vec<String>) {
  r.any_node(&mut |x| {
    if let R::Inside(rel) | R::Has(rel) = x {
      if let Some(f) = &rel.field {
        out.push(f.clone());
      }
    }
    false
  });
}

fn skeleton(r: &R) -> String {
  fn rel(name: &str, rl: &Rel) -> String {
    let s = match &rl.stop {
      Stop::Neighbor => "n".to_string(),
      Stop::End => "e".to_string(),
      Stop::Rule(x) => format!("r:{}", skeleton(x)),
    };
    format!(
      "{name}[{}{}]({})",
      s,
      if rl.field.is_some() { ",field" } else { "" },
      skeleton(&rl.rule)
    )
  }
  match r {
    R::Nth { of, reverse, .. } => format!(
      "nth{}{}",
      if *reverse { "[rev]" } else { "" },
      of.as_ref().map(|o| format!("(of:{})", skeleton(o))).unwrap_or_default()
    ),
    R::All(rs) => format!("all({})", rs.iter().map(skeleton).collect::<Vec<_>>().join(",")),
    R::Any(rs) => format!("any({})", rs.iter().map(skeleton).collect::<Vec<_>>().join(",")),
    R::Obj(rs) => format!("obj({})", rs.iter().map(skeleton).collect::<Vec<_>>().join(",")),
    R::Not(x) => format!("not({})", skeleton(x)),
    R::Inside(rl) => rel("inside", rl),
    R::Has(rl) => rel("has", rl),
    R::Precedes(rl) => rel("precedes", rl),
    R::Follows(rl) => rel("follows", rl),
    other => other.key().to_string(),
  }
}

fn run_rule(rep: &Reporter, lang: &str, r: &R, trees: &[Tree], stats: &Stats) {
  run_doc(rep, lang, &RuleDoc::simple(r.clone()), "", trees, stats)
}

/// `tag`: prefix of the violation signature for documents that are more than one rule
fn run_doc(rep: &Reporter, lang: &str, doc: &RuleDoc, tag: &str, trees: &[Tree], stats: &Stats) {
  let spec = spec_by_name(lang).unwrap();
  let r = &doc.rule;
  let core = match doc.load_core(spec.lang) {
    Ok(c) => c,
    Err(_) => {
      stats.rejected.fetch_add(1, Ordering::Relaxed);
      return;
    }
  };
  let comp = match compile_doc(doc, spec.lang) {
    Ok(c) => c,
    Err(e) => machinery(&format!("reference cannot compile an accepted rule {}: {e}", r.to_json())),
  };
  let mut fu = vec![];
  fields_used(r, &mut fu);
  let uses_siblings = r.any_node(&mut |x| matches!(x, R::Precedes(_) | R::Follows(_)));
  let mut evals = 0u64;
  let mut pos = 0u64;
  for t in trees {
    if fu.iter().any(|f| t.multi_fields.iter().any(|m| m == f)) {
      stats.skipped_field.fetch_add(1, Ordering::Relaxed);
      continue;
    }
    if uses_siblings && t.sibling_api_disagrees {
      stats.skipped_sibling.fetch_add(1, Ordering::Relaxed);
      continue;
    }
    let mut nodes = vec![];
    all_nodes(&t.root.root(), &mut nodes);
    for n in &nodes {
      evals += 1;
      let imp = guarded(std::panic::AssertUnwindSafe(|| core.match_node(n.clone()).is_some()));
      let ev = Eval::new(&comp);
      let rf = ev.doc(n).is_some();
      match imp {
        Err(msg) => rep.violation(
          &format!("panic:{}", last_panic_loc()),
          json!({"lang": lang, "rule": r.to_json(), "src": t.src, "node": [n.range().start, n.range().end], "panic": msg}),
        ),
        Ok(i) => {
          if i {
            pos += 1;
          }
          if i != rf {
            let sig = format!(
              "{tag}mismatch:{}:{}{}",
              if i { "impl-only" } else { "ref-only" },
              skeleton(r),
              if n.parent().is_none() { ":root" } else { "" }
            );
            rep.violation(
              &sig,
              json!({"lang": lang, "rule": r.to_json(), "doc": doc.core_json(), "globals": doc.globals.iter().map(|(k, v)| (k.clone(), v.0.to_json())).collect::<serde_json::Map<_, _>>(), "src": t.src, "node": {"kind": n.kind(), "range": [n.range().start, n.range().end]}, "impl": i, "ref": rf}),
            );
          }
        }
      }
    }
  }
  stats.evals.fetch_add(evals, Ordering::Relaxed);
  stats.positive.fetch_add(pos, Ordering::Relaxed);
  if pos > 0 && pos < evals {
    stats.nontrivial_rules.fetch_add(1, Ordering::Relaxed);
  }
}

#[derive(Default)]
struct Stats {
  evals: AtomicU64,
  positive: AtomicU64,
  rejected: AtomicU64,
  skipped_field: AtomicU64,
  skipped_sibling: AtomicU64,
  nontrivial_rules: AtomicU64,
}

fn main() {
  let args = Args::parse();
  quiet_panics();
  let rep = Reporter::new("C05", args.clone());
  if let Some(p) = &args.replay {
    let v: serde_json::Value = serde_json::from_str(&std::fs::read_to_string(p).unwrap()).unwrap();
    let case = &v["case"];
    let lang = case["lang"].as_str().unwrap();
    let spec = spec_by_name(lang).unwrap();
    let src = case["src"].as_str().unwrap();
    let core = load_core_json(&json!({"rule": case["rule"]}), spec.lang).unwrap();
    let g = spec.lang.ast_grep(src);
    let mut nodes = vec![];
    all_nodes(&g.root(), &mut nodes);
    for n in &nodes {
      println!(
        "{}@{}..{} impl={}",
        n.kind(),
        n.range().start,
        n.range().end,
        core.match_node(n.clone()).is_some()
      );
    }
    println!("(replay prints the implementation verdict per node; expected per the reference: see `ref` in the case)");
    std::process::exit(0);
  }
  let langs: Vec<&str> = if args.thorough() {
    vec!["javascript", "typescript", "tsx", "python", "rust", "c", "html", "css"]
  } else {
    vec!["javascript", "python", "rust"]
  };
  let stats = Stats::default();
  let samples = Samples::new(8);
  let mut per_lang = vec![];
  let shapes: Mutex<HashSet<String>> = Mutex::new(HashSet::new());
  let mut rules_total = 0usize;
  for lang in langs {
    let la = atoms_for(lang).unwrap();
    // depth <= 1 rules on L1 trees, depth-2 rules on L2 trees
    let (l1, l2) = if !args.thorough() {
      (4, 3)
    } else if matches!(lang, "javascript") {
      // (depth-2 rules on L=4 trees for four languages took 21 min; javascript alone keeps the tier near 10)
      (4, 4)
    } else {
      (4, 3)
    };
    let (trees1, n1) = build_trees(lang, l1, la.fields);
    let (trees2, n2) = build_trees(lang, l2, la.fields);
    for t in &trees1 {
      if t.src.len() % 7 == 0 {
        shapes.lock().unwrap().insert(format!("{lang}:{}", shape(&t.root.root())));
      }
    }
    let r1 = rules_up_to(la, 1, 3, true);
    let r2: Vec<R> = rules_up_to(la, 2, 3, true).into_iter().filter(|r| r.depth() >= 2).collect();
    rules_total += r1.len() + r2.len();
    for (i, r) in r1.iter().chain(r2.iter()).enumerate() {
      if i % 1500 == 7 {
        samples.offer(|| json!({"lang": lang, "rule": r.to_json()}));
      }
    }
    r1.par_iter().for_each(|r| run_rule(&rep, lang, r, &trees1, &stats));
    r2.par_iter().for_each(|r| run_rule(&rep, lang, r, &trees2, &stats));
    // a LOCAL utility shadows a GLOBAL utility of the same id: `matches` resolves to the local one,
    // and so must every kind set derived from it (the local one has no kind set, the global has)
    {
      let locals: Vec<R> = vec![R::Regex(la.regexes[0].to_string()), R::Not(Box::new(R::Kind(la.kinds[0].to_string()))), R::Pat("$X".into()),
        R::Any(vec![R::Regex(la.regexes[1].to_string()), R::Kind(la.kinds[2].to_string())])];
      let mut docs = vec![];
      for loc in &locals {
        for gk in la.kinds.iter().take(3) {
          let m = R::Matches("u".into());
          let uses: Vec<R> = vec![
            m.clone(),
            R::All(vec![m.clone(), R::Any(vec![R::Kind(la.kinds[0].to_string()), R::Kind(la.kinds[2].to_string())])]),
            R::Any(vec![m.clone(), R::Kind(la.kinds[1].to_string())]),
            R::Obj(vec![R::Kind(la.kinds[2].to_string()), m.clone()]),
            R::Has(Box::new(Rel { rule: m.clone(), stop: Stop::End, field: None })),
            R::All(vec![R::Kind(la.kinds[1].to_string()), R::Not(Box::new(m.clone()))]),
          ];
          for u in uses {
            let mut d = RuleDoc::simple(u);
            d.utils.insert("u".into(), loc.clone());
            d.globals.insert("u".into(), (R::Kind(gk.to_string()), Default::default()));
            docs.push(d);
          }
        }
      }
      rules_total += docs.len();
      docs.par_iter().for_each(|d| run_doc(&rep, lang, d, "shadowed-global-util:", &trees2, &stats));
    }
    // a GLOBAL utility with CONSTRAINTS of its own: `matches: g` holds exactly where g's rule matches
    // and g's constraints hold (under not / has / all / any as well)
    {
      let cons_rules: Vec<R> = vec![R::Kind(la.kinds[0].to_string()), R::Regex(la.regexes[0].to_string()), R::Not(Box::new(R::Kind(la.kinds[1].to_string())))];
      let bodies: Vec<R> = vec![R::Pat("$X".into()), R::Any(vec![R::Pat("$X".into()), R::Kind(la.kinds[2].to_string())])];
      let mut docs = vec![];
      for body in &bodies {
        for cr in &cons_rules {
          let m = R::Matches("g".into());
          let uses: Vec<R> = vec![
            m.clone(),
            R::All(vec![m.clone(), R::Any(vec![R::Kind(la.kinds[0].to_string()), R::Kind(la.kinds[2].to_string())])]),
            R::Any(vec![m.clone(), R::Kind(la.kinds[1].to_string())]),
            R::Has(Box::new(Rel { rule: m.clone(), stop: Stop::End, field: None })),
            R::Inside(Box::new(Rel { rule: m.clone(), stop: Stop::Neighbor, field: None })),
            R::All(vec![R::Kind(la.kinds[1].to_string()), R::Not(Box::new(m.clone()))]),
          ];
          for u in uses {
            let mut d = RuleDoc::simple(u);
            let mut cons = std::collections::BTreeMap::new();
            cons.insert("X".to_string(), cr.clone());
            d.globals.insert("g".into(), (body.clone(), cons));
            docs.push(d);
          }
        }
      }
      rules_total += docs.len();
      docs.par_iter().for_each(|d| run_doc(&rep, lang, d, "global-util-with-constraints:", &trees2, &stats));
    }
    // `field` x rule-valued `stopBy` family over a WIDER kind list (the kinds that occur as field
    // children are internal nodes such as `arguments`, absent from the general atom list): the
    // field child may itself be the stop node, an inner match, both or neither
    let extra: &[&str] = match lang {
      "javascript" | "typescript" | "tsx" => &["arguments", "call_expression", "parenthesized_expression", "binary_expression", "statement_block"],
      "python" => &["argument_list", "call", "parenthesized_expression", "binary_operator", "block"],
      "rust" => &["arguments", "call_expression", "parenthesized_expression", "binary_expression", "block"],
      "c" => &["argument_list", "call_expression", "parenthesized_expression", "binary_expression", "compound_statement"],
      _ => &[],
    };
    let mut ks: Vec<&str> = la.kinds.iter().cloned().chain(extra.iter().cloned()).collect();
    ks.sort();
    ks.dedup();
    let mut field_stop = vec![];
    for f in la.fields {
      for ki in &ks {
        for kst in &ks {
          let rel = |rule: R| Rel { rule, stop: Stop::Rule(Box::new(R::Kind(kst.to_string()))), field: Some(f.to_string()) };
          field_stop.push(R::Has(Box::new(rel(R::Kind(ki.to_string())))));
          field_stop.push(R::Inside(Box::new(rel(R::Kind(ki.to_string())))));
        }
      }
    }
    rules_total += field_stop.len();
    field_stop.par_iter().for_each(|r| run_rule(&rep, lang, r, &trees2, &stats));
    // `range` family: every range over small coordinates, alone and under each kind of operator,
    // on multi-line layouts of every token string
    let (rtrees, _) = build_trees_from(lang, multiline_sources(lang, if args.thorough() && lang == "javascript" { 4 } else { 3 }), la.fields);
    let (rtrees_small, _) = build_trees_from(lang, multiline_sources(lang, if args.thorough() && lang == "javascript" { 3 } else { 2 }), la.fields);
    let ranges = range_atoms();
    let k0 = R::Kind(la.kinds[0].to_string());
    let mut wrapped = vec![];
    for r in &ranges {
      wrapped.push(R::Obj(vec![k0.clone(), r.clone()]));
      wrapped.push(R::All(vec![k0.clone(), R::Not(Box::new(r.clone()))]));
      wrapped.push(R::Inside(Box::new(Rel { rule: r.clone(), stop: Stop::End, field: None })));
      wrapped.push(R::Has(Box::new(Rel { rule: r.clone(), stop: Stop::Neighbor, field: None })));
    }
    rules_total += ranges.len() + wrapped.len();
    ranges.par_iter().for_each(|r| run_rule(&rep, lang, r, &rtrees, &stats));
    wrapped.par_iter().for_each(|r| run_rule(&rep, lang, r, &rtrees_small, &stats));
    per_lang.push(json!({"lang": lang, "rules_depth_le1": r1.len(), "rules_depth2": r2.len(),
      "L_depth_le1": l1, "trees_depth_le1": trees1.len(), "sources_generated_depth_le1": n1,
      "L_depth2": l2, "trees_depth2": trees2.len(), "sources_generated_depth2": n2,
      "field_x_stop_rule_rules": field_stop.len(), "range_rules": ranges.len(), "range_rules_wrapped": wrapped.len(), "range_trees_multiline": rtrees.len(), "range_trees_multiline_wrapped": rtrees_small.len()}));
  }
  let cov = json!({
    "evaluations": stats.evals.load(Ordering::Relaxed),
    "distinct_nontrivial": stats.nontrivial_rules.load(Ordering::Relaxed),
    "rule": "every rule tree of depth <= 2 over per-language atoms (rulegen.rs: all/any/not, inside/has/precedes/follows x stopBy neighbor|end|rule x field, nthChild An+B/reverse/ofRule, multi-key objects; plus documents in which a kind-less local utility shadows a global utility of the same id; plus `matches` of a global utility that has constraints of its own; plus has/inside with every (field, inner kind, stop kind) over a kind list widened by the kinds of field children; plus every `range` with lines 0..3 x character columns 0..5, alone and under obj/not/inside/has, on every space-or-newline layout of every token string) loaded through the real YAML deserialiser, against every node of every tree parsed from token strings <= L without zero-width nodes; an evaluation is one (rule, node) pair; distinct_nontrivial = number of distinct rules that matched at least one node and rejected at least one node",
    "samples": samples.take(),
    "exhaustive": true,
    "rules": rules_total,
    "rules_rejected_by_loader": stats.rejected.load(Ordering::Relaxed),
    "positive_evaluations": stats.positive.load(Ordering::Relaxed),
    "tree_rule_pairs_skipped_field_multiplicity": stats.skipped_field.load(Ordering::Relaxed),
    "tree_rule_pairs_skipped_ts_sibling_api_disagreement": stats.skipped_sibling.load(Ordering::Relaxed),
    "distinct_tree_shapes_subsample": shapes.lock().unwrap().len(),
    "per_language": per_lang,
  });
  rep.finish(
    "exploration",
    cov,
    vec![
      "atoms (pattern, kind, regex) are evaluated by the real matchers inside the reference; their own semantics is C02/C03's subject".into(),
      "trees with zero-width (recovery) nodes are excluded, and (rule, tree) pairs where a used field labels more than one child, as the property states".into(),
      "precedes/follows are not judged on trees where tree-sitter's cursor sibling walk disagrees with next()/prev() about a node or its kind (aliased kinds inside ERROR regions); that disagreement itself is C19's known finding".into(),
      "dev profile (debug assertions on), opt-level 1".into(),
    ],
  );
}
