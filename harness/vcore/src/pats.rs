//! Pattern alphabet: source tokens + hole spellings; accepted patterns up to P tokens.
use crate::gen;
use crate::langs::LangSpec;
use crate::report::guarded;
use ast_grep_core::{MatchStrictness, Pattern};
use ast_grep_language::SupportLang;

pub const HOLES: &[&str] = &["$A", "$B", "$_", "$$A", "$$$", "$$$A"];

pub const STRICTNESS: &[&str] = &["cst", "smart", "ast", "relaxed", "signature"];

pub fn strictness(s: &str) -> MatchStrictness {
  s.parse().expect("valid strictness")
}

/// token table for patterns: the first `n_src` source tokens of the language + the holes
pub fn pattern_tokens(spec: &LangSpec, n_src: usize) -> Vec<&'static str> {
  let mut v: Vec<&'static str> = spec
    .tokens
    .iter()
    .filter(|t| !t.contains('\n'))
    .take(n_src)
    .cloned()
    .collect();
  // one character the grammar cannot tokenise: in a pattern it becomes an ERROR LEAF (a named
  // terminal of kind ERROR, which stands for any kind but must still agree in text)
  let junk = match spec.name {
    "javascript" | "typescript" | "tsx" | "java" => Some("#"),
    "python" | "go" | "css" | "json" => Some("?"),
    "c" | "ruby" => Some("`"),
    _ => None,
  };
  v.extend(junk);
  v.extend(HOLES.iter().cloned());
  v
}

pub struct Pat {
  pub text: String,
  pub pattern: Pattern<SupportLang>,
}

/// all token strings <= p over the pattern table that Pattern::try_new accepts.
/// A panic while constructing a pattern is reported through `on_panic`.
pub fn accepted_patterns(
  spec: &LangSpec,
  n_src: usize,
  p: usize,
  mut on_panic: impl FnMut(&str, String),
) -> (Vec<Pat>, usize) {
  let toks = pattern_tokens(spec, n_src);
  let total = gen::count(toks.len(), p);
  let mut out = vec![];
  for i in 0..total {
    let text = gen::nth(&toks, p, i);
    let lang = spec.lang;
    let t2 = text.clone();
    match guarded(move || Pattern::try_new(&t2, lang)) {
      Ok(Ok(pattern)) => out.push(Pat { text, pattern }),
      Ok(Err(_)) => {}
      Err(msg) => on_panic(&text, msg),
    }
  }
  (out, total)
}
