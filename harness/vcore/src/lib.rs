pub mod dump;
pub mod gen;
pub mod langs;
pub mod refs;
pub mod report;
pub mod rulegen;
pub mod rules;
