pub mod dump;
pub mod gen;
pub mod langs;
pub mod refs;
pub mod report;
