//! Rule ASTs of the harness: printed to JSON (a YAML subset) and loaded through the real
//! deserialiser, and evaluated by `ref_rule`, the reference evaluator of DESIGN Appendix A.2.
//! Atoms (pattern / kind / regex) are the REAL matchers; every combinator, relation,
//! stopBy, field, nthChild and range is evaluated by the reference code below.

use ast_grep_config::{from_str, DeserializeEnv, Rule, RuleCore, SerializableRule, SerializableRuleCore};
use ast_grep_core::meta_var::MetaVarEnv;
use ast_grep_core::{Matcher, Node, StrDoc};
use ast_grep_language::SupportLang;
use serde_json::{json, Map, Value};
use std::borrow::Cow;
use std::collections::BTreeMap;

pub type D = StrDoc<SupportLang>;
pub type Env<'t> = MetaVarEnv<'t, D>;

#[derive(Clone, Debug, PartialEq, Eq, Hash, PartialOrd, Ord)]
pub enum Stop {
  Neighbor,
  End,
  Rule(Box<R>),
}

#[derive(Clone, Debug, PartialEq, Eq, Hash, PartialOrd, Ord)]
pub struct Rel {
  pub rule: R,
  pub stop: Stop,
  pub field: Option<String>,
}

#[derive(Clone, Debug, PartialEq, Eq, Hash, PartialOrd, Ord)]
pub enum R {
  Pat(String),
  PatCtx {
    context: String,
    selector: Option<String>,
    strictness: Option<String>,
  },
  Kind(String),
  Regex(String),
  /// start line, start col, end line, end col (0-based, character columns)
  Range(usize, usize, usize, usize),
  /// position is either a number or an An+B string
  Nth {
    pos: String,
    reverse: bool,
    of: Option<Box<R>>,
  },
  All(Vec<R>),
  Any(Vec<R>),
  Not(Box<R>),
  Matches(String),
  Inside(Box<Rel>),
  Has(Box<Rel>),
  Precedes(Box<Rel>),
  Follows(Box<Rel>),
  /// several keys in one rule object: the conjunction, atomic then composite then relational
  Obj(Vec<R>),
}

impl R {
  pub fn key(&self) -> &'static str {
    match self {
      R::Pat(_) | R::PatCtx { .. } => "pattern",
      R::Kind(_) => "kind",
      R::Regex(_) => "regex",
      R::Range(..) => "range",
      R::Nth { .. } => "nthChild",
      R::All(_) => "all",
      R::Any(_) => "any",
      R::Not(_) => "not",
      R::Matches(_) => "matches",
      R::Inside(_) => "inside",
      R::Has(_) => "has",
      R::Precedes(_) => "precedes",
      R::Follows(_) => "follows",
      R::Obj(_) => "obj",
    }
  }

  fn rank(&self) -> usize {
    // categorisation order of deserialize_rule: atomic, composite, relational
    match self.key() {
      "pattern" => 0,
      "kind" => 1,
      "regex" => 2,
      "nthChild" => 3,
      "range" => 4,
      "all" => 5,
      "any" => 6,
      "not" => 7,
      "matches" => 8,
      "inside" => 9,
      "has" => 10,
      "precedes" => 11,
      "follows" => 12,
      _ => 99,
    }
  }

  fn value(&self) -> Value {
    match self {
      R::Pat(p) => json!(p),
      R::PatCtx {
        context,
        selector,
        strictness,
      } => {
        let mut m = Map::new();
        m.insert("context".into(), json!(context));
        if let Some(s) = selector {
          m.insert("selector".into(), json!(s));
        }
        if let Some(s) = strictness {
          m.insert("strictness".into(), json!(s));
        }
        Value::Object(m)
      }
      R::Kind(k) => json!(k),
      R::Regex(r) => json!(r),
      R::Range(sl, sc, el, ec) => {
        json!({"start": {"line": sl, "column": sc}, "end": {"line": el, "column": ec}})
      }
      R::Nth { pos, reverse, of } => {
        let p: Value = match pos.parse::<i64>() {
          Ok(n) if n >= 0 => json!(n),
          _ => json!(pos),
        };
        if !*reverse && of.is_none() {
          p
        } else {
          let mut m = Map::new();
          m.insert("position".into(), p);
          if *reverse {
            m.insert("reverse".into(), json!(true));
          }
          if let Some(o) = of {
            m.insert("ofRule".into(), o.to_json());
          }
          Value::Object(m)
        }
      }
      R::All(rs) => Value::Array(rs.iter().map(|r| r.to_json()).collect()),
      R::Any(rs) => Value::Array(rs.iter().map(|r| r.to_json()).collect()),
      R::Not(r) => r.to_json(),
      R::Matches(u) => json!(u),
      R::Inside(rel) | R::Has(rel) | R::Precedes(rel) | R::Follows(rel) => {
        let mut m = match rel.rule.to_json() {
          Value::Object(m) => m,
          _ => unreachable!(),
        };
        match &rel.stop {
          Stop::Neighbor => {}
          Stop::End => {
            m.insert("stopBy".into(), json!("end"));
          }
          Stop::Rule(r) => {
            m.insert("stopBy".into(), r.to_json());
          }
        }
        if let Some(f) = &rel.field {
          m.insert("field".into(), json!(f));
        }
        Value::Object(m)
      }
      R::Obj(_) => unreachable!(),
    }
  }

  /// the rule object as JSON (which is YAML)
  pub fn to_json(&self) -> Value {
    let mut m = Map::new();
    match self {
      R::Obj(parts) => {
        for p in parts {
          assert!(!matches!(p, R::Obj(_)));
          let prev = m.insert(p.key().into(), p.value());
          assert!(prev.is_none(), "duplicate key in rule object");
        }
      }
      other => {
        m.insert(other.key().into(), other.value());
      }
    }
    Value::Object(m)
  }

  pub fn depth(&self) -> usize {
    match self {
      R::Nth { of: Some(o), .. } => 1 + o.depth(),
      R::All(rs) | R::Any(rs) | R::Obj(rs) => 1 + rs.iter().map(|r| r.depth()).max().unwrap_or(0),
      R::Not(r) => 1 + r.depth(),
      R::Inside(rel) | R::Has(rel) | R::Precedes(rel) | R::Follows(rel) => {
        let s = match &rel.stop {
          Stop::Rule(r) => r.depth(),
          _ => 0,
        };
        1 + rel.rule.depth().max(s)
      }
      _ => 0,
    }
  }

  /// does the rule (transitively, not through utils) contain a sibling relation?
  pub fn any_node(&self, f: &mut dyn FnMut(&R) -> bool) -> bool {
    if f(self) {
      return true;
    }
    match self {
      R::Nth { of: Some(o), .. } => o.any_node(f),
      R::All(rs) | R::Any(rs) | R::Obj(rs) => rs.iter().any(|r| r.any_node(f)),
      R::Not(r) => r.any_node(f),
      R::Inside(rel) | R::Has(rel) | R::Precedes(rel) | R::Follows(rel) => {
        rel.rule.any_node(f)
          || match &rel.stop {
            Stop::Rule(r) => r.any_node(f),
            _ => false,
          }
      }
      _ => false,
    }
  }
}

/// A rule document: main rule + local utils (+ constraints).
#[derive(Clone, Debug)]
pub struct RuleDoc {
  pub rule: R,
  pub utils: BTreeMap<String, R>,
  pub constraints: BTreeMap<String, R>,
  /// global utility rules (a rule + its own constraints), registered before the document loads
  pub globals: BTreeMap<String, (R, BTreeMap<String, R>)>,
}

impl RuleDoc {
  pub fn simple(rule: R) -> Self {
    RuleDoc {
      rule,
      utils: BTreeMap::new(),
      constraints: BTreeMap::new(),
      globals: BTreeMap::new(),
    }
  }
  pub fn globals_json(&self) -> Value {
    let m: Map<String, Value> = self
      .globals
      .iter()
      .map(|(k, (r, cons))| {
        let mut o = Map::new();
        o.insert("rule".into(), r.to_json());
        if !cons.is_empty() {
          o.insert("constraints".into(), Value::Object(cons.iter().map(|(a, b)| (a.clone(), b.to_json())).collect()));
        }
        (k.clone(), Value::Object(o))
      })
      .collect();
    Value::Object(m)
  }
  pub fn core_json(&self) -> Value {
    let mut m = Map::new();
    m.insert("rule".into(), self.rule.to_json());
    if !self.utils.is_empty() {
      let u: Map<String, Value> = self.utils.iter().map(|(k, v)| (k.clone(), v.to_json())).collect();
      m.insert("utils".into(), Value::Object(u));
    }
    if !self.constraints.is_empty() {
      let u: Map<String, Value> = self
        .constraints
        .iter()
        .map(|(k, v)| (k.clone(), v.to_json()))
        .collect();
      m.insert("constraints".into(), Value::Object(u));
    }
    Value::Object(m)
  }
  /// load through the real deserialiser as a RuleCore (no "must have kinds" requirement)
  pub fn load_core(&self, lang: SupportLang) -> Result<RuleCore<SupportLang>, String> {
    if self.globals.is_empty() {
      return load_core_json(&self.core_json(), lang);
    }
    // global utilities are RuleCores of their own (rule + constraints), registered first
    let globals = ast_grep_config::GlobalRules::default();
    for (id, (r, cons)) in &self.globals {
      let mut o = Map::new();
      o.insert("rule".into(), r.to_json());
      if !cons.is_empty() {
        o.insert("constraints".into(), Value::Object(cons.iter().map(|(a, b)| (a.clone(), b.to_json())).collect()));
      }
      let ser: SerializableRuleCore = from_str(&Value::Object(o).to_string()).map_err(|e| format!("yaml: {e}"))?;
      let core = ser.get_matcher(DeserializeEnv::new(lang).with_globals(&globals)).map_err(|e| format!("global: {e:?}"))?;
      globals.insert(id, core).map_err(|e| format!("global insert: {e:?}"))?;
    }
    let ser: SerializableRuleCore = from_str(&self.core_json().to_string()).map_err(|e| format!("yaml: {e}"))?;
    ser.get_matcher(DeserializeEnv::new(lang).with_globals(&globals)).map_err(|e| format!("core: {e:?}"))
  }
}

pub fn load_core_json(v: &Value, lang: SupportLang) -> Result<RuleCore<SupportLang>, String> {
  let text = v.to_string();
  let ser: SerializableRuleCore = from_str(&text).map_err(|e| format!("yaml: {e}"))?;
  let env = DeserializeEnv::new(lang);
  ser.get_matcher(env).map_err(|e| format!("core: {e:?}"))
}

// ---------------------------------------------------------------------------------------
// compiled reference form

pub enum C {
  Atom(Rule<SupportLang>),
  Range(usize, usize, usize, usize),
  Nth {
    a: i128,
    b: i128,
    reverse: bool,
    of: Option<Box<C>>,
  },
  All(Vec<C>),
  Any(Vec<C>),
  Not(Box<C>),
  Matches(String),
  Rel {
    kind: RelKind,
    sub: Box<C>,
    stop: CStop,
    field: Option<String>,
  },
}
#[derive(Clone, Copy, PartialEq, Eq, Debug)]
pub enum RelKind {
  Inside,
  Has,
  Precedes,
  Follows,
}
pub enum CStop {
  Neighbor,
  End,
  Rule(Box<C>),
}

pub struct Compiled {
  pub rule: C,
  pub utils: BTreeMap<String, C>,
  pub constraints: BTreeMap<String, C>,
  pub globals: BTreeMap<String, (C, BTreeMap<String, C>)>,
}

fn atom(r: &R, lang: SupportLang) -> Result<C, String> {
  let text = r.to_json().to_string();
  let ser: SerializableRule = from_str(&text).map_err(|e| format!("yaml: {e}"))?;
  let env = DeserializeEnv::new(lang);
  let rule = env.deserialize_rule(ser).map_err(|e| format!("atom: {e:?}"))?;
  Ok(C::Atom(rule))
}

/// ref_anb: `[+-]? INT? [nN] ([+-] INT)?` | `[+-]? INT` after removing whitespace.
pub fn ref_anb(s: &str) -> Option<(i128, i128)> {
  let t: String = s.chars().filter(|c| !c.is_whitespace()).collect();
  let b = t.as_bytes();
  let mut i = 0;
  let mut sign: i128 = 1;
  if i < b.len() && (b[i] == b'+' || b[i] == b'-') {
    if b[i] == b'-' {
      sign = -1;
    }
    i += 1;
  }
  let ds = i;
  while i < b.len() && b[i].is_ascii_digit() {
    i += 1;
  }
  let digits = &t[ds..i];
  if i == b.len() {
    // plain integer
    if digits.is_empty() {
      return None;
    }
    let v: i128 = digits.parse().ok()?;
    return Some((0, sign * v));
  }
  if b[i] != b'n' && b[i] != b'N' {
    return None;
  }
  i += 1;
  let a: i128 = if digits.is_empty() { 1 } else { digits.parse().ok()? };
  let a = sign * a;
  if i == b.len() {
    return Some((a, 0));
  }
  let bsign: i128 = match b[i] {
    b'+' => 1,
    b'-' => -1,
    _ => return None,
  };
  i += 1;
  let ds = i;
  while i < b.len() && b[i].is_ascii_digit() {
    i += 1;
  }
  if i != b.len() || ds == i {
    return None;
  }
  let v: i128 = t[ds..i].parse().ok()?;
  Some((a, bsign * v))
}

/// index i (1-based) selected iff exists n >= 0 with i = a*n + b
pub fn anb_selects(a: i128, b: i128, i: i128) -> bool {
  if a == 0 {
    i == b
  } else {
    let d = i - b;
    d % a == 0 && d / a >= 0
  }
}

pub fn compile(r: &R, lang: SupportLang) -> Result<C, String> {
  Ok(match r {
    R::Pat(_) | R::PatCtx { .. } | R::Kind(_) | R::Regex(_) => atom(r, lang)?,
    R::Range(a, b, c, d) => C::Range(*a, *b, *c, *d),
    R::Nth { pos, reverse, of } => {
      let (a, b) = ref_anb(pos).ok_or_else(|| format!("ref_anb rejects {pos}"))?;
      C::Nth {
        a,
        b,
        reverse: *reverse,
        of: match of {
          Some(o) => Some(Box::new(compile(o, lang)?)),
          None => None,
        },
      }
    }
    R::All(rs) => C::All(rs.iter().map(|r| compile(r, lang)).collect::<Result<_, _>>()?),
    R::Any(rs) => C::Any(rs.iter().map(|r| compile(r, lang)).collect::<Result<_, _>>()?),
    R::Not(r) => C::Not(Box::new(compile(r, lang)?)),
    R::Matches(u) => C::Matches(u.clone()),
    R::Inside(rel) | R::Has(rel) | R::Precedes(rel) | R::Follows(rel) => C::Rel {
      kind: match r {
        R::Inside(_) => RelKind::Inside,
        R::Has(_) => RelKind::Has,
        R::Precedes(_) => RelKind::Precedes,
        _ => RelKind::Follows,
      },
      sub: Box::new(compile(&rel.rule, lang)?),
      stop: match &rel.stop {
        Stop::Neighbor => CStop::Neighbor,
        Stop::End => CStop::End,
        Stop::Rule(s) => CStop::Rule(Box::new(compile(s, lang)?)),
      },
      field: rel.field.clone(),
    },
    R::Obj(parts) => {
      let mut ps: Vec<&R> = parts.iter().collect();
      ps.sort_by_key(|p| p.rank());
      C::All(ps.into_iter().map(|r| compile(r, lang)).collect::<Result<_, _>>()?)
    }
  })
}

pub fn compile_doc(d: &RuleDoc, lang: SupportLang) -> Result<Compiled, String> {
  let mut utils = BTreeMap::new();
  for (k, v) in &d.utils {
    utils.insert(k.clone(), compile(v, lang)?);
  }
  let mut constraints = BTreeMap::new();
  for (k, v) in &d.constraints {
    constraints.insert(k.clone(), compile(v, lang)?);
  }
  let mut globals = BTreeMap::new();
  for (k, (r, cons)) in &d.globals {
    let mut cc = BTreeMap::new();
    for (a, b) in cons {
      cc.insert(a.clone(), compile(b, lang)?);
    }
    globals.insert(k.clone(), (compile(r, lang)?, cc));
  }
  Ok(Compiled {
    rule: compile(&d.rule, lang)?,
    utils,
    constraints,
    globals,
  })
}

// ---------------------------------------------------------------------------------------
// reference evaluator

fn kids<'t>(n: &Node<'t, D>) -> Vec<Node<'t, D>> {
  let mut v = vec![];
  let mut i = 0;
  while let Some(c) = n.child(i) {
    v.push(c);
    i += 1;
  }
  v
}

fn same(a: &Node<D>, b: &Node<D>) -> bool {
  a.node_id() == b.node_id() && a.range() == b.range()
}

fn later_siblings<'t>(n: &Node<'t, D>) -> Vec<Node<'t, D>> {
  let Some(p) = n.parent() else { return vec![] };
  let ks = kids(&p);
  match ks.iter().position(|k| same(k, n)) {
    Some(i) => ks[i + 1..].to_vec(),
    None => vec![],
  }
}
fn earlier_siblings<'t>(n: &Node<'t, D>) -> Vec<Node<'t, D>> {
  let Some(p) = n.parent() else { return vec![] };
  let ks = kids(&p);
  match ks.iter().position(|k| same(k, n)) {
    Some(i) => ks[..i].iter().rev().cloned().collect(),
    None => vec![],
  }
}

pub struct Eval<'c> {
  pub c: &'c Compiled,
  /// recursion fuel against cyclic utility graphs (never hit for acyclic documents)
  pub fuel: std::cell::Cell<u64>,
}

impl<'c> Eval<'c> {
  pub fn new(c: &'c Compiled) -> Self {
    Eval {
      c,
      fuel: std::cell::Cell::new(2_000_000),
    }
  }

  /// the whole document: rule, then constraints on single captures
  pub fn doc<'t>(&self, n: &Node<'t, D>) -> Option<Env<'t>> {
    let env = self.eval(&self.c.rule, n, &Env::new())?;
    self.constraints(env)
  }

  fn constraints<'t>(&self, env: Env<'t>) -> Option<Env<'t>> {
    self.constraints_of(&self.c.constraints, env)
  }

  fn constraints_of<'t>(&self, cons: &BTreeMap<String, C>, env: Env<'t>) -> Option<Env<'t>> {
    let mut cur = env;
    for (var, rule) in cons {
      let Some(node) = cur.get_match(var).cloned() else {
        continue;
      };
      cur = self.eval(rule, &node, &cur)?;
    }
    Some(cur)
  }

  fn stop_holds(&self, s: &C, n: &Node<D>) -> bool {
    self.eval(s, n, &Env::new()).is_some()
  }

  /// candidates of a linear relation (inside / precedes / follows) under stopBy
  fn limit<'t>(&self, all: Vec<Node<'t, D>>, stop: &CStop) -> Vec<Node<'t, D>> {
    match stop {
      CStop::Neighbor => all.into_iter().take(1).collect(),
      CStop::End => all,
      CStop::Rule(s) => {
        let mut out = vec![];
        for c in all {
          let hit = self.stop_holds(s, &c);
          out.push(c);
          if hit {
            break;
          }
        }
        out
      }
    }
  }

  fn has_cands<'t>(&self, n: &Node<'t, D>, stop: &CStop, out: &mut Vec<Node<'t, D>>) {
    for c in kids(n) {
      out.push(c.clone());
      match stop {
        CStop::Neighbor => {}
        CStop::End => self.has_cands(&c, stop, out),
        CStop::Rule(s) => {
          if !self.stop_holds(s, &c) {
            self.has_cands(&c, stop, out);
          }
        }
      }
    }
  }

  pub fn eval<'t>(&self, c: &C, n: &Node<'t, D>, env: &Env<'t>) -> Option<Env<'t>> {
    let f = self.fuel.get();
    if f == 0 {
      return None;
    }
    self.fuel.set(f - 1);
    match c {
      C::Atom(rule) => {
        let mut e = Cow::Owned(env.clone());
        rule.match_node_with_env(n.clone(), &mut e)?;
        Some(e.into_owned())
      }
      C::Range(sl, sc, el, ec) => {
        let src = n.root().get_text();
        let r = n.range();
        let (l1, c1) = crate::refs::position(src, r.start);
        let (l2, c2) = crate::refs::position(src, r.end);
        ((l1, c1, l2, c2) == (*sl, *sc, *el, *ec)).then(|| env.clone())
      }
      C::Nth { a, b, reverse, of } => {
        let p = n.parent()?;
        let mut sibs: Vec<Node<'t, D>> = kids(&p).into_iter().filter(|k| k.is_named()).collect();
        if let Some(of) = of {
          sibs.retain(|k| self.eval(of, k, env).is_some());
        }
        if *reverse {
          sibs.reverse();
        }
        let i = sibs.iter().position(|k| same(k, n))? as i128 + 1;
        if !anb_selects(*a, *b, i) {
          return None;
        }
        // siblings are only counted; the inspected node itself satisfies ofRule and
        // contributes its bindings like a conjunct
        match of {
          Some(of) => self.eval(of, n, env),
          None => Some(env.clone()),
        }
      }
      C::All(rs) => {
        let mut cur = env.clone();
        for r in rs {
          cur = self.eval(r, n, &cur)?;
        }
        Some(cur)
      }
      C::Any(rs) => rs.iter().find_map(|r| self.eval(r, n, env)),
      C::Not(r) => match self.eval(r, n, env) {
        Some(_) => None,
        None => Some(env.clone()),
      },
      C::Matches(u) => {
        if let Some(body) = self.c.utils.get(u) {
          return self.eval(body, n, env);
        }
        // a global utility is a rule with its own constraints: both must hold, or nothing
        // of it is visible
        let (body, cons) = self.c.globals.get(u)?;
        let e = self.eval(body, n, env)?;
        self.constraints_of(cons, e)
      }
      C::Rel {
        kind,
        sub,
        stop,
        field,
      } => {
        let cands: Vec<Node<'t, D>> = match kind {
          RelKind::Inside => {
            let mut anc = vec![];
            let mut path_child = n.clone();
            let mut cur = n.parent();
            // (ancestor, child of it on the path to n)
            let mut pairs = vec![];
            while let Some(a) = cur {
              pairs.push((a.clone(), path_child.clone()));
              path_child = a.clone();
              cur = a.parent();
            }
            let all: Vec<Node<'t, D>> = pairs.iter().map(|(a, _)| a.clone()).collect();
            let limited = self.limit(all, stop);
            for (i, a) in limited.into_iter().enumerate() {
              if let Some(f) = field {
                match a.field(f) {
                  Some(fc) if same(&fc, &pairs[i].1) => {}
                  _ => continue,
                }
              }
              anc.push(a);
            }
            anc
          }
          RelKind::Has => {
            let mut out = vec![];
            match field {
              None => self.has_cands(n, stop, &mut out),
              Some(f) => {
                let fc = n.field(f)?;
                out.push(fc.clone());
                let descend = match stop {
                  CStop::Neighbor => false,
                  CStop::End => true,
                  CStop::Rule(s) => !self.stop_holds(s, &fc),
                };
                if descend {
                  self.has_cands(&fc, stop, &mut out);
                }
              }
            }
            out
          }
          RelKind::Precedes => self.limit(later_siblings(n), stop),
          RelKind::Follows => self.limit(earlier_siblings(n), stop),
        };
        cands.iter().find_map(|c| self.eval(sub, c, env))
      }
    }
  }
}

/// binding summary used to compare environments: name -> byte range (single),
/// name -> list of byte ranges of named nodes (multi; the internal `secondary` label is dropped)
pub fn env_summary(env: &Env, names: &[&str]) -> BTreeMap<String, Value> {
  let mut m = BTreeMap::new();
  for name in names {
    if let Some(n) = env.get_match(name) {
      m.insert(format!("${name}"), json!([n.range().start, n.range().end]));
    }
    let multi = env.get_multiple_matches(name);
    if !multi.is_empty() {
      let v: Vec<Value> = multi
        .iter()
        .filter(|n| n.is_named())
        .map(|n| json!([n.range().start, n.range().end]))
        .collect();
      m.insert(format!("$$${name}"), Value::Array(v));
    }
  }
  m
}
