//! ref_align (DESIGN Appendix A.1): the most permissive legal alignment of a pattern tree
//! with a node under a strictness level. Used only in the direction impl-match => relation.
use ast_grep_core::matcher::PatternNode;
use ast_grep_core::meta_var::MetaVariable;
use ast_grep_core::{Doc, Node};

const ERROR_KIND: u16 = 65535;

#[derive(Clone, Copy, PartialEq, Eq, Debug)]
pub enum S {
  Cst,
  Smart,
  Ast,
  Relaxed,
  Signature,
}
impl S {
  pub fn parse(s: &str) -> S {
    match s {
      "cst" => S::Cst,
      "smart" => S::Smart,
      "ast" => S::Ast,
      "relaxed" => S::Relaxed,
      "signature" => S::Signature,
      _ => panic!("strictness"),
    }
  }
}

fn kind_ok(goal: u16, cand: u16) -> bool {
  goal == cand || goal == ERROR_KIND
}

fn is_ellipsis(p: &PatternNode) -> bool {
  matches!(
    p,
    PatternNode::MetaVar {
      meta_var: MetaVariable::Multiple | MetaVariable::MultiCapture(_)
    }
  )
}

fn comment_or_unnamed<D: Doc>(n: &Node<D>) -> bool {
  !n.is_named() || n.kind().contains("comment")
}

fn cand_skip<D: Doc>(s: S, n: &Node<D>) -> bool {
  match s {
    S::Cst => false,
    S::Smart | S::Ast => !n.is_named(),
    S::Relaxed | S::Signature => comment_or_unnamed(n),
  }
}

fn goal_skip(p: &PatternNode) -> bool {
  match p {
    PatternNode::MetaVar { meta_var } => match meta_var {
      MetaVariable::Multiple | MetaVariable::MultiCapture(_) => true,
      MetaVariable::Capture(_, named) | MetaVariable::Dropped(named) => !named,
    },
    PatternNode::Terminal { is_named, .. } => !is_named,
    PatternNode::Internal { .. } => false,
  }
}

fn trail_ok<D: Doc>(s: S, n: &Node<D>) -> bool {
  match s {
    S::Smart => true,
    S::Cst | S::Ast => false,
    S::Relaxed | S::Signature => comment_or_unnamed(n),
  }
}

pub fn align<D: Doc>(p: &PatternNode, n: &Node<D>, s: S) -> bool {
  match p {
    PatternNode::MetaVar { meta_var } => match meta_var {
      MetaVariable::Capture(_, named) | MetaVariable::Dropped(named) => !named || n.is_named(),
      MetaVariable::Multiple | MetaVariable::MultiCapture(_) => true,
    },
    PatternNode::Terminal {
      text,
      is_named,
      kind_id,
    } => kind_ok(*kind_id, n.kind_id()) && (!is_named || s == S::Signature || *text == n.text()),
    PatternNode::Internal { kind_id, children } => {
      if !kind_ok(*kind_id, n.kind_id()) {
        return false;
      }
      let ns: Vec<Node<D>> = {
        let mut v = vec![];
        let mut i = 0;
        while let Some(c) = n.child(i) {
          v.push(c);
          i += 1;
        }
        v
      };
      if children.is_empty() {
        return true;
      }
      let mut memo = vec![None; (children.len() + 1) * (ns.len() + 1)];
      seq(children, &ns, 0, 0, s, &mut memo)
    }
  }
}

fn seq<D: Doc>(
  ps: &[PatternNode],
  ns: &[Node<D>],
  i: usize,
  j: usize,
  s: S,
  memo: &mut Vec<Option<bool>>,
) -> bool {
  let w = ns.len() + 1;
  if let Some(v) = memo[i * w + j] {
    return v;
  }
  let r = if i == ps.len() {
    ns[j..].iter().all(|c| trail_ok(s, c))
  } else if is_ellipsis(&ps[i]) {
    (j..=ns.len()).any(|k| seq(ps, ns, i + 1, k, s, memo))
  } else if j == ns.len() {
    ps[i..].iter().all(goal_skip)
  } else {
    (align(&ps[i], &ns[j], s) && seq(ps, ns, i + 1, j + 1, s, memo))
      || (cand_skip(s, &ns[j]) && seq(ps, ns, i, j + 1, s, memo))
      || (goal_skip(&ps[i]) && seq(ps, ns, i + 1, j, s, memo))
  };
  memo[i * w + j] = Some(r);
  r
}
