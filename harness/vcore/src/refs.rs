//! Reference models ("boring" Rust). Written from the property statements.

/// ref_position: zero-based line = number of '\n' before the offset;
/// column = number of chars between the line start and the offset.
pub fn position(src: &str, off: usize) -> (usize, usize) {
  let bytes = src.as_bytes();
  let off = off.min(bytes.len());
  let line = bytes[..off].iter().filter(|&&b| b == b'\n').count();
  let line_start = bytes[..off]
    .iter()
    .rposition(|&b| b == b'\n')
    .map(|p| p + 1)
    .unwrap_or(0);
  // count chars: number of bytes that are not UTF-8 continuation bytes
  let col = bytes[line_start..off]
    .iter()
    .filter(|&&b| (b & 0xC0) != 0x80)
    .count();
  (line, col)
}

/// ref_splice: apply (pos, del, text) edits given in order to `src`, dropping an edit that
/// overlaps an earlier accepted one. Edits must be sorted by position.
pub fn splice(src: &[u8], edits: &[(usize, usize, Vec<u8>)]) -> Vec<u8> {
  let mut out = Vec::new();
  let mut cur = 0usize;
  for (pos, del, text) in edits {
    if *pos < cur {
      continue;
    }
    out.extend_from_slice(&src[cur..*pos]);
    out.extend_from_slice(text);
    cur = pos + del;
  }
  out.extend_from_slice(&src[cur.min(src.len())..]);
  out
}
