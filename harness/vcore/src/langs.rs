//! Source alphabets: per language a small token table. All token sequences up to a length
//! bound are generated (see gen.rs), parsed with the real grammar and fed to the checks.

use ast_grep_language::SupportLang;

pub struct LangSpec {
  pub lang: SupportLang,
  pub name: &'static str,
  /// "deep" languages get the full bounds, shallow ones L-1.
  pub deep: bool,
  pub tokens: &'static [&'static str],
  /// a few realistic multi-line snippets (corpus) that every check also visits
  pub corpus: &'static [&'static str],
}

use SupportLang::*;

pub static SPECS: &[LangSpec] = &[
  LangSpec {
    lang: JavaScript,
    name: "javascript",
    deep: true,
    tokens: &["a", "b", "1", "'s'", "/*c*/", "(", ")", "{", "}", ",", ";", "=", "+", "é"],
    corpus: &[
      "function f(a, b) {\n  // note\n  return a + b;\n}\nf(1, 2);\n",
      "let x = [1, 2, 3].map(v => v * 2);\nif (x) { g(x) } else { h() }\n",
      "class A extends B {\n  m() { return this.n; }\n}\n",
      "foo(bar, /* c */ baz,);\nconsole.log('é', `t${x}`);\n",
      // a NAMED LEAF whose text ends with a line break (string_fragment "a\n")
      "let t = `a\n`;\n",
      // a lone carriage return inside a line (it ends no line: rows count LF only)
      "let a = 1;\rlet b = 2;\n",
    ],
  },
  LangSpec {
    lang: TypeScript,
    name: "typescript",
    deep: true,
    tokens: &["a", "b", "1", "'s'", "/*c*/", "(", ")", "{", "}", ",", ";", "=", ":", "é"],
    corpus: &[
      "function f(a: number, b?: string): void {\n  return;\n}\n",
      "interface I { x: number; y?: A<B> }\ntype T = I | null;\n",
      "const v = <T>(x: T) => x as unknown;\n",
      // anonymous node WITH children (alias(seq('unique','symbol'), 'unique symbol'))
      "declare const s: unique symbol;\n",
    ],
  },
  LangSpec {
    lang: Tsx,
    name: "tsx",
    deep: true,
    tokens: &["a", "b", "1", "'s'", "/*c*/", "(", ")", "{", "}", ",", ";", "=", "<a/>", "é"],
    corpus: &[
      "const e = <div className=\"x\">{a}<b/></div>;\n",
      "function C(p: P) { return <A {...p}>t</A> }\n",
      "declare const s: unique symbol;\n",
    ],
  },
  LangSpec {
    lang: Python,
    name: "python",
    deep: true,
    tokens: &["a", "b", "1", "'s'", "#c\n", "(", ")", ",", ":", "=", "+", "\n", "if", "é", "not", "in"],
    corpus: &[
      "def f(a, b=1):\n    # note\n    return a + b\n\nf(1, 2)\n",
      "class A(B):\n    x = [i for i in y if i]\n    def m(self):\n        pass\n",
      "if a:\n    b()\nelif c:\n    d()\nelse:\n    e('é')\n",
      // anonymous nodes WITH children: "not in" / "is not" are alias(seq(..)) in the grammar
      "x = a not in b\ny = a is not b\nif a not in (b, c): pass\n",
      // a NAMED LEAF whose text ends with a line break (string_content "a\n")
      "s = '''a\n'''\n",
      // CRLF file whose comment token swallows the CR
      "x = 1  # note\r\ny = 2\r\n",
    ],
  },
  LangSpec {
    lang: Rust,
    name: "rust",
    deep: true,
    tokens: &["a", "b", "1", "\"s\"", "/*c*/", "(", ")", "{", "}", ",", ";", "=", "fn", "é"],
    corpus: &[
      "fn f(a: i32, b: i32) -> i32 {\n    // note\n    a + b\n}\n",
      "struct S { x: u8 }\nimpl S { fn m(&self) -> u8 { self.x } }\n",
      "let v: Vec<_> = it.map(|x| x + 1).collect();\n",
      // a NAMED LEAF whose text ends with a line break (doc_comment " doc\n")
      "struct S {\n    /// doc\n    x: i32,\n}\n",
    ],
  },
  LangSpec {
    lang: C,
    name: "c",
    deep: true,
    tokens: &["a", "b", "1", "\"s\"", "/*c*/", "(", ")", "{", "}", ",", ";", "=", "int", "+"],
    corpus: &[
      "int f(int a, int b) {\n  /* note */\n  return a + b;\n}\n",
      "struct s { int x; };\nvoid g(void) { f(1, 2); }\n",
      // unnamed keyword tokens that start with the expando char of the language (`_`)
      "int n = _Alignof(int) + _Generic(a, int: 1, default: 2);\n_Alignas(8) _Atomic int z;\n_Noreturn void h(void);\n",
    ],
  },
  LangSpec {
    lang: Html,
    name: "html",
    deep: true,
    tokens: &[
      "<a>", "</a>", "<b", ">", "x=1", "t", "<!--c-->", "<script>", "</script>", "a", ";", "é",
    ],
    corpus: &[
      "<div class=\"x\">\n  <p>t</p>\n  <!-- c -->\n</div>\n",
      "<html><script>foo(1);</script><style>a { b: c }</style></html>\n",
    ],
  },
  LangSpec {
    lang: Css,
    name: "css",
    deep: true,
    tokens: &["a", "b", "{", "}", ":", ";", "1", ",", "/*c*/", ".", "(", ")"],
    corpus: &[
      "a, .b > c {\n  color: red;\n  margin: 1px 2px;\n}\n",
      "@media (min-width: 1px) { a { b: c(1) } }\n",
    ],
  },
  LangSpec {
    lang: Bash,
    name: "bash",
    deep: false,
    tokens: &["a", "b", "1", "'s'", "#c\n", "(", ")", ";", "=", "|", "\n", "$x"],
    corpus: &["f() {\n  echo \"$1\" | grep a\n}\nif [ -n \"$x\" ]; then f 1; fi\n"],
  },
  LangSpec {
    lang: Cpp,
    name: "cpp",
    deep: false,
    tokens: &["a", "b", "1", "\"s\"", "/*c*/", "(", ")", "{", "}", ",", ";", "=", "int"],
    corpus: &[
      "class A : public B {\n public:\n  int m(int a) { return a + 1; }\n};\n",
      "int n = _Alignof(int);\n_Alignas(8) _Atomic int z;\n",
    ],
  },
  LangSpec {
    lang: CSharp,
    name: "csharp",
    deep: false,
    tokens: &["a", "b", "1", "\"s\"", "/*c*/", "(", ")", "{", "}", ",", ";", "=", "int"],
    corpus: &["class A {\n  int M(int a) { return a + 1; }\n}\n"],
  },
  LangSpec {
    lang: Elixir,
    name: "elixir",
    deep: false,
    tokens: &["a", "b", "1", "\"s\"", "#c\n", "(", ")", ",", "=", "+", "\n", "do", "end"],
    corpus: &["defmodule A do\n  def f(a, b) do\n    a + b\n  end\nend\n", "x = a not in b\n"],
  },
  LangSpec {
    lang: Go,
    name: "go",
    deep: false,
    tokens: &["a", "b", "1", "\"s\"", "/*c*/", "(", ")", "{", "}", ",", ";", "=", "func"],
    corpus: &["package p\n\nfunc f(a int, b int) int {\n\t// note\n\treturn a + b\n}\n"],
  },
  LangSpec {
    lang: Haskell,
    name: "haskell",
    deep: false,
    tokens: &["a", "b", "1", "\"s\"", "{-c-}", "(", ")", ",", "=", "+", "\n", "::"],
    corpus: &["f :: Int -> Int\nf a = a + 1\n", "g = (# a, b #)\n"],
  },
  LangSpec {
    lang: Java,
    name: "java",
    deep: false,
    tokens: &["a", "b", "1", "\"s\"", "/*c*/", "(", ")", "{", "}", ",", ";", "=", "int"],
    corpus: &["class A {\n  int m(int a) {\n    return a + 1;\n  }\n}\n"],
  },
  LangSpec {
    lang: Json,
    name: "json",
    deep: false,
    tokens: &["1", "\"s\"", "{", "}", "[", "]", ",", ":", "true", "null"],
    corpus: &["{\n  \"a\": [1, 2, {\"b\": null}],\n  \"c\": \"é\"\n}\n"],
  },
  LangSpec {
    lang: Kotlin,
    name: "kotlin",
    deep: false,
    tokens: &["a", "b", "1", "\"s\"", "/*c*/", "(", ")", "{", "}", ",", ";", "=", "val"],
    corpus: &["fun f(a: Int, b: Int): Int {\n  return a + b\n}\n"],
  },
  LangSpec {
    lang: Lua,
    name: "lua",
    deep: false,
    tokens: &["a", "b", "1", "'s'", "--c\n", "(", ")", "{", "}", ",", ";", "=", "end"],
    corpus: &["local function f(a, b)\n  return a + b\nend\nf(1, 2)\n"],
  },
  LangSpec {
    lang: Php,
    name: "php",
    deep: false,
    tokens: &["<?php", "$a", "b", "1", "'s'", "/*c*/", "(", ")", "{", "}", ",", ";", "="],
    corpus: &["<?php\nfunction f($a, $b) {\n  return $a + $b;\n}\n"],
  },
  LangSpec {
    lang: Ruby,
    name: "ruby",
    deep: false,
    tokens: &["a", "b", "1", "'s'", "#c\n", "(", ")", ",", "=", "+", "\n", "do", "end"],
    corpus: &["def f(a, b)\n  a + b\nend\nf(1, 2)\n"],
  },
  LangSpec {
    lang: Scala,
    name: "scala",
    deep: false,
    tokens: &["a", "b", "1", "\"s\"", "/*c*/", "(", ")", "{", "}", ",", ";", "=", "val"],
    corpus: &["object A {\n  def f(a: Int, b: Int): Int = a + b\n}\n"],
  },
  LangSpec {
    lang: Swift,
    name: "swift",
    deep: false,
    tokens: &["a", "b", "1", "\"s\"", "/*c*/", "(", ")", "{", "}", ",", ";", "=", "let"],
    corpus: &["func f(a: Int, b: Int) -> Int {\n  return a + b\n}\n"],
  },
  LangSpec {
    lang: Yaml,
    name: "yaml",
    deep: false,
    tokens: &["a", "b", "1", "'s'", "#c\n", ":", "-", "[", "]", ",", "\n", "  "],
    corpus: &["a:\n  - b: 1\n    c: 's'\n  - d\n# c\ne: [1, 2]\n"],
  },
];

pub fn spec(lang: SupportLang) -> &'static LangSpec {
  SPECS.iter().find(|s| s.lang == lang).expect("spec for every language")
}

pub fn spec_by_name(name: &str) -> Option<&'static LangSpec> {
  SPECS.iter().find(|s| s.name == name)
}

pub fn deep() -> impl Iterator<Item = &'static LangSpec> {
  SPECS.iter().filter(|s| s.deep)
}
