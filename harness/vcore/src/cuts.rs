//! C02-style cuts: a node's text with some named descendants replaced by `$V<i>` holes, or a
//! trailing run of named siblings replaced by `$$$V`.
use crate::rules::D;
use ast_grep_core::Node;
use std::ops::Range;

#[derive(Clone, Debug)]
pub struct Cut {
  pub text: String,
  /// (variable name, absolute byte range of the replaced sub-expression)
  pub holes: Vec<(String, Range<usize>)>,
  /// named ellipsis: (variable name, byte ranges of the replaced named siblings,
  ///  range of the parent whose child list was cut)
  pub multi: Option<(String, Vec<Range<usize>>, Range<usize>)>,
}

fn kids<'t>(n: &Node<'t, D>) -> Vec<Node<'t, D>> {
  let mut v = vec![];
  let mut i = 0;
  while let Some(c) = n.child(i) {
    v.push(c);
    i += 1;
  }
  v
}

fn named_desc<'t>(n: &Node<'t, D>, out: &mut Vec<Node<'t, D>>) {
  if n.is_named() {
    out.push(n.clone());
  }
  for c in kids(n) {
    named_desc(&c, out);
  }
}

fn disjoint(a: &Range<usize>, b: &Range<usize>) -> bool {
  a.end <= b.start || b.end <= a.start
}

fn splice(n: &Node<D>, reps: &[(Range<usize>, String)]) -> String {
  let base = n.range().start;
  let text = n.text().to_string();
  let mut reps: Vec<_> = reps.to_vec();
  reps.sort_by_key(|r| r.0.start);
  let mut out = String::new();
  let mut cur = 0usize;
  for (r, t) in reps {
    out.push_str(&text[cur..r.start - base]);
    out.push_str(&t);
    cur = r.end - base;
  }
  out.push_str(&text[cur..]);
  out
}

/// all cuts of `n` with at most `max_holes` single holes (0 holes = the code itself), plus all
/// trailing-run cuts (one `$$$V` each).
pub fn cuts_of(n: &Node<D>, max_holes: usize) -> Vec<Cut> {
  let mut out = vec![];
  let mut cands = vec![];
  named_desc(n, &mut cands);
  // dedupe by extent (an identifier and the expression statement made of it share one)
  let mut ranges: Vec<Range<usize>> = vec![];
  for c in &cands {
    let r = c.range();
    if !r.is_empty() && !ranges.contains(&r) {
      ranges.push(r);
    }
  }
  out.push(Cut {
    text: n.text().to_string(),
    holes: vec![],
    multi: None,
  });
  if max_holes >= 1 {
    for (i, a) in ranges.iter().enumerate() {
      out.push(Cut {
        text: splice(n, &[(a.clone(), "$V0".into())]),
        holes: vec![("V0".into(), a.clone())],
        multi: None,
      });
      if max_holes >= 2 {
        for (j, b) in ranges.iter().enumerate().skip(i + 1) {
          if !disjoint(a, b) {
            continue;
          }
          let (x, y) = if a.start <= b.start { (a, b) } else { (b, a) };
          out.push(Cut {
            text: splice(n, &[(x.clone(), "$V0".into()), (y.clone(), "$V1".into())]),
            holes: vec![("V0".into(), x.clone()), ("V1".into(), y.clone())],
            multi: None,
          });
          if max_holes >= 3 {
            for c in ranges.iter().skip(j + 1) {
              if !disjoint(a, c) || !disjoint(b, c) {
                continue;
              }
              let mut hs = vec![a.clone(), b.clone(), c.clone()];
              hs.sort_by_key(|r| r.start);
              let reps: Vec<_> = hs
                .iter()
                .enumerate()
                .map(|(k, r)| (r.clone(), format!("$V{k}")))
                .collect();
              out.push(Cut {
                text: splice(n, &reps),
                holes: hs.iter().enumerate().map(|(k, r)| (format!("V{k}"), r.clone())).collect(),
                multi: None,
              });
            }
          }
        }
      }
    }
  }
  // trailing runs
  let mut parents = vec![];
  fn all<'t>(n: &Node<'t, D>, out: &mut Vec<Node<'t, D>>) {
    out.push(n.clone());
    let mut i = 0;
    while let Some(c) = n.child(i) {
      all(&c, out);
      i += 1;
    }
  }
  all(n, &mut parents);
  for q in parents {
    let ks = kids(&q);
    let named_idx: Vec<usize> = (0..ks.len()).filter(|&i| ks[i].is_named()).collect();
    for (pos, &i) in named_idx.iter().enumerate() {
      let last = *named_idx.last().unwrap();
      let start = ks[i].range().start;
      let end = ks[last].range().end;
      if end <= start {
        continue;
      }
      let sibs: Vec<Range<usize>> = named_idx[pos..].iter().map(|&k| ks[k].range()).collect();
      out.push(Cut {
        text: splice(n, &[(start..end, "$$$V".into())]),
        holes: vec![],
        multi: Some(("V".into(), sibs, q.range())),
      });
    }
  }
  out
}
