//! Small helpers over the public Node API.
use ast_grep_core::{Doc, Node};

/// true if the subtree contains an ERROR or MISSING node
pub fn has_error<D: Doc>(n: &Node<D>) -> bool {
  n.get_ts_node().has_error()
}

pub fn is_missing<D: Doc>(n: &Node<D>) -> bool {
  n.get_ts_node().is_missing()
}

/// all nodes of the subtree by plain recursion over child(i) (the baseline traversal)
pub fn all_nodes<'r, D: Doc>(n: &Node<'r, D>, out: &mut Vec<Node<'r, D>>) {
  out.push(n.clone());
  let mut i = 0;
  while let Some(c) = n.child(i) {
    all_nodes(&c, out);
    i += 1;
  }
}

pub fn children_vec<'r, D: Doc>(n: &Node<'r, D>) -> Vec<Node<'r, D>> {
  let mut v = vec![];
  let mut i = 0;
  while let Some(c) = n.child(i) {
    v.push(c);
    i += 1;
  }
  v
}

/// shape string: kinds only (used to count distinct tree shapes)
pub fn shape<D: Doc>(n: &Node<D>) -> String {
  n.to_sexp().to_string()
}

pub fn has_zero_width_child<D: Doc>(n: &Node<D>) -> bool {
  children_vec(n).iter().any(|c| c.range().is_empty())
}
