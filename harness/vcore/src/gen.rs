//! Bounded-exhaustive enumeration of token strings.

/// number of sequences of length 1..=max_len over n tokens
pub fn count(n: usize, max_len: usize) -> usize {
  let mut total = 0usize;
  let mut p = 1usize;
  for _ in 0..max_len {
    p *= n;
    total += p;
  }
  total
}

/// Decode the idx-th sequence (shorter first, then lexicographic in table order).
pub fn nth_tokens(n: usize, max_len: usize, mut idx: usize) -> Vec<usize> {
  let mut p = 1usize;
  for len in 1..=max_len {
    p *= n;
    if idx < p {
      let mut out = vec![0usize; len];
      for k in (0..len).rev() {
        out[k] = idx % n;
        idx /= n;
      }
      return out;
    }
    idx -= p;
  }
  panic!("index out of range");
}

pub fn join(tokens: &[&str], seq: &[usize]) -> String {
  let mut s = String::new();
  for (i, &t) in seq.iter().enumerate() {
    let tok = tokens[t];
    s.push_str(tok);
    if i + 1 < seq.len() && !tok.ends_with('\n') {
      s.push(' ');
    }
  }
  s
}

pub fn nth(tokens: &[&str], max_len: usize, idx: usize) -> String {
  join(tokens, &nth_tokens(tokens.len(), max_len, idx))
}

pub fn all(tokens: &[&str], max_len: usize) -> Vec<String> {
  (0..count(tokens.len(), max_len))
    .map(|i| nth(tokens, max_len, i))
    .collect()
}
