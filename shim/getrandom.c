/* E4: owned hash seeds. LD_PRELOAD this library and every getrandom() call of the process
 * (this is where Rust's std takes the per-thread SipHash keys of HashMap's RandomState from)
 * returns bytes that are a pure function of VERIF_HASH_SEED (default 0) and of the position in
 * the requested buffer. HashMap iteration order becomes an owned, replayable choice. */
#define _GNU_SOURCE
#include <stdlib.h>
#include <string.h>
#include <sys/types.h>
#include <stdint.h>

static uint64_t splitmix(uint64_t *s) {
  uint64_t z = (*s += 0x9e3779b97f4a7c15ULL);
  z = (z ^ (z >> 30)) * 0xbf58476d1ce4e5b9ULL;
  z = (z ^ (z >> 27)) * 0x94d049bb133111ebULL;
  return z ^ (z >> 31);
}

ssize_t getrandom(void *buf, size_t buflen, unsigned int flags) {
  (void)flags;
  const char *e = getenv("VERIF_HASH_SEED");
  uint64_t s = e ? strtoull(e, 0, 10) : 0;
  s = s * 0x2545F4914F6CDD1DULL + 0x1234567ULL;
  unsigned char *p = buf;
  size_t i = 0;
  while (i < buflen) {
    uint64_t v = splitmix(&s);
    size_t n = buflen - i < 8 ? buflen - i : 8;
    memcpy(p + i, &v, n);
    i += n;
  }
  return (ssize_t)buflen;
}
