"""C18 -- `--update-all` writes exactly the announced edits and nothing else.

Explicit-state model checking over file-tree states (shape H of DESIGN.md):
  state       = the complete contents of a small directory tree (path -> bytes), rule files included
  initial     = a handful of fixed projects (PROJECTS)
  transitions = a fixed list of commands (`scan -U` with two rule sets, `run -p P -r F -U` ...)
  search      = breadth first over command sequences up to a depth, states deduplicated by tree hash
For EVERY transition from EVERY reached state the real binary is run twice: once with
`--json=stream` (the announcement) and once with `-U` (the update).  The reference is boring python
written from the property statement: splice the announced edits, drop an edit that overlaps an
earlier accepted one, leave everything else alone, count what was accepted.
"""
import hashlib, itertools, json, os, re, shutil, sys

import vlib

PROP = "C18"

# ----------------------------------------------------------------------------------------------
# the alphabet: rule sets, projects (initial states), commands (transitions)
# ----------------------------------------------------------------------------------------------

def _docs(*rules):
    return "\n---\n".join(json.dumps(r) for r in rules) + "\n"


# rule set R1: given to `scan -r r1.yml` as one multi-document YAML file.
#   a-foo / b-bar fix overlapping ranges of `foo(bar(1))` (outer call / inner call) and disjoint
#   ranges elsewhere; h-div is a host-language (html) fix, a-foo/b-bar also fire inside <script>.
R1 = _docs(
    {"id": "a-foo", "language": "js", "rule": {"pattern": "foo($A)"}, "fix": "qux($A)"},
    {"id": "b-bar", "language": "js", "rule": {"pattern": "bar($$$A)"}, "fix": "baz($$$A)"},
    {"id": "h-div", "language": "html", "rule": {"pattern": "<div>$$$A</div>"}, "fix": "<p>$$$A</p>"},
)
# rule set R2: a project (sgconfig.yml + rules/), used by a bare `scan`.
#   c-qux undoes a-foo (cycles in the state graph), e-baz re-matches its own output (grows),
#   d-eq converges, g-dbg has an object-form fix with expandEnd (edit range != node range),
#   f-let has no fix (announced without replacement: must never be written or counted).
R2 = {
    "sgconfig.yml": "ruleDirs: [rules]\n",
    "rules/c-qux.yml": _docs({"id": "c-qux", "language": "js", "rule": {"pattern": "qux($A)"}, "fix": "foo($A)"}),
    "rules/d-eq.yml": _docs({"id": "d-eq", "language": "js", "rule": {"pattern": "$A == $B"}, "fix": "$A === $B"}),
    "rules/e-baz.yml": _docs({"id": "e-baz", "language": "js", "rule": {"pattern": "baz($$$A)"}, "fix": "baz($$$A, 0)"}),
    "rules/more.yml": _docs(
        {"id": "f-let", "language": "js", "severity": "hint", "message": "let", "rule": {"pattern": "let $X = $Y"}},
        {"id": "g-dbg", "language": "js", "rule": {"pattern": "debugger"},
         "fix": {"template": "", "expandEnd": {"regex": ";"}}},
        {"id": "h-span", "language": "html", "rule": {"pattern": "<span>$$$A</span>"}, "fix": "<b>$$$A</b>"},
        # the replacement text EQUALS the matched node's text, only the expansion changes the file
        {"id": "t-comma", "language": "js", "rule": {"pattern": "zed"},
         "fix": {"template": "zed", "expandEnd": {"regex": "^,$"}}},
        # both expansions: the edits of neighbouring array elements overlap pairwise IN A CHAIN
        # (e1-e2, e2-e3, e3-e4, ...): an edit that only overlaps a DROPPED edit must still be applied
        {"id": "k-num", "language": "js", "rule": {"kind": "number", "inside": {"kind": "array"}},
         "fix": {"template": "", "expandStart": {"regex": "^,$"}, "expandEnd": {"regex": "^,$"}}},
    ),
}
SHARED = dict(R2, **{"r1.yml": R1})

PROJECTS = {
    # (1) two js files with several matches each
    "two-js": {
        "src/a.js": "foo(1); foo(bar(2));\nlet x = a == b;\ndebugger; bar(3)\n",
        "src/b.js": "if (a == b == c) { foo(foo(4)) }\nbar(5, 6);\nqux(7)\n",
    },
    # (2) two rules fix overlapping ranges (outer foo / inner bar) and disjoint ranges of one file
    "overlap": {
        "o.js": "foo(bar(1)); bar(2); foo(3)\n",
    },
    # (3) multi-byte characters and CRLF
    "unicode-crlf": {
        "u.js": "let s = 'héllo→'; foo('日本');\r\nbar(\"é\") // ✓\r\nfoo(bar('ü')) == x\r\n",
    },
    # (4) html host rule fix AND js rule fix inside <script>; adjacent host edits (<div>..</div><div>..</div>)
    "html": {
        "p.html": "<div>a</div><div>b</div>\n<script>foo(1); bar(foo(2))</script>\n<div><span>é</span></div>\n",
    },
    # (6) suppression comments: a suppressed match is neither announced nor written (next-line,
    #     same-line, by id, by another rule's id = not suppressed, file-level is not used here)
    "suppressed": {
        "s.js": "// ast-grep-ignore\nfoo(1);\nfoo(2); // ast-grep-ignore: a-foo\nbar(3); // ast-grep-ignore: a-foo\n// ast-grep-ignore: b-bar, c-qux\nfoo(bar(4)); qux(5)\nfoo(6)\n",
    },
    # (9) a fix whose template reproduces the match and whose expansion deletes the comma after it;
    #     and a rewrite that changes nothing at all (`run-noop`)
    "same-text": {
        "t.js": "x = [a, zed,];\ny = [zed];\nfoo(1)\n",
    },
    # (8) chains of pairwise overlapping edits
    "chain": {
        "k.js": "const a = [1,2,3,4];\nconst b = [5,6,7,8,9,10];\nlet c = [11,12]\n",
    },
    # (7) one pattern that matches in the HOST document and in the injected document of the same file
    "html-both": {
        "q.html": "<div>foo</div><script>foo</script>\n<em>foo</em><style>foo { color: red }</style>\n",
    },
    # (10) the tree's root node does not start at byte 0: a UTF-8 byte order mark, leading blank
    #      lines and indentation (every byte outside the announced edits must survive, offsets are
    #      offsets into the file as it is on disk)
    "bom-and-leading-blank": {
        "w.js": "\ufefffoo(1); bar(2)\nlet z = a == b\n",
        "l.js": "\n\n  foo(3)\nbar(4)\n",
    },
    # (11) the accepted edits remove a file's ENTIRE content (the rewritten file is empty)
    "whole-file-deleted": {
        "d.js": "debugger;",
        "e.js": "debugger",
        "keep.js": "debugger;\nlet k = 1\n",
    },
    # (5) nothing matches; neighbours of other languages that contain the text of a match
    "no-match": {
        "n.js": "let y = 1;\n",
        "n.html": "<em>x</em>\n",
        "keep.ts": "foo(1)\n",
        "notes.txt": "foo(1) == bar(2)\n",
    },
}
# thorough only: everything in one tree + a script-only html file
PROJECTS_THOROUGH = {
    "all-in-one": {
        "src/a.js": PROJECTS["two-js"]["src/a.js"],
        "src/o.js": PROJECTS["overlap"]["o.js"],
        "src/u.js": PROJECTS["unicode-crlf"]["u.js"],
        "web/p.html": PROJECTS["html"]["p.html"],
        "web/keep.ts": "foo(1)\n",
        "notes.txt": "foo(1) == bar(2)\n",
    },
    "script-only-html": {
        "s.html": "<em>t</em>\n<script>\nfoo(bar(1)); x == y\n</script>\n<script>qux(2)</script>\n",
    },
}

INLINE = _docs(
    {"id": "i-foo", "language": "js", "rule": {"pattern": "foo($A)"}, "fix": "bar($A)"},
    {"id": "i-em", "language": "html", "rule": {"pattern": "<em>$$$A</em>"}, "fix": "<i>$$$A</i>"},
)

# command = (name, argv without the output flag)
COMMANDS_QUICK = [
    ("scan-r1", ["scan", "-r", "r1.yml"]),
    ("scan-project", ["scan"]),
    # the rewrite matches the pattern again: repeated invocation keeps changing the file
    ("run-grow", ["run", "-p", "foo($A)", "-r", "foo(foo($A))", "-l", "js"]),
    # converges: a second invocation finds less and finally nothing
    ("run-eq", ["run", "-p", "$A == $B", "-r", "$A === $B", "-l", "js"]),
    # language inferred per file: the host document and the injected documents of one .html file
    ("run-infer-both", ["run", "-p", "foo", "-r", "foo2"]),
    # host language of .html through `run`
    ("run-html", ["run", "-p", "<div>$$$A</div>", "-r", "<section>$$$A</section>", "-l", "html"]),
]
COMMANDS_THOROUGH = COMMANDS_QUICK + [
    ("scan-inline", ["scan", "--inline-rules", INLINE]),
    ("scan-filter", ["scan", "--filter", "^(c-qux|d-eq)$"]),
    # language inferred per file: js in .js and <script>, ts in .ts
    ("run-infer", ["run", "-p", "foo($A)", "-r", "qux($A)"]),
    ("run-bar", ["run", "-p", "bar($$$A)", "-r", "bar($$$A, 0)", "-l", "js"]),
]

STATE_CAP = 6000          # safety only; `exhaustive` is false if it is ever hit
MAX_GROUPS = 6            # rule groups per file whose every order is tried for the reported-order reading
MAX_SUBSET_EDITS = 14     # enumerate maximal non-overlapping subsets only below this many edits per file

# ----------------------------------------------------------------------------------------------
# reference model (from the property statement)
# ----------------------------------------------------------------------------------------------

def overlaps(a, b):
    """two byte ranges [s, e) share at least one byte"""
    return a["start"] < b["end"] and b["start"] < a["end"]


def greedy(edits, order):
    """indices accepted when the edits are considered in `order`: drop one that overlaps an earlier accepted one"""
    acc = []
    for i in order:
        if any(overlaps(edits[i], edits[j]) for j in acc):
            continue
        acc.append(i)
    return sorted(acc)


def splice(old, edits, idxs):
    out, pos = [], 0
    for i in sorted(idxs, key=lambda i: edits[i]["start"]):
        e = edits[i]
        out.append(old[pos:e["start"]])
        out.append(e["text"])
        pos = e["end"]
    out.append(old[pos:])
    return b"".join(out)


def maximal_subsets(edits):
    """every maximal pairwise non-overlapping subset (= the result of SOME acceptance order)"""
    n = len(edits)
    res = []
    for mask in range(1 << n):
        s = [i for i in range(n) if mask >> i & 1]
        if any(overlaps(edits[a], edits[b]) for k, a in enumerate(s) for b in s[k + 1:]):
            continue
        if any(all(not overlaps(edits[i], edits[j]) for j in s) for i in range(n) if i not in s):
            continue
        res.append(s)
    return res


def tree_hash(tree):
    h = hashlib.sha256()
    for p in sorted(tree):
        h.update(p.encode() + b"\0" + str(len(tree[p])).encode() + b"\0" + tree[p] + b"\0")
    return h.hexdigest()


# ----------------------------------------------------------------------------------------------
# running the real binary
# ----------------------------------------------------------------------------------------------

APPLIED = re.compile(rb"^Applied (\d+) changes\r?$", re.M)
ANSI = re.compile(rb"\x1b\[[0-9;?]*[A-Za-z]")   # a rule without fix is shown in the alternate screen before the line


def execute(binary, workdir, tree, argv):
    """announce (--json=stream) and update (-U), each on its own fresh copy of `tree`"""
    shutil.rmtree(workdir, ignore_errors=True)
    da, du = os.path.join(workdir, "announce"), os.path.join(workdir, "update")
    os.makedirs(da)
    os.makedirs(du)
    vlib.write_tree(da, tree)
    vlib.write_tree(du, tree)
    ca, oa, ea = vlib.run_cli(binary, argv + ["--json=stream"], cwd=da)
    after_announce = vlib.read_tree(da)
    cu, ou, eu = vlib.run_cli(binary, argv + ["-U"], cwd=du)
    observed = vlib.read_tree(du)
    shutil.rmtree(workdir, ignore_errors=True)
    return {"announce": (ca, oa, ea), "announce_tree": after_announce, "update": (cu, ou, eu), "observed": observed}


def parse_announce(stdout):
    """[{file, start, end, text(bytes), rule, lang}] in reported order; records without a replacement are not edits"""
    edits, plain, bad = [], 0, []
    for line in stdout.split(b"\n"):
        if not line.strip():
            continue
        try:
            r = json.loads(line)
        except ValueError:
            bad.append(line[:200].decode("utf-8", "replace"))
            continue
        if r.get("replacement") is None or r.get("replacementOffsets") is None:
            plain += 1
            continue
        edits.append({"file": os.path.normpath(r["file"]), "start": r["replacementOffsets"]["start"],
                      "end": r["replacementOffsets"]["end"], "text": r["replacement"].encode("utf-8"),
                      "rule": r.get("ruleId"), "lang": r.get("language")})
    return edits, plain, bad


def txt(b):
    return b.decode("utf-8", "replace")


def show_edit(e):
    return {"file": e["file"], "range": [e["start"], e["end"]], "replacement": txt(e["text"]), "rule": e["rule"], "lang": e["lang"]}


def judge(tree, name, argv, raw):
    """-> (list of (sig, details), info).  Asks for nothing beyond the statement:
    per file, observed == old with the announced edits spliced, an edit being dropped only if it overlaps
    an earlier accepted one.  `earlier` is read in document order (start ascending, enclosing edit first;
    for one rule this IS the reported order) and, failing that, in reported order, where the order of the
    per-rule groups of --json (a hash-map order, not stable between runs) is left free.  Any other maximal
    non-overlapping choice among edits of different rules is counted as unjudged, never as a violation.
    Everything is computed from the SET of announced edits per rule, so the verdict does not depend on
    the order in which threads and hash maps happen to emit the records."""
    problems = []
    info = {"accepted": 0, "dropped": 0, "files_edited": 0, "order_sensitive_file": 0, "matched": {}, "unjudged_order": 0,
            "multi_rule_file": 0, "multi_doc_file": 0, "nonascii_before_edit": 0, "crlf_file": 0, "adjacent": 0,
            "plain_records": 0, "max_edits_per_file": 0}
    kind = argv[0]
    ca, oa, ea = raw["announce"]
    cu, ou, eu = raw["update"]
    for which, (c, e) in (("announce", (ca, ea)), ("update", (cu, eu))):
        crash = vlib.is_crash(c, e)
        if crash:
            problems.append((f"crash:{crash}:{kind} {which}", {"stderr": txt(e)[-800:], "exit": c}))
    if problems:
        return problems, info
    if raw["announce_tree"] != tree:
        changed = sorted(p for p in set(tree) | set(raw["announce_tree"]) if tree.get(p) != raw["announce_tree"].get(p))
        problems.append((f"json-run-wrote-files:{kind}", {"changed": changed}))
        return problems, info
    edits, plain, bad = parse_announce(oa)
    info["plain_records"] = plain
    if bad:
        problems.append((f"announce:unparsable-json:{kind}", {"lines": bad[:3]}))
        return problems, info
    observed = raw["observed"]
    by_file = {}
    for e in edits:
        by_file.setdefault(e["file"], []).append(e)
    for f, es in by_file.items():
        if f not in tree:
            problems.append((f"announce:edit-for-unknown-file:{kind}", {"file": f}))
            return problems, info
        if any(not (0 <= e["start"] <= e["end"] <= len(tree[f])) for e in es):
            problems.append((f"announce:offsets-out-of-range:{kind}", {"file": f, "edits": [show_edit(e) for e in es]}))
            return problems, info
    for p in sorted(set(observed) - set(tree)):
        problems.append((f"tree:file-appeared:{kind}", {"file": p}))
    for p in sorted(set(tree) - set(observed)):
        problems.append((f"tree:file-disappeared:{kind}", {"file": p}))

    count_options = {0}      # possible totals of edits present in the files
    statement_total = 0      # accepted edits per the statement (document order reading)
    content_bad = False
    lost_edit_files = 0
    for f in sorted(tree):
        if f not in observed:
            continue
        old, obs = tree[f], observed[f]
        es = by_file.get(f, [])
        if not es:
            if obs != old:
                content_bad = True
                problems.append((f"content:file-without-announced-edit-changed:{kind}",
                                 {"file": f, "old": txt(old), "observed": txt(obs)}))
            continue
        # canonical order of the announcement: records grouped by rule (the order of the groups in the stream is a
        # hash-map order inside ast-grep and carries no meaning), reported order kept inside each group
        gkeys = sorted({(e["lang"] or "", e["rule"] or "") for e in es})
        es = [e for g in gkeys for e in es if (e["lang"] or "", e["rule"] or "") == g]
        groups = [[i for i, e in enumerate(es) if (e["lang"] or "", e["rule"] or "") == g] for g in gkeys]
        n = len(es)
        info["max_edits_per_file"] = max(info["max_edits_per_file"], n)
        acc_d = greedy(es, sorted(range(n), key=lambda i: (es[i]["start"], -es[i]["end"], i)))
        exp_d = splice(old, es, acc_d)
        sensitive = any(overlaps(es[i], es[j]) and es[i]["rule"] != es[j]["rule"] for i in range(n) for j in range(i))
        rules = {e["rule"] for e in es}
        langs = {e["lang"] for e in es}
        info["files_edited"] += 1
        info["order_sensitive_file"] += sensitive
        info["multi_rule_file"] += len(rules) > 1
        info["multi_doc_file"] += len({es[i]["lang"] for i in acc_d}) > 1
        info["crlf_file"] += b"\r\n" in old
        info["nonascii_before_edit"] += any(any(c > 127 for c in old[:es[i]["start"]]) for i in acc_d)
        info["adjacent"] += any(es[i]["end"] == es[j]["start"] for i in acc_d for j in acc_d if i != j)
        info["accepted"] += len(acc_d)
        info["dropped"] += n - len(acc_d)
        statement_total += len(acc_d)
        matched, counts = None, set()
        if obs == exp_d:
            matched, counts = "document-order", {len(acc_d)}
        else:
            if len(groups) <= MAX_GROUPS:
                for perm in itertools.permutations(groups):
                    acc = greedy(es, [i for g in perm for i in g])
                    if splice(old, es, acc) == obs:
                        matched = "reported-order-only"
                        counts.add(len(acc))
            if not matched and sensitive and n <= MAX_SUBSET_EDITS:
                counts = {len(s) for s in maximal_subsets(es) if splice(old, es, s) == obs}
                if counts:
                    matched = "other-acceptance-order(unjudged)"
                    info["unjudged_order"] += 1
        if matched:
            info["matched"][matched] = info["matched"].get(matched, 0) + 1
            count_options = {a + b for a in count_options for b in counts}
            continue
        # ---- the file is not what the announcement says: name the class
        content_bad = True
        detail = {"file": f, "old": txt(old), "announced": [show_edit(e) for e in es],
                  "accepted_by_statement": [show_edit(es[i]) for i in acc_d],
                  "expected": txt(exp_d), "observed": txt(obs)}
        sig = None
        acc_langs = sorted({es[i]["lang"] or "?" for i in acc_d})
        if len(acc_langs) > 1:
            for lang in acc_langs:
                sub = [i for i in range(n) if (es[i]["lang"] or "?") == lang]
                keep = greedy(es, sorted(sub, key=lambda i: (es[i]["start"], -es[i]["end"], i)))
                if splice(old, es, keep) == obs:
                    sig = "html-host-and-injected-fix:lost-edit"
                    detail["only_edits_of_document_written"] = lang
                    detail["edits_present_in_file"] = len(keep)
                    count_options = {a + len(keep) for a in count_options}
                    lost_edit_files += 1
                    break
        if sig is None:
            if obs == old:
                sig = f"content:no-announced-edit-written:{kind}"
            else:
                sig = "content:differs-from-announced-splice:%s:%s:%s:%s" % (
                    kind, "multi-rule" if len(rules) > 1 else "single-rule",
                    "multi-document" if len(langs) > 1 else "single-document",
                    "with-overlap" if len(acc_d) < n else "no-overlap")
        problems.append((sig, detail))

    # ---- the reported number
    found = APPLIED.findall(ANSI.sub(b"", ou))
    info["applied_reported"] = [int(x) for x in found]
    if len(found) > 1:
        problems.append((f"applied-count:several-lines:{kind}", {"stdout": txt(ou)[-400:]}))
    else:
        reported = int(found[0]) if found else 0      # no line is printed when nothing was applied
        info["reported"] = reported
        if not content_bad:
            if reported not in count_options:
                present = min(count_options)
                rel = "more" if reported > present else "less"
                problems.append((f"applied-count:reported-{rel}-than-written:{kind}",
                                 {"reported": reported, "edits_present_in_files": sorted(count_options)}))
        elif lost_edit_files and reported not in count_options:
            # same defect seen from the counter: announced total is reported, fewer edits are in the files
            for sig, d in problems:
                if sig == "html-host-and-injected-fix:lost-edit":
                    d["applied_reported"] = reported
                    d["edits_present_in_all_files"] = sorted(count_options)
            if reported != statement_total:
                problems.append((f"applied-count:neither-announced-nor-written:{kind}",
                                 {"reported": reported, "announced_accepted": statement_total,
                                  "edits_present_in_files": sorted(count_options)}))
    return problems, info


def make_case(tree, init, history, name, argv, raw, details):
    return {"initial_project": init, "history": history, "command": name, "argv": argv,
            "files": {p: txt(b) for p, b in sorted(tree.items())},
            "announce_exit": raw["announce"][0], "update_exit": raw["update"][0],
            "update_stdout": txt(raw["update"][1])[-300:], "details": details}


# ----------------------------------------------------------------------------------------------

def replay(args, binary):
    rec = json.load(open(args["replay"]))
    case = rec["case"]
    tree = {p: s.encode("utf-8") for p, s in case["files"].items()}
    root = vlib.scratch("c18_replay")
    raw = execute(binary, os.path.join(root, "w"), tree, case["argv"])
    problems, info = judge(tree, case["command"], case["argv"], raw)
    print(f"replay {PROP}: command {case['command']} argv={case['argv']}")
    print(f"  announce exit={raw['announce'][0]}  update exit={raw['update'][0]}  update stdout tail={txt(raw['update'][1])[-120:]!r}")
    for p in sorted(tree):
        if raw["observed"].get(p) != tree[p]:
            print(f"  file {p}: old={txt(tree[p])!r}\n           observed={txt(raw['observed'].get(p, b'<missing>'))!r}")
    if not problems:
        print("  observed tree and reported count equal the announced splice: no violation")
        return 0
    hit = 0
    for sig, d in problems:
        same = sig == rec.get("sig")
        hit += same
        print(f"  VIOLATION sig={sig}{'' if same else ' (other class than recorded)'}")
        for k in ("file", "expected", "observed", "applied_reported", "edits_present_in_file", "reported", "edits_present_in_files"):
            if k in d:
                print(f"    {k}: {d[k]!r}")
    return 1


def main(argv):
    args = vlib.parse_args(argv)
    binary = vlib.build_cli()
    if args["replay"]:
        return replay(args, binary)
    rep = vlib.Reporter(PROP, args)
    thorough = args["tier"] == "thorough"
    depth = 4  # both tiers; thorough has more commands and projects (depth 5 exceeds the state cap)
    commands = COMMANDS_THOROUGH if thorough else COMMANDS_QUICK
    projects = dict(PROJECTS)
    if thorough:
        projects.update(PROJECTS_THOROUGH)
    root = vlib.scratch("c18")

    seen = {}            # hash -> (tree, initial project, history)
    frontier = []
    for pname, files in projects.items():
        tree = {p: (s.encode("utf-8") if isinstance(s, str) else s) for p, s in dict(SHARED, **files).items()}
        h = tree_hash(tree)
        if h not in seen:
            seen[h] = (tree, pname, [])
            frontier.append(h)
    n_initial = len(frontier)

    tot = {"transitions": 0, "nontrivial": 0, "noop": 0, "self_loops": 0, "with_dropped_overlap": 0,
           "multi_rule_file": 0, "multi_doc_file": 0, "nonascii_before_edit": 0, "crlf_file": 0, "adjacent_edits": 0,
           "order_sensitive_file": 0, "unjudged_order": 0, "accepted_edits": 0, "dropped_edits": 0, "plain_records": 0,
           "max_edits_per_file": 0, "violating_transitions": 0}
    matched_tot, per_depth, per_cmd, outcomes, samples, sample_keys = {}, [], {}, set(), [], set()
    edges, capped, counter = set(), False, 0

    for d in range(depth):
        jobs = []
        for h in frontier:
            for name, cargv in commands:
                jobs.append((counter, h, name, cargv))
                counter += 1

        def run(job):
            idx, h, name, cargv = job
            return execute(binary, os.path.join(root, f"t{idx}"), seen[h][0], cargv)

        results = vlib.pmap(run, jobs, workers=16)
        nxt = []
        for (idx, h, name, cargv), raw in zip(jobs, results):
            tree, init, hist = seen[h]
            problems, info = judge(tree, name, cargv, raw)
            tot["transitions"] += 1
            pc = per_cmd.setdefault(name, {"transitions": 0, "with_edits": 0, "edits": 0})
            pc["transitions"] += 1
            pc["with_edits"] += info["accepted"] > 0
            pc["edits"] += info["accepted"]
            tot["nontrivial"] += info["accepted"] > 0
            tot["noop"] += info["accepted"] == 0
            tot["with_dropped_overlap"] += info["dropped"] > 0
            tot["accepted_edits"] += info["accepted"]
            tot["dropped_edits"] += info["dropped"]
            tot["adjacent_edits"] += info["adjacent"] > 0
            for k in ("multi_rule_file", "multi_doc_file", "nonascii_before_edit", "crlf_file", "order_sensitive_file", "unjudged_order"):
                tot[k] += info[k] > 0
            tot["plain_records"] += info["plain_records"]
            tot["max_edits_per_file"] = max(tot["max_edits_per_file"], info["max_edits_per_file"])
            for k, v in info["matched"].items():
                matched_tot[k] = matched_tot.get(k, 0) + v
            tot["violating_transitions"] += bool(problems)
            for sig, details in problems:
                rep.violation(sig, make_case(tree, init, hist, name, cargv, raw, details))
            obs = raw["observed"]
            oh = tree_hash(obs)
            edges.add((h, name, oh))
            tot["self_loops"] += oh == h
            outcomes.add((name, info["accepted"], info["dropped"], info["files_edited"], info.get("reported")))
            # a few written-out cases, one per feature class
            for key, cond in (("overlap-dropped", info["dropped"] > 0 and not problems),
                              ("multi-rule-one-file", info["multi_rule_file"] > 0 and not problems),
                              ("crlf-multibyte", info["nonascii_before_edit"] > 0 and info["crlf_file"] > 0),
                              ("two-documents-one-file", info["multi_doc_file"] > 0),
                              ("repeat-depth>=1", d >= 1 and info["accepted"] > 0 and not problems),
                              ("no-op", info["accepted"] == 0 and info["plain_records"] == 0 and d == 0)):
                if cond and key not in sample_keys:
                    sample_keys.add(key)
                    changed = sorted(p for p in tree if obs.get(p) != tree[p])
                    samples.append({"class": key, "initial_project": init, "history": hist, "command": name, "argv": cargv,
                                    "accepted_edits": info["accepted"], "dropped_overlapping": info["dropped"],
                                    "applied_reported": info.get("reported"), "violations": [s for s, _ in problems],
                                    "changed_files": {p: {"old": txt(tree[p]), "new": txt(obs[p])} for p in changed[:2]}})
            if oh not in seen:
                if len(seen) >= STATE_CAP:
                    capped = True
                    continue
                seen[oh] = (obs, init, hist + [name])
                nxt.append(oh)
        per_depth.append({"depth": d + 1, "states_expanded": len(frontier), "transitions": len(jobs), "new_states": len(nxt)})
        frontier = nxt

    coverage = {
        "states": len(seen),
        "states_expanded": sum(x["states_expanded"] for x in per_depth),
        "states_unexpanded_at_depth_bound": len(frontier),
        "transitions": tot["transitions"],
        "traces_validated_against_impl": tot["transitions"],
        "distinct_edges": len(edges),
        "evaluations": 2 * tot["transitions"],
        "distinct_nontrivial": tot["nontrivial"],
        "rule": ("BFS from %d initial projects over every sequence of <= %d commands out of %d (%s); states = whole trees "
                 "(rule files included) deduplicated by sha256, so every (state, command) pair is executed once; each "
                 "transition = the real binary run with --json=stream and with -U on two fresh copies. Non-trivial = the "
                 "announcement contains >= 1 accepted edit (the other transitions assert that nothing is touched)."
                 % (n_initial, depth, len(commands), ", ".join(n for n, _ in commands))),
        "exhaustive": not capped,
        "bounds": {"depth": depth, "commands": [{"name": n, "argv": a} for n, a in commands],
                   "initial_projects": sorted(projects), "state_cap": STATE_CAP},
        "per_depth": per_depth,
        "per_command": per_cmd,
        "counts": tot,
        "file_verdicts_by_order_reading": matched_tot,
        "distinct_outcomes": len(outcomes),
        "distinct_successor_trees": len({e[2] for e in edges}),
        "samples": samples,
    }
    assumptions = [
        "The announcement is the same command with --json=stream instead of -U on an identical fresh copy; it is checked to leave its copy untouched.",
        "An edit = a JSON record with `replacement` and `replacementOffsets` (byte range into the file); records without them (rules without fix) are not edits.",
        "`Earlier` in `overlaps an earlier accepted one` is read in document order (start ascending, enclosing edit first) or in reported order. "
        "With one rule (`run`) the two coincide and exactly that result is required. When several rules fix one file, --json groups the records by rule "
        "and the order of the groups is a hash-map order that changes between runs, so it is left free: a result is accepted if it is the document-order "
        "splice or the reported-order splice under some order of the groups (counts.order_sensitive_file = transitions where this matters); any other "
        "maximal non-overlapping choice among edits of different rules is counted as unjudged, not as a violation.",
        "No `Applied N changes` line on stdout is read as N = 0 (the line is only printed for N > 0).",
        "Zero-length edits, suppression comments, interactive mode without --update-all, stdin mode and I/O failures are outside the alphabet.",
        "Hash seeds of the process are fixed by the LD_PRELOAD shim (seed 0); thread scheduling of the walker is not controlled (C17 covers it).",
    ]
    return rep.finish("model_checking", coverage, assumptions)


if __name__ == "__main__":
    sys.exit(main(sys.argv[1:]))
