"""C13 - results do not depend on map order, hash seeds, repetition or file order.

Bounded-exhaustive exploration. A pool of small ast-grep projects, each built around ONE
order-sensitive mechanism (utils / transform / constraints / rewriters / rule files + utilDirs /
languageGlobs) with 2-4 keys.  For every project the full grid
    ALL permutations of the textual key order of the relevant map(s) and of the rule-file names
  x hash seeds 0..S   (owned: LD_PRELOAD getrandom shim, HashMap order = pure function of the seed)
  x 2 launches        (rep 0: `-j 1`, rep 1: default thread count)
is enumerated.  In every cell the real binary runs
    scan --json=stream            -> canonical multiset of findings
    test --update-all ; test      -> exit codes + snapshot bytes          (projects with rule tests)
    scan --update-all             -> source bytes after applying fixes    (projects with fixes)
Reference model (from the statement): the observable results are a function of the rule documents
and the source texts only, i.e. a CONSTANT over the whole grid of one project.  Equality with the
constant is judged along three kinds of edges, which together connect every cell to the baseline
cell (identity permutation, seed 0, rep 0) and give a precise attribution:
    (p,s,1) ~ (p,s,0)   "rerun"      (p,s,0) ~ (p,0,0)   "hash-seed"      (p,0,0) ~ (id,0,0)   "text-order"
"""
import itertools, json, os, shutil, sys

import vlib

PROP = "C13"
JS = "javascript"


# ----------------------------------------------------------------------------------------------
# helpers to write rule documents with an explicit textual key order
# ----------------------------------------------------------------------------------------------
def omap(pairs, perm):
    """dict whose insertion (= JSON text) order is pairs[perm[0]], pairs[perm[1]], ..."""
    return {pairs[i][0]: pairs[i][1] for i in perm}


def olist(items, perm):
    return [items[i] for i in perm]


def docs(*rules):
    """several YAML documents in one file; every document is JSON"""
    return "\n---\n".join(json.dumps(r) for r in rules) + "\n"


def test_doc(rule_id, valid, invalid):
    return json.dumps({"id": rule_id, "valid": valid, "invalid": invalid}) + "\n"


SGCONFIG = {"ruleDirs": ["rules"], "testConfigs": [{"testDir": "tests"}]}


class Project:
    """name; dims(size) -> [(dimension name, number of permuted items)]; build(size, perm) -> files
    perm is a tuple with one permutation (tuple of indices) per dimension.
    scope: 'all'  = one constant over the whole grid;
           'perm' = one constant per text permutation (text order is not in the statement's list)"""

    def __init__(self, name, what, dims, build, tests, fixes, bound_vars=(), scope="all"):
        self.name, self.what, self.dims, self.build = name, what, dims, build
        self.tests, self.fixes, self.bound_vars, self.scope = tests, fixes, tuple(bound_vars), scope

    def perms(self, size):
        spaces = [list(itertools.permutations(range(n))) for _, n in self.dims(size)]
        return [tuple(p) for p in itertools.product(*spaces)]


# ---------------------------------------------------------------- P1: utils, composite dependencies
def p1_build(size, perm):
    (pu,) = perm
    utils = [
        ("a", {"any": [{"matches": "b"}, {"kind": "number"}]}),
        ("b", {"kind": "identifier"}),
        ("c", {"all": [{"matches": "a"}, {"not": {"matches": "b"}}]}),
    ]
    if size >= 4:
        utils.append(("d", {"any": [{"matches": "c"}, {"kind": "string"}]}))
    u = lambda: omap(utils, pu)
    rules = [
        {"id": "p1-num", "language": JS, "severity": "warning", "utils": u(),
         "rule": {"all": [{"matches": "c"}, {"pattern": "$N"}]},
         "transform": {"T": {"replace": {"source": "$N", "replace": "^", "by": "n"}}},
         "message": "literal $N as $T", "fix": "lit($T)"},
        {"id": "p1-arg", "language": JS, "severity": "info", "utils": u(),
         "rule": {"all": [{"matches": "a"}, {"inside": {"kind": "arguments"}}, {"pattern": "$I"}]},
         "transform": {"T": {"convert": {"source": "$I", "toCase": "upperCase"}}},
         "message": "argument $I / $T"},
    ]
    if size >= 4:
        rules.append({"id": "p1-lit", "language": JS, "severity": "hint", "utils": u(),
                      "rule": {"all": [{"matches": "d"}, {"pattern": "$L"}]},
                      "transform": {"T": {"replace": {"source": "$L", "replace": "$", "by": "!"}}},
                      "message": "number or string $T"})
    return {
        "sgconfig.yml": json.dumps(SGCONFIG),
        "rules/p1.yml": docs(*rules),
        "src/a.js": 'foo(x, 1, "s")\nlet y = 22\n',
        "tests/p1-num-test.yml": test_doc("p1-num", ["foo(x)", "x"], ["foo(1)", "let y = 22", "bar(x, 3)"]),
        "tests/p1-arg-test.yml": test_doc("p1-arg", ["foo()", "let z = 1"], ["foo(q)", "foo(7)", "g(a, 2)"]),
        # a left-over snapshot whose id no test file declares anymore: legal, skipped by --update-all
        "tests/__snapshots__/gone-snapshot.yml": "id: gone\nsnapshots: {}\n",
    }


# ---------------------------------------------------------------- P2: utils, relational dependencies
def p2_build(size, perm):
    (pu,) = perm
    utils = [
        ("a", {"kind": "call_expression", "has": {"matches": "b", "stopBy": "end"}}),
        # b's kind set comes only through ofRule of another utility and is cached in a conjunction
        # with a kind-less key: registered before `c` it would have no kinds at all
        ("b", {"nthChild": {"position": 1, "ofRule": {"matches": "c"}}, "regex": "^[0-9]"}),
        ("c", {"any": [{"kind": "number"}, {"kind": "string"}]}),
    ]
    if size >= 4:
        utils.append(("e", {"kind": "identifier", "inside": {"matches": "a", "stopBy": {"matches": "c"}}}))
    u = lambda: omap(utils, pu)
    rules = [
        {"id": "p2-call", "language": JS, "severity": "warning", "utils": u(),
         "rule": {"all": [{"matches": "a"}, {"pattern": "$CALL"}]},
         "transform": {"U": {"convert": {"source": "$CALL", "toCase": "upperCase"}}},
         "message": "call $U", "fix": "wrapped($CALL)"},
        {"id": "p2-id", "language": JS, "severity": "info", "utils": u(),
         "rule": {"kind": "identifier", "pattern": "$I", "inside": {"matches": "a", "stopBy": "end"}},
         "transform": {"U": {"convert": {"source": "$I", "toCase": "upperCase"}}},
         "message": "identifier $I ($U) in a call with a leading number"},
    ]
    rules.append({"id": "p2-first", "language": JS, "severity": "hint", "utils": u(),
                  "rule": {"matches": "b"}, "message": "first literal argument"})
    if size >= 4:
        rules.append({"id": "p2-near", "language": JS, "severity": "hint", "utils": u(),
                      "rule": {"all": [{"matches": "e"}, {"pattern": "$I"}]},
                      "transform": {"U": {"convert": {"source": "$I", "toCase": "upperCase"}}},
                      "message": "near $U"})
    return {
        "sgconfig.yml": json.dumps(SGCONFIG),
        "rules/p2.yml": docs(*rules),
        "src/a.js": 'foo(1, "s")\nfoo("s", 2)\nbar(baz(3))\nqux(x)\n',
        "tests/p2-call-test.yml": test_doc("p2-call", ["qux(x)", 'foo("s", 2)'], ["foo(1)", 'foo(1, "s")', "bar(baz(3))"]),
    }


# ---------------------------------------------------------------- P3: chained transforms
def p3_build(size, perm):
    (pt,) = perm
    trans = [
        ("B", {"replace": {"source": "$A", "replace": "^old", "by": "new"}}),
        ("C", {"convert": {"source": "$B", "toCase": "upperCase"}}),
        ("D", {"substring": {"source": "$C", "startChar": 0, "endChar": 4}}),
    ]
    fix, msg = "const $B = $V /* $C $D */", "rename $A to $B ($C, $D)"
    if size >= 4:
        trans.append(("E", {"replace": {"source": "$D", "replace": "E", "by": "3"}}))
        fix, msg = "const $B = $V /* $C $D $E */", "rename $A to $B ($C, $D, $E)"
    rule = {"id": "p3-rename", "language": JS, "severity": "warning",
            "rule": {"pattern": "let $A = $V"}, "transform": omap(trans, pt), "message": msg, "fix": fix}
    return {
        "sgconfig.yml": json.dumps(SGCONFIG),
        "rules/p3.yml": docs(rule),
        "src/a.js": "let oldName = 1\nlet other = oldName\n",
        "tests/p3-test.yml": test_doc("p3-rename", ["const a = 1"], ["let oldX = 1", "let keep = oldX", "let oldEel = f(2)"]),
    }


# ---------------------------------------------------------------- P4: constraints
def p4a_build(size, perm):
    (pc,) = perm
    cons = [
        ("A", {"has": {"kind": "number", "pattern": "$X"}}),   # binds $X (used by transform, fix, message)
        ("B", {"kind": "number"}),
        ("C", {"regex": "^z"}),
    ]
    rule = {"id": "p4a", "language": JS, "severity": "warning",
            "rule": {"pattern": "foo($A, $B, $C)"}, "constraints": omap(cons, pc),
            "transform": {"T": {"replace": {"source": "$X", "replace": "^", "by": "#"}}},
            "message": "first number $X of $A ($T) with $B and $C", "fix": "bar($X, $B, $T)"}
    return {
        "sgconfig.yml": json.dumps(SGCONFIG),
        "rules/p4a.yml": docs(rule),
        "src/a.js": "foo([1, 2], 2, zed)\nfoo([3, 4], 3, zip)\nfoo([5], x, zap)\nfoo([6], 7, abc)\nfoo([y], 8, zoo)\n",
        "tests/p4a-test.yml": test_doc("p4a", ["foo([5], x, zap)", "foo([6], 7, abc)"],
                                       ["foo([1, 2], 2, zed)", "foo([9], 9, z)", "foo([3, 4], 3, zip)"]),
    }


def p4b_build(size, perm):
    (pc,) = perm
    cons = [
        ("A", {"pattern": "[$X]"}),     # binds $X ...
        ("B", {"pattern": "$X"}),       # ... which this constraint uses (equality either way round)
    ]
    rule = {"id": "p4b", "language": JS, "severity": "warning",
            "rule": {"pattern": "foo($A, $B)"}, "constraints": omap(cons, pc),
            "transform": {"T": {"replace": {"source": "$X", "replace": "^", "by": "#"}}},
            "message": "duplicate $X ($T)", "fix": "bar($X)"}
    return {
        "sgconfig.yml": json.dumps(SGCONFIG),
        "rules/p4b.yml": docs(rule),
        "src/a.js": "foo([1], 1)\nfoo([2], 3)\nfoo([x], x)\nfoo([4, 4], 4)\n",
        "tests/p4b-test.yml": test_doc("p4b", ["foo([2], 3)"], ["foo([1], 1)", "foo([x], x)", "foo([7], 7)"]),
    }


def p4c_build(size, perm):
    (pc,) = perm
    cons = [
        ("A", {"has": {"kind": "number", "pattern": "$X"}}),   # binds $X to a number inside $A ...
        ("B", {"kind": "number", "pattern": "$X"}),            # ... and $B has to be that number
    ]
    rule = {"id": "p4c", "language": JS, "severity": "warning",
            "rule": {"pattern": "foo($A, $B)"}, "constraints": omap(cons, pc),
            "transform": {"T": {"replace": {"source": "$X", "replace": "^", "by": "#"}}},
            "message": "member $X ($T)", "fix": "bar($X)"}
    return {
        "sgconfig.yml": json.dumps(SGCONFIG),
        "rules/p4c.yml": docs(rule),
        "src/a.js": "foo([1, 2], 2)\nfoo([3, 4], 3)\nfoo([5, 6], 7)\n",
    }


# ---------------------------------------------------------------- P5: rewriters
def p5_build(size, perm):
    pdef, plist = perm
    rewriters = [
        {"id": "rw-num", "rule": {"kind": "number", "pattern": "$N"}, "fix": "num($N)"},
        {"id": "rw-str", "rule": {"kind": "string", "pattern": "$S"},
         "transform": {"IN": {"substring": {"source": "$S", "startChar": 1, "endChar": -1}}}, "fix": "str($IN)"},
    ]
    names = ["rw-num", "rw-str"]
    src = 'foo(1, "a", 2)\nfoo("b")\nbaz(3)\nfoo(x)\n'
    invalid = ['foo(1, "a", 2)', 'foo("b")', "foo(7)"]
    if size >= 3:
        # a rewriter that itself uses the other two (every node is matched by at most one rewriter,
        # so the priority order of the `rewriters:` list of a transform has nothing to decide)
        rewriters.append({"id": "rw-arr", "rule": {"pattern": "[$$$E]"},
                          "transform": {"IN": {"rewrite": {"source": "$$$E", "rewriters": ["rw-num", "rw-str"], "joinBy": ", "}}},
                          "fix": "arr($IN)"})
        names.append("rw-arr")
        src += 'foo([4, "c"], 5)\n'
        invalid.append('foo([4, "c"], 5)')
    rule = {"id": "p5", "language": JS, "severity": "warning",
            "rule": {"pattern": "foo($$$ARGS)"},
            "rewriters": olist(rewriters, pdef),
            "transform": {"NEW": {"rewrite": {"source": "$$$ARGS", "rewriters": olist(names, plist), "joinBy": " + "}},
                          "UP": {"convert": {"source": "$NEW", "toCase": "upperCase"}}},
            "message": "arguments become $UP", "fix": "bar($NEW)"}
    return {
        "sgconfig.yml": json.dumps(SGCONFIG),
        "rules/p5.yml": docs(rule),
        "src/a.js": src,
        "tests/p5-test.yml": test_doc("p5", ["baz(3)"], invalid),
    }


# ---------------------------------------------------------------- P6: rule files, utilDirs
def p6_build(size, perm):
    prule, putil = perm
    f1 = docs({"id": "p6-a", "language": JS, "severity": "warning", "rule": {"pattern": "foo($A)"},
               "transform": {"T": {"convert": {"source": "$A", "toCase": "upperCase"}}},
               "message": "a: $T", "fix": "bar($A)"})
    f2 = docs({"id": "p6-b", "language": JS, "severity": "warning", "rule": {"pattern": "foo($A)"},
               "transform": {"T": {"convert": {"source": "$A", "toCase": "upperCase"}}},
               "message": "b: $T", "fix": "qux($T)"},
              {"id": "p6-c", "language": JS, "severity": "info",
               "rule": {"all": [{"matches": "g-a"}, {"pattern": "$L"}]},
               "transform": {"T": {"replace": {"source": "$L", "replace": "^", "by": "<"}}},
               "message": "literal $T"})
    f3 = docs({"id": "p6-d", "language": JS, "severity": "error",
               "rule": {"kind": "identifier", "regex": "^x$", "pattern": "$I", "inside": {"kind": "arguments"}},
               "transform": {"T": {"convert": {"source": "$I", "toCase": "upperCase"}}},
               "message": "x is $T", "fix": "y"})
    rule_files = [f1, f2, f3]
    rule_names = ["a.yml", "m.yml", "z.yml"]
    u1 = json.dumps({"id": "g-a", "language": JS, "rule": {"any": [{"matches": "g-b"}, {"kind": "number"}]}}) + "\n"
    u2 = json.dumps({"id": "g-b", "language": JS, "rule": {"kind": "string"}}) + "\n"
    util_files = [u1, u2]
    util_names = ["ua.yml", "uz.yml"]
    if size >= 3:
        util_files.append(json.dumps({"id": "g-c", "language": JS,
                                      "rule": {"all": [{"matches": "g-a"}, {"not": {"matches": "g-b"}}]}}) + "\n")
        util_names.append("um.yml")
        rule_files[2] = f3.rstrip("\n") + "\n---\n" + docs(
            {"id": "p6-e", "language": JS, "severity": "hint",
             "rule": {"all": [{"matches": "g-c"}, {"pattern": "$L"}]},
             "transform": {"T": {"replace": {"source": "$L", "replace": "^", "by": "#"}}},
             "message": "number $T", "fix": "($L)"})
    files = {"sgconfig.yml": json.dumps(dict(SGCONFIG, utilDirs=["utils"]))}
    named = {}
    for content, i in zip(rule_files, prule):     # content k is stored under the name rule_names[prule[k]]
        named["rules/" + rule_names[i]] = content
    for content, i in zip(util_files, putil):
        named["utils/" + util_names[i]] = content
    for k in sorted(named):                       # creation order = name order
        files[k] = named[k]
    files["src/one.js"] = 'foo(x)\nfoo(1)\nlet s = "str"\n'
    files["src/two.js"] = "foo(foo(x))\nbar(x, 2)\n"
    files["tests/p6-a-test.yml"] = test_doc("p6-a", ["bar(1)"], ["foo(x)", "foo(1)", "foo(foo(x))"])
    files["tests/p6-c-test.yml"] = test_doc("p6-c", ["x"], ["1", '"s"', "f(2)"])
    files["tests/__snapshots__/gone-snapshot.yml"] = "id: gone\nsnapshots: {}\n"
    files["tests/__snapshots__/gone2-snapshot.yml"] = "id: gone2\nsnapshots: {}\n"
    return files


# ---------------------------------------------------------------- P7: languageGlobs
def p7a_build(size, perm):
    (pg,) = perm
    globs = [("javascript", ["*.jsq"]), ("typescript", ["*.tsq"]), ("python", ["*.pyq"])]
    mk = lambda rid, lang: {"id": rid, "language": lang, "severity": "warning", "rule": {"pattern": "foo($A)"},
                            "transform": {"T": {"convert": {"source": "$A", "toCase": "upperCase"}}},
                            "message": rid + " sees $T", "fix": "bar($A)"}
    return {
        "sgconfig.yml": json.dumps({"ruleDirs": ["rules"], "languageGlobs": omap(globs, pg)}),
        "rules/p7.yml": docs(mk("p7-js", "javascript"), mk("p7-ts", "typescript"), mk("p7-py", "python")),
        "src/a.jsq": "foo(a)\n", "src/b.tsq": "foo(b as any)\n", "src/c.pyq": "foo(c)\n",
        "src/d.js": "foo(d)\n", "src/e.ts": "foo(e)\n",
    }


def p7b_build(size, perm):
    (pg,) = perm
    # one file name is claimed by the globs of two languages
    globs = [("javascript", ["*.jsq", "*.xq"]), ("typescript", ["*.tsq", "*.xq"])]
    mk = lambda rid, lang: {"id": rid, "language": lang, "severity": "warning", "rule": {"pattern": "foo($A)"},
                            "transform": {"T": {"convert": {"source": "$A", "toCase": "upperCase"}}},
                            "message": rid + " sees $T", "fix": "bar($A)"}
    return {
        "sgconfig.yml": json.dumps({"ruleDirs": ["rules"], "languageGlobs": omap(globs, pg)}),
        "rules/p7.yml": docs(mk("p7-js", "javascript"), mk("p7-ts", "typescript")),
        "src/a.xq": "foo(a)\n", "src/b.jsq": "foo(b)\n",
    }

def p8_build(size, perm):
    """rule files of SEVERAL languages, file names permuted (so the load order interleaves the
    languages in some permutations), plus one multi-document rule file whose document order is
    permuted: two TypeScript rules, two Python rules, one JavaScript rule, none with globs"""
    (pfile, pdoc) = perm
    mk = lambda rid, lang, pat: {"id": rid, "language": lang, "severity": "warning", "rule": {"pattern": pat},
                                 "message": rid + " on $A", "fix": "ok($A)"}
    singles = [json.dumps(mk("p8-ts1", "typescript", "foo($A)")) + "\n",
               json.dumps(mk("p8-py1", "python", "foo($A)")) + "\n",
               json.dumps(mk("p8-ts2", "typescript", "bar($A)")) + "\n"]
    names = ["a.yml", "m.yml", "z.yml"]
    multi = [mk("p8-py2", "python", "bar($A)"), mk("p8-js1", "javascript", "foo($A)"), mk("p8-ts3", "typescript", "baz($A)")]
    files = {"sgconfig.yml": json.dumps({"ruleDirs": ["rules"]})}
    named = {}
    for content, i in zip(singles, pfile):
        named["rules/" + names[i]] = content
    named["rules/n-multi.yml"] = docs(*[multi[i] for i in pdoc])
    for k in sorted(named):
        files[k] = named[k]
    files["src/a.ts"] = "foo(1)\nbar(2)\nbaz(3)\n"
    files["src/b.py"] = "foo(1)\nbar(2)\n"
    files["src/c.js"] = "foo(1)\nbar(2)\n"
    return files


def p9_build(size, perm):
    """host documents that embed SEVERAL injected languages (html with <style> and <script>, in both
    orders, and with two regions of one language): the injected documents of one file come out of
    a map; which of them are scanned, and what is reported for them, must not depend on its order.
    Rule file names permuted."""
    (pfile,) = perm
    rules = [
        {"id": "p9-js", "language": "javascript", "severity": "warning", "rule": {"pattern": "foo($A)"}, "message": "js $A", "fix": "bar($A)"},
        {"id": "p9-css", "language": "css", "severity": "error", "rule": {"kind": "plain_value", "regex": "^red$"}, "message": "css value", "fix": "blue"},
        {"id": "p9-html", "language": "html", "severity": "hint", "rule": {"kind": "tag_name", "regex": "^p$"}, "message": "html tag"},
    ]
    names = ["a.yml", "m.yml", "z.yml"]
    files = {"sgconfig.yml": json.dumps({"ruleDirs": ["rules"]})}
    named = {}
    for r, i in zip(rules, pfile):
        named["rules/" + names[i]] = json.dumps(r) + "\n"
    for k in sorted(named):
        files[k] = named[k]
    style, script = "<style>\na { color: red }\n</style>\n", "<script>\nfoo(1)\n</script>\n"
    files["src/a.html"] = "<p>t</p>\n" + style + script
    files["src/b.html"] = script + "<p>t</p>\n" + style
    files["src/c.html"] = style + script + style + script
    files["src/d.html"] = script
    files["src/e.html"] = style
    files["src/f.css"] = "b { color: red }\n"
    files["src/g.js"] = "foo(2)\n"
    return files


def p4d_build(size, perm):
    (pc,) = perm
    # $F (the callee) and $CALL (the call) START AT THE SAME BYTE; their constraints depend on each
    # other through $K (whichever is checked first binds it)
    cons = [
        ("CALL", {"has": {"kind": "arguments", "has": {"kind": "identifier", "pattern": "$K"}}}),
        ("F", {"pattern": "$K"}),
    ]
    rule = {"id": "p4d", "language": JS, "severity": "warning",
            "rule": {"kind": "identifier", "pattern": "$F", "inside": {"kind": "call_expression", "pattern": "$CALL"}},
            "constraints": omap(cons, pc),
            "transform": {"T": {"replace": {"source": "$K", "replace": "^", "by": "#"}}},
            "message": "callee $F is its own argument $K ($T)", "fix": "self_$K"}
    return {
        "sgconfig.yml": json.dumps(SGCONFIG),
        "rules/p4d.yml": docs(rule),
        "src/a.js": "f(x, f)\ng(g, y)\nh(a, b)\nk(k)\nm(n, m, m)\n",
    }


def projects():
    return [
        Project("P1", "utils depending on each other through any/all/not/matches",
                lambda s: [("utils keys", s)], p1_build, tests=True, fixes=True),
        Project("P2", "utils depending on each other through has/inside/stopBy/nthChild.ofRule",
                lambda s: [("utils keys", s)], p2_build, tests=True, fixes=True),
        Project("P3", "chained transforms B<-A, C<-B, D<-C used in fix and message",
                lambda s: [("transform keys", s)], p3_build, tests=True, fixes=True),
        Project("P4a", "constraints on 3 variables, one binds $X used by transform, fix and message",
                lambda s: [("constraints keys", 3)], p4a_build, tests=True, fixes=True, bound_vars=["X"]),
        Project("P4b", "constraint on $A binds $X, constraint on $B uses $X (plain equality)",
                lambda s: [("constraints keys", 2)], p4b_build, tests=True, fixes=True, bound_vars=["X"]),
        Project("P4c", "constraint on $A binds $X to one of several candidates (`has`), constraint on $B uses $X",
                lambda s: [("constraints keys", 2)], p4c_build, tests=False, fixes=True, bound_vars=["X"]),
        Project("P4d", "two constrained captures that start at the same byte (callee and call), constraints linked through $K",
                lambda s: [("constraints keys", 2)], p4d_build, tests=False, fixes=True, bound_vars=["K"]),
        Project("P5", "rewriters used by one rewrite transform (definition list order x use list order)",
                lambda s: [("rewriters definitions", s), ("transform rewriters list", s)], p5_build, tests=True, fixes=True),
        Project("P6", "rule files (names permuted), overlapping fixes, global utilDirs rules depending on each other",
                lambda s: [("rule file names", 3), ("util file names", s)], p6_build, tests=True, fixes=True),
        Project("P8", "rule files of several languages: file names and documents of a multi-document file permuted",
                lambda s: [("rule file names", 3), ("documents of one rule file", 3)], p8_build, tests=False, fixes=True),
        Project("P9", "html files embedding several injected languages (css + js rules, rule file names permuted)",
                lambda s: [("rule file names", 3)], p9_build, tests=False, fixes=True),
        Project("P7a", "languageGlobs with 3 disjoint entries",
                lambda s: [("languageGlobs keys", 3)], p7a_build, tests=False, fixes=True),
        Project("P7b", "languageGlobs where one file is claimed by two entries (judged per text order)",
                lambda s: [("languageGlobs keys", 2)], p7b_build, tests=False, fixes=True, scope="perm"),
    ]


# size parameter of every project per tier (number of keys of the permuted map)
SIZES = {
    "quick":    {"P1": 3, "P2": 3, "P3": 3, "P4a": 3, "P4b": 2, "P4c": 2, "P4d": 2, "P8": 3, "P9": 3, "P5": 2, "P6": 2, "P7a": 3, "P7b": 2},
    "thorough": {"P1": 4, "P2": 4, "P3": 4, "P4a": 3, "P4b": 2, "P4c": 2, "P4d": 2, "P8": 3, "P9": 3, "P5": 3, "P6": 3, "P7a": 3, "P7b": 2},
}
SEEDS = {"quick": 8, "thorough": 48}      # seeds 0..S inclusive
REPS = 2


# ----------------------------------------------------------------------------------------------
# running one cell
# ----------------------------------------------------------------------------------------------
# the fields of a finding that the statement names (rule id, file, byte range, message, fix); the
# remaining fields of the JSON record (metaVariables, labels, ...) are NOT judged, differences there
# are only counted in the evidence
CORE = ("ruleId", "file", "severity", "message", "note", "text", "replacement", "replacementOffsets")


def parse_findings(stdout):
    out = []
    for line in stdout.decode("utf-8", "replace").splitlines():
        if not line.strip():
            continue
        out.append(json.loads(line))
    return out


def fkey(f):
    r = f.get("range", {}).get("byteOffset", {})
    return "%s|%s|%s-%s" % (f.get("ruleId"), f.get("file"), r.get("start"), r.get("end"))


def judged(f):
    d = {k: f.get(k) for k in CORE}
    d["byteRange"] = f.get("range", {}).get("byteOffset")
    return d


def canon(findings):
    """sorted multiset of the judged part of every finding"""
    return sorted(json.dumps(judged(f), sort_keys=True, ensure_ascii=False) for f in findings)


def canon_full(findings):
    """sorted multiset of the complete JSON records (key order removed)"""
    return sorted(json.dumps(f, sort_keys=True, ensure_ascii=False) for f in findings)


def short(f):
    def var(v):
        if not isinstance(v, dict):
            return v
        r = v.get("range", {}).get("byteOffset", {})
        return "%s@%s-%s" % (v.get("text"), r.get("start"), r.get("end"))
    mv = {}
    for k, d in (f.get("metaVariables") or {}).items():
        mv[k] = {n: ([var(x) for x in v] if isinstance(v, list) else var(v)) for n, v in sorted(d.items())}
    return {"key": fkey(f), "message": f.get("message"), "replacement": f.get("replacement"),
            "replacementOffsets": f.get("replacementOffsets"), "metaVariables": mv}


def nontrivial(proj, findings):
    """>= 1 finding whose message or fix contains the (non-empty) value of a transformed variable
    or of a variable bound by a constraint"""
    for f in findings:
        mv = f.get("metaVariables") or {}
        vals = [v for v in (mv.get("transformed") or {}).values()]
        vals += [(mv.get("single") or {}).get(n, {}).get("text") for n in proj.bound_vars]
        for t in vals:
            if t and (t in (f.get("message") or "") or t in (f.get("replacement") or "")):
                return True
    return False


def run_cell(binary, root, proj, size, perm, seed, rep, keep=False):
    """returns a dict of observations; never judges"""
    files = proj.build(size, perm)
    d = os.path.join(root, proj.name, "%s_s%d_r%d" % ("-".join("".join(map(str, p)) for p in perm), seed, rep))
    shutil.rmtree(d, ignore_errors=True)
    os.makedirs(d)
    vlib.write_tree(d, files)
    threads = ["-j", "1"] if rep == 0 else []
    obs = {"crashes": []}

    def run(tag, args):
        code, out, err = vlib.run_cli(binary, args, cwd=d, seed=seed)
        kind = vlib.is_crash(code, err)
        if kind:
            obs["crashes"].append({"cmd": tag, "argv": args, "kind": kind, "stderr": err.decode("utf-8", "replace")[-800:]})
        return code, out, err

    code, out, err = run("scan", ["scan", "--json=stream"] + threads)
    obs["scan_exit"] = code
    obs["scan_raw"] = out
    obs["scan_stderr"] = err.decode("utf-8", "replace")[-600:]
    try:
        fs = parse_findings(out)
        obs["findings"] = fs
    except ValueError:
        fs = None
        obs["findings"] = None
    obs["canon"] = canon(fs) if fs is not None else ["<unparsable stdout>", out.decode("utf-8", "replace")[:400]]
    obs["canon_full"] = canon_full(fs) if fs is not None else None
    obs["nontrivial"] = bool(fs) and nontrivial(proj, fs)
    if proj.tests:
        c1, o1, e1 = run("test-update", ["test", "--update-all"])
        snap1 = {k: v for k, v in vlib.read_tree(d).items() if "__snapshots__" in k}
        c2, o2, e2 = run("test", ["test"])
        snap2 = {k: v for k, v in vlib.read_tree(d).items() if "__snapshots__" in k}
        obs["test_update_exit"], obs["test_exit"] = c1, c2
        obs["test_out"] = (o2 + e2).decode("utf-8", "replace")[-800:]
        obs["snap"] = {k: v.decode("utf-8", "replace") for k, v in sorted(snap1.items())}
        obs["snap_after_test"] = {k: v.decode("utf-8", "replace") for k, v in sorted(snap2.items())}
    if proj.fixes:
        c3, o3, e3 = run("apply", ["scan", "--update-all"] + threads)
        obs["apply_exit"] = c3
        obs["applied"] = {k: v.decode("utf-8", "replace") for k, v in sorted(vlib.read_tree(d).items()) if k.startswith("src/")}
    if not keep:
        shutil.rmtree(d, ignore_errors=True)
    return obs


# ----------------------------------------------------------------------------------------------
# judging: every observable must be equal along an edge
# ----------------------------------------------------------------------------------------------
def diff_findings(a, b):
    """a, b: lists of finding dicts (or None). Returns (what, detail) or None when the judged parts are equal."""
    if a is None or b is None:
        return ("stdout-unparsable", {}) if a != b else None
    if canon(a) == canon(b):
        return None
    ka, kb = sorted(fkey(f) for f in a), sorted(fkey(f) for f in b)
    if ka != kb:
        return ("finding-set", {"only_in_reference": [short(f) for f in a if fkey(f) not in kb],
                                "only_in_observed": [short(f) for f in b if fkey(f) not in ka],
                                "reference_keys": ka, "observed_keys": kb})
    ja = sorted((judged(f) for f in a), key=lambda j: json.dumps(j, sort_keys=True))
    jb = sorted((judged(f) for f in b), key=lambda j: json.dumps(j, sort_keys=True))
    for fa, fb in zip(ja, jb):
        if fa == fb:
            continue
        for field, what in (("message", "message"), ("replacement", "fix"), ("replacementOffsets", "fix")):
            if fa.get(field) != fb.get(field):
                return (what, {"reference": fa, "observed": fb})
        fields = sorted(x for x in set(fa) | set(fb) if fa.get(x) != fb.get(x))
        return ("other-field", {"fields": fields, "reference": fa, "observed": fb})
    return ("finding-set", {"reference_keys": ka, "observed_keys": kb})


def compare(ref, obs):
    """list of (what, detail) for every observable that differs between two cells"""
    out = []
    if ref["scan_exit"] != obs["scan_exit"]:
        out.append(("scan-exit-code", {"reference": ref["scan_exit"], "observed": obs["scan_exit"],
                                       "reference_stderr": ref["scan_stderr"], "observed_stderr": obs["scan_stderr"]}))
    d = diff_findings(ref["findings"], obs["findings"])
    if d:
        out.append(d)
    if "snap" in ref:
        for k in ("test_update_exit", "test_exit"):
            if ref[k] != obs[k]:
                out.append(("test-exit-code", {"which": k, "reference": ref[k], "observed": obs[k], "observed_output": obs["test_out"]}))
        if ref["snap"] != obs["snap"]:
            out.append(("snapshot-bytes", {"reference": ref["snap"], "observed": obs["snap"]}))
    if "applied" in ref:
        if ref["apply_exit"] != obs["apply_exit"]:
            out.append(("apply-exit-code", {"reference": ref["apply_exit"], "observed": obs["apply_exit"]}))
        if ref["applied"] != obs["applied"]:
            out.append(("applied-fix", {"reference": ref["applied"], "observed": obs["applied"]}))
    return out


def absolute(obs):
    """requirements on a single cell: no crash; `test` after `test --update-all` passes and leaves snapshots alone"""
    out = []
    for c in obs["crashes"]:
        out.append(("crash", c))
    if "snap" in obs and not obs["crashes"]:
        if obs["test_exit"] != 0:
            out.append(("test-after-update-fails", {"test_update_exit": obs["test_update_exit"], "test_exit": obs["test_exit"],
                                                    "output": obs["test_out"]}))
        if obs["snap"] != obs["snap_after_test"]:
            out.append(("test-rewrites-snapshots", {"after_update": obs["snap"], "after_test": obs["snap_after_test"]}))
        if not obs["snap"] and obs["test_update_exit"] == 0:
            out.append(("no-snapshot-written", {"test_update_exit": obs["test_update_exit"], "output": obs["test_out"]}))
    return out


def cell_id(perm, seed, rep):
    return {"perm": [list(p) for p in perm], "seed": seed, "rep": rep, "threads": "-j 1" if rep == 0 else "default"}


def edges_for(proj, perms, seeds):
    """(edge kind, reference cell, observed cell); with the absolute checks on every cell this is
    equivalent to 'all cells of the grid are equal' (scope all) / 'equal per permutation' (scope perm)"""
    ident = perms[0]
    out = []
    for p in perms:
        if p != ident and proj.scope == "all":
            out.append(("text-order", (ident, 0, 0), (p, 0, 0)))
        for s in seeds:
            if s != 0:
                out.append(("hash-seed", (p, 0, 0), (p, s, 0)))
            for r in range(1, REPS):
                out.append(("rerun", (p, s, 0), (p, s, r)))
    return out


def make_case(proj, size, kind, refc, obsc, what, detail):
    return {"project": proj.name, "mechanism": proj.what, "size": size, "edge": kind, "what": what,
            "reference_cell": cell_id(*refc), "observed_cell": cell_id(*obsc),
            "commands": ["scan --json=stream", "test --update-all; test", "scan --update-all"],
            "files_observed_cell": proj.build(size, obsc[0]),
            "files_reference_cell": proj.build(size, refc[0]) if refc[0] != obsc[0] else "same as observed cell",
            "expected": "identical to the reference cell", "detail": detail}


# ----------------------------------------------------------------------------------------------
def replay(path, binary, root):
    doc = json.load(open(path))
    case = doc["case"]
    proj = {p.name: p for p in projects()}[case["project"]]
    size = case["size"]

    def cell(c):
        return (tuple(tuple(p) for p in c["perm"]), c["seed"], c["rep"])
    obsc = cell(case["observed_cell"])
    o = run_cell(binary, root, proj, size, *obsc)
    problems = []
    if case.get("edge") == "cell":
        problems = [w for w, _ in absolute(o)]
        print("replay %s %s cell=%s: %s" % (PROP, proj.name, case["observed_cell"], problems or "no problem"))
    else:
        refc = cell(case["reference_cell"])
        r = run_cell(binary, root, proj, size, *refc)
        diffs = compare(r, o) + [(w, d) for w, d in absolute(o)] + [(w, d) for w, d in absolute(r)]
        problems = [w for w, _ in diffs]
        print("replay %s %s edge=%s" % (PROP, proj.name, case.get("edge")))
        print(" reference cell %s: exit=%s findings=%s" % (case["reference_cell"], r["scan_exit"],
              [short(f) for f in r["findings"]] if r["findings"] is not None else None))
        print(" observed  cell %s: exit=%s findings=%s" % (case["observed_cell"], o["scan_exit"],
              [short(f) for f in o["findings"]] if o["findings"] is not None else None))
        for w, d in diffs:
            print(" differs: %s %s" % (w, json.dumps(d, ensure_ascii=False, default=repr)[:1500]))
        print(" expected: identical results in both cells; observed: %s" % (problems or "identical"))
    return 1 if problems else 0


def main(argv):
    args = vlib.parse_args(argv)
    if not os.path.exists(vlib.SHIM):
        vlib.machinery("hash seed shim %s is missing (run ./check setup)" % vlib.SHIM)
    binary = vlib.build_cli()
    if args["replay"]:
        return replay(args["replay"], binary, vlib.scratch("c13_replay"))
    tier = args["tier"]
    rep = vlib.Reporter(PROP, args)
    root = vlib.scratch("c13")
    seeds = list(range(SEEDS[tier] + 1))
    projs = projects()
    only = [a for a in args["extra"] if a.startswith("P")]
    if only:
        projs = [p for p in projs if p.name in only]

    # machinery self-check: the same seed gives byte-identical stdout (the shim owns the hash seeds)
    probe = [p for p in projects() if p.name == "P4a"][0]
    pp = probe.perms(3)[0]
    a = run_cell(binary, root, probe, 3, pp, 5, 0)
    b = run_cell(binary, root, probe, 3, pp, 5, 0)
    if a["scan_raw"] != b["scan_raw"] or not a["scan_raw"]:
        vlib.machinery("two runs with the same VERIF_HASH_SEED differ (or print nothing): the getrandom shim is not effective")

    cells = []
    for p in projs:
        size = SIZES[tier][p.name]
        for perm in p.perms(size):
            for s in seeds:
                for r in range(REPS):
                    cells.append((p, size, perm, s, r))
    results = vlib.pmap(lambda c: run_cell(binary, root, *c), cells, workers=16)
    table = {(c[0].name, c[2], c[3], c[4]): o for c, o in zip(cells, results)}

    evaluations = 2
    nontrivial_cells = 0
    per_project = {}
    samples = []
    for p in projs:
        size = SIZES[tier][p.name]
        perms = p.perms(size)
        base = table[(p.name, perms[0], 0, 0)]
        grid = [table[(p.name, perm, s, r)] for perm in perms for s in seeds for r in range(REPS)]
        # a project that yields nothing in ANY cell proves nothing: harness defect (a baseline that is
        # empty while another cell is not is an order dependence and is reported by the edges below)
        if not any(o["findings"] or o["crashes"] for o in grid):
            vlib.machinery("project %s: no cell has a finding (baseline exit %s, stderr %s)" % (p.name, base["scan_exit"], base["scan_stderr"]))
        if p.tests and not any(o.get("snap") or o["crashes"] or o["test_update_exit"] != 0 for o in grid):
            vlib.machinery("project %s: no cell wrote a snapshot: %s" % (p.name, base.get("test_out")))
        runs = 0
        raw_orders, canon_sets, snaps, applied = set(), set(), set(), set()
        nt = 0
        unjudged_cells, unjudged_example = 0, None
        for perm in perms:
            for s in seeds:
                for r in range(REPS):
                    o = table[(p.name, perm, s, r)]
                    runs += 1 + (2 if p.tests else 0) + (1 if p.fixes else 0)
                    canon_sets.add(json.dumps(o["canon"]))
                    if o["canon"] == base["canon"] and o["canon_full"] != base["canon_full"] and o["findings"] and base["findings"]:
                        unjudged_cells += 1
                        if unjudged_example is None:
                            for fa, fb in zip(sorted(base["findings"], key=fkey), sorted(o["findings"], key=fkey)):
                                if fa != fb:
                                    unjudged_example = {"cell": cell_id(perm, s, r), "baseline_cell": cell_id(perms[0], 0, 0),
                                                        "fields": sorted(x for x in set(fa) | set(fb) if fa.get(x) != fb.get(x)),
                                                        "baseline": short(fa), "observed": short(fb)}
                                    break
                    if r == 0:
                        raw_orders.add(o["scan_raw"])
                        if o["nontrivial"]:
                            nt += 1
                    if "snap" in o:
                        snaps.add(json.dumps(o["snap"], sort_keys=True))
                    if "applied" in o:
                        applied.add(json.dumps(o["applied"], sort_keys=True))
                    for what, detail in absolute(o):
                        if what == "crash":
                            sig = "crash:%s:%s %s" % (detail["kind"], p.name, detail["cmd"])
                        else:
                            sig = "%s:%s" % (p.name, what)
                        rep.violation(sig, make_case(p, size, "cell", (perm, s, r), (perm, s, r), what, detail))
        for kind, refc, obsc in edges_for(p, perms, seeds):
            ro, oo = table[(p.name,) + refc], table[(p.name,) + obsc]
            for what, detail in compare(ro, oo):
                rep.violation("%s:%s:%s" % (p.name, what, kind), make_case(p, size, kind, refc, obsc, what, detail))
        evaluations += runs
        nontrivial_cells += nt
        per_project[p.name] = {
            "mechanism": p.what, "size": size, "dimensions": [{"name": n, "items": k} for n, k in p.dims(size)],
            "permutations": len(perms), "seeds": len(seeds), "launches_per_cell": REPS,
            "cells": len(perms) * len(seeds) * REPS, "cli_runs": runs, "judged_scope": p.scope,
            "baseline_findings": len(base["findings"] or []),
            "distinct_raw_stdout_orderings": len(raw_orders),
            "distinct_canonical_results": len(canon_sets),
            "distinct_snapshot_contents": len(snaps) if p.tests else None,
            "distinct_applied_sources": len(applied) if p.fixes else None,
            "nontrivial_cells": nt,
            "cells_differing_only_in_unjudged_fields": unjudged_cells,
            "unjudged_difference_example": unjudged_example,
        }
        if len(samples) < 8 and base["findings"]:
            samples.append({"project": p.name, "cell": cell_id(perms[-1], seeds[-1], 0),
                            "rule_files": {k: v for k, v in p.build(size, perms[-1]).items() if k.startswith(("rules/", "utils/")) or k == "sgconfig.yml"},
                            "findings": [short(f) for f in (table[(p.name, perms[-1], seeds[-1], 0)]["findings"] or [])][:3]})
    varied = sorted(n for n, v in per_project.items() if v["distinct_raw_stdout_orderings"] > 1)
    coverage = {
        "evaluations": evaluations,
        "distinct_nontrivial": nontrivial_cells,
        "rule": "per project: ALL permutations of the textual key order of the named map(s)/list(s)/file names x hash seeds 0..S x 2 launches "
                "(rep 0 `-j 1`, rep 1 default threads); commands scan --json=stream, test --update-all + test (projects with tests), "
                "scan --update-all (projects with fixes). Non-trivial cell = (project, permutation, seed) whose scan output has >= 1 finding whose "
                "message or replacement contains the non-empty value of a transformed variable or of a constraint-bound variable.",
        "exhaustive": not only,
        "bounds": {"S": SEEDS[tier], "seeds": len(seeds), "launches": REPS, "sizes": SIZES[tier]},
        "cells": len(cells),
        "projects": per_project,
        "orders_observed": ("the seed sweep changed the raw (unsorted) stdout ordering in: " + ", ".join(varied)) if varied
                           else "NO project showed more than one raw stdout ordering: the seed sweep never changed an iteration order",
        "samples": samples,
    }
    assumptions = [
        "HashMap iteration order of the ast-grep process is a pure function of VERIF_HASH_SEED (LD_PRELOAD getrandom shim); checked at start: same seed twice -> identical stdout",
        "rep 0 runs scan with `-j 1` so that a cell replays identically; rep 1 uses the default thread count",
        "the `rewriters: [..]` list of a rewrite transform is a priority list; the rewriters of P5 match disjoint node kinds so that no priority is ever exercised",
        "languageGlobs text order is not among the orders named by the statement: P7b (one file claimed by two entries) is judged per text order only (hash seed, rerun)",
    ]
    return rep.finish("exploration", coverage, assumptions)


if __name__ == "__main__":
    sys.exit(main(sys.argv[1:]))
