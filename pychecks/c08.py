"""C08 -- one rule, one fix: every front end proposes the same edit.

Bounded-exhaustive exploration of the cross product  rule pool X source pool:
  rules   = a fixed pool of rules with a fix (string form, object form with expandStart / expandEnd /
            both / stopBy variants / empty template / template with variables; matchers that are a
            pattern, a `kind`, an `any`, a relational rule)
  sources = every sequence of 1..L "statements" out of a small alphabet (each statement carries its
            own terminator; one of them is `é; ` which stays on the line of the next statement, so
            that byte columns and character columns differ in front of a match)
For every (rule, source) the edit(s) are observed through every front end
  1 cli.json      `ast-grep scan -r rule.yml --json=stream dir`   (replacementOffsets, replacement)
  2 cli.update    `ast-grep scan -r rule.yml -U dir` on a copy     (the bytes of the file afterwards)
  3 cli.test      `ast-grep test -c sgconfig.yml -U`               (`fixed:` of the snapshot)
  4 lib.*         helper binary `frontends`: make_edit per match, Node::replace, Node::replace_all,
                  AstGrep::replace (text afterwards)
  5 lsp.*         the same helper: published diagnostics, quick-fix code actions, the fix-all action
and compared with front end 1.  One CLI run serves a whole directory (one directory per rule), the
helper gets many cases per invocation.

The oracle is agreement (byte range, replacement text) -- nothing else -- plus one anchor that keeps
the agreement from being vacuous: for rules with expandStart/expandEnd the range of front end 1 is
compared with a range computed from a hand-written token tree of the alphabet statements (the
documented meaning: the range grows to the start/end of the first preceding/following SIBLING, as
selected by stopBy, that satisfies the expansion rule).  Everything else a front end may do is left
alone: where the statement is silent the case is counted, not judged.
"""
import itertools, json, os, re, shutil, subprocess, sys

import vlib

PROP = "C08"
DEFAULT_HELPER = os.path.join(vlib.BUILD, "harness", "debug", "frontends")
# `ast-grep run -p P -r F` is NOT one of the front ends named by the property (it has no rule); it is
# observed for the pure pattern rules and its differences are counted as evidence only.
JUDGE_RUN = False

# ----------------------------------------------------------------------------------------------
# the alphabet
# ----------------------------------------------------------------------------------------------
# A statement = (text with its own terminator, token tree).  Token tree: a string is a token, a list
# is [kind, child, ...]; the ranges are found by locating the tokens left to right in the text.
ES, CALL, ARGS = "expression_statement", "call_expression", "arguments"
JS_STMTS_QUICK = [
    ("foo(1);\n", [ES, [CALL, "foo", [ARGS, "(", "1", ")"]], ";"]),
    ("f(a, b);\n", [ES, [CALL, "f", [ARGS, "(", "a", ",", "b", ")"]], ";"]),
    ("f(a, b, c);\n", [ES, [CALL, "f", [ARGS, "(", "a", ",", "b", ",", "c", ")"]], ";"]),
    ("var a = 1;\n", ["variable_declaration", "var", ["variable_declarator", "a", "=", "1"], ";"]),
    ("[a, b, a];\n", [ES, ["array", "[", "a", ",", "b", ",", "a", "]"], ";"]),
    ("é; ", [ES, "é", ";"]),
    ("foo(foo(1));\n", [ES, [CALL, "foo", [ARGS, "(", [CALL, "foo", [ARGS, "(", "1", ")"]], ")"]], ";"]),
]
JS_STMTS_THOROUGH = JS_STMTS_QUICK + [
    ("f(b, a,);\n", [ES, [CALL, "f", [ARGS, "(", "b", ",", "a", ",", ")"]], ";"]),
]
PY_STMTS = [("print(1)\n", None), ("f(a, b)\n", None), ("x = [a, b, a]\n", None), ("é = 1; ", None)]
RS_STMTS = [("fn m() { foo(1); }\n", None), ("const X: [i32; 3] = [a, b, a];\n", None),
            ("static S: i32 = g(a, b);\n", None), ("/* é */ ", None)]


def R(i, lang, rule, fix):
    return {"id": i, "language": lang, "rule": rule, "fix": fix}


COMMA = {"regex": ","}
JS_RULES_QUICK = [
    # ---- string-form fixes
    R("s-call", "js", {"pattern": "foo($A)"}, "bar($A)"),
    R("s-var", "js", {"pattern": "var $A = $B"}, "let $A = $B"),          # the node ends with `;`
    R("s-multi", "js", {"pattern": "f($$$A)"}, "g($$$A)"),
    R("s-kind", "js", {"kind": "number"}, "0"),
    R("s-any", "js", {"any": [{"pattern": "a"}, {"pattern": "b"}]}, "x"),
    R("s-inside", "js", {"pattern": "a", "inside": {"kind": "array"}}, "z"),
    # ---- object-form fixes
    R("o-plain", "js", {"pattern": "a"}, {"template": "A"}),
    R("o-end", "js", {"pattern": "a"}, {"template": "", "expandEnd": COMMA}),
    R("o-start", "js", {"pattern": "a"}, {"template": "", "expandStart": COMMA}),
    R("o-both", "js", {"pattern": "a"}, {"template": "", "expandStart": COMMA, "expandEnd": COMMA}),
    R("o-end-stopend", "js", {"pattern": "b"}, {"template": "", "expandEnd": {"regex": ",", "stopBy": "end"}}),
    R("o-start-stopend", "js", {"pattern": "b"}, {"template": "q", "expandStart": {"regex": "\\(|\\[", "stopBy": "end"}}),
    R("o-var-kind", "js", {"pattern": "$X", "kind": "identifier", "inside": {"kind": "arguments"}},
      {"template": "<$X>", "expandEnd": {"kind": "identifier", "stopBy": "end"}}),
    R("o-kind-semi", "js", {"kind": "call_expression"}, {"template": "c()", "expandEnd": {"regex": "^;$"}}),
    R("o-any-both", "js", {"any": [{"pattern": "a"}, {"pattern": "b"}]},
      {"template": "", "expandStart": COMMA, "expandEnd": COMMA}),
    R("o-end-far", "js", {"pattern": "a"}, {"template": "", "expandEnd": {"regex": "\\)|\\]", "stopBy": "end"}}),
]
JS_RULES_THOROUGH = JS_RULES_QUICK + [
    R("s-nested", "js", {"pattern": "foo($$$A)"}, "foo(0, $$$A)"),
    R("s-has", "js", {"kind": "arguments", "has": {"pattern": "c"}}, "()"),
    R("o-end-stoprule", "js", {"pattern": "a"}, {"template": "", "expandEnd": {"regex": "c", "stopBy": {"regex": "^b$"}}}),
    R("o-start-neighbor", "js", {"pattern": "c"}, {"template": "C", "expandStart": {"regex": ",", "stopBy": "neighbor"}}),
    R("o-both-var", "js", {"pattern": "$F($$$A)"}, {"template": "$F[$$$A]", "expandEnd": {"regex": "^;$"}}),
    R("o-end-nomatch", "js", {"pattern": "a"}, {"template": "k", "expandEnd": {"regex": "^nothing$", "stopBy": "end"}}),
]
PY_RULES = [
    R("p-call", "python", {"pattern": "print($A)"}, "log($A)"),
    R("p-kind", "python", {"kind": "integer"}, "0"),
    R("p-end", "python", {"pattern": "a"}, {"template": "", "expandEnd": COMMA}),
    R("p-start", "python", {"pattern": "a"}, {"template": "", "expandStart": COMMA}),
    R("p-both-b", "python", {"pattern": "b"}, {"template": "B", "expandStart": COMMA, "expandEnd": COMMA}),
]
RS_RULES = [
    R("r-call", "rust", {"pattern": "foo($A)"}, "bar($A)"),
    R("r-kind", "rust", {"kind": "integer_literal"}, "0"),
    R("r-end", "rust", {"pattern": "a"}, {"template": "", "expandEnd": COMMA}),
    R("r-both", "rust", {"pattern": "a"}, {"template": "", "expandStart": COMMA, "expandEnd": COMMA}),
    R("r-start-b", "rust", {"pattern": "b"}, {"template": "B", "expandStart": {"regex": "\\[|\\(", "stopBy": "end"}}),
]
EXT = {"js": "js", "python": "py", "rust": "rs"}
RUN_LANG = {"js": "js", "python": "python", "rust": "rust"}


def sequences(stmts, max_len):
    """every sequence of 1..max_len statements -> (source text, [statement index])"""
    out = []
    for n in range(1, max_len + 1):
        for combo in itertools.product(range(len(stmts)), repeat=n):
            out.append(("".join(stmts[i][0] for i in combo), list(combo)))
    assert len({s for s, _ in out}) == len(out)
    return out


def feat(rule):
    f = rule["fix"]
    es = isinstance(f, dict) and "expandStart" in f
    ee = isinstance(f, dict) and "expandEnd" in f
    return es, ee


# ----------------------------------------------------------------------------------------------
# reference pieces (from the statement; no knowledge of ast-grep's code)
# ----------------------------------------------------------------------------------------------
def splice(src, edits):
    """src: bytes; edits: [(start, end, text str)] non-overlapping"""
    out, pos = [], 0
    for s, e, t in sorted(edits, key=lambda x: (x[0], x[1])):
        out.append(src[pos:s])
        out.append(t.encode("utf-8"))
        pos = e
    out.append(src[pos:])
    return b"".join(out)


def overlap(a, b):
    return a[0] < b[1] and b[0] < a[1]


def any_overlap(edits):
    return any(overlap(a, b) for i, a in enumerate(edits) for b in edits[i + 1:])


def lc_to_byte(text, pos):
    """LSP position (line = newlines before, character = characters since line start) -> byte offset"""
    lines = text.split("\n")
    line, ch = pos["line"], pos["character"]
    if line >= len(lines) or ch > len(lines[line]):
        return None
    return sum(len(l.encode("utf-8")) + 1 for l in lines[:line]) + len(lines[line][:ch].encode("utf-8"))


class TNode:
    __slots__ = ("kind", "start", "end", "children", "parent")

    def __init__(self, kind, start, end, children):
        self.kind, self.start, self.end, self.children, self.parent = kind, start, end, children, None
        for c in children:
            c.parent = self


def token_kind(tok):
    if re.fullmatch(r"[0-9]+", tok):
        return "number"
    if re.fullmatch(r"\w+", tok) and tok != "var":
        return "identifier"
    return tok          # punctuation and keywords: the kind is the text


def build_tree(btext, pos, spec):
    """-> (TNode, position after it).  btext: bytes of the whole source"""
    if isinstance(spec, str):
        tok = spec.encode("utf-8")
        while btext[pos:pos + 1] in (b" ", b"\n"):
            pos += 1
        assert btext.startswith(tok, pos), (btext, pos, spec)
        return TNode(token_kind(spec), pos, pos + len(tok), []), pos + len(tok)
    kids = []
    for c in spec[1:]:
        k, pos = build_tree(btext, pos, c)
        kids.append(k)
    return TNode(spec[0], kids[0].start, kids[-1].end, kids), pos


def model_tree(btext, stmts, combo):
    pos, kids = 0, []
    for i in combo:
        if stmts[i][1] is None:
            return None
        k, pos = build_tree(btext, pos, stmts[i][1])
        kids.append(k)
    return TNode("program", 0, len(btext), kids)


def nodes_with_range(node, rng, acc):
    if (node.start, node.end) == rng and node.kind != "program":
        acc.append(node)
    for c in node.children:
        nodes_with_range(c, rng, acc)
    return acc


def exp_matches(exp, node, btext):
    """does a sibling satisfy the expansion rule?  None = this reference does not model the rule"""
    keys = set(exp) - {"stopBy"}
    if keys == {"regex"}:
        return re.search(exp["regex"], btext[node.start:node.end].decode("utf-8")) is not None
    if keys == {"kind"}:
        return node.kind == exp["kind"]
    return None


def ref_expand(exp, node, btext, forward):
    """the sibling the range grows to, or the string 'none'; None = not modelled"""
    sibs = node.parent.children
    i = sibs.index(node)
    cands = sibs[i + 1:] if forward else sibs[:i][::-1]
    stop = exp.get("stopBy", "neighbor")
    if stop == "neighbor":
        cands = cands[:1]
    elif stop == "end":
        pass
    elif isinstance(stop, dict):
        kept = []
        for c in cands:                 # candidates up to and including the first one that satisfies stopBy
            kept.append(c)
            m = exp_matches(stop, c, btext)
            if m is None:
                return None
            if m:
                break
        cands = kept
    else:
        return None
    for c in cands:
        m = exp_matches(exp, c, btext)
        if m is None:
            return None
        if m:
            return c
    return "none"


def ref_range(rule, tree, btext, match):
    """expected replaced range for a rule WITH expansions, from the token tree; None = not judged"""
    es, ee = feat(rule)
    if tree is None or not (es or ee):
        return None
    found = nodes_with_range(tree, match, [])
    if len(found) != 1:
        return None
    node = found[0]
    start, end = match
    if es:
        r = ref_expand(rule["fix"]["expandStart"], node, btext, False)
        if r is None:
            return None
        if r != "none":
            start = r.start
    if ee:
        r = ref_expand(rule["fix"]["expandEnd"], node, btext, True)
        if r is None:
            return None
        if r != "none":
            end = r.end
    return (start, end)


# ----------------------------------------------------------------------------------------------
# naming a disagreement
# ----------------------------------------------------------------------------------------------
PUNCT = set(b";, \n")


def kind_of(rule, btext, E, O, M):
    """E = (s, e, text) of the side named LAST in the sig, O = the side named FIRST, M = match node range.
    -> (what, kind)"""
    es, ee = feat(rule)
    if (O[0], O[1]) == (E[0], E[1]):
        return "text", "replacement-differs"
    what = "range" if O[2] == E[2] else "range+text"
    names = []
    if O[0] != E[0]:
        names.append("expandStart" if es else "start")
    if O[1] != E[1]:
        if ee:
            names.append("expandEnd")
        elif not es and max(O[1], E[1]) == M[1] and set(btext[min(O[1], E[1]):M[1]]) <= PUNCT:
            names.append("trailing-punctuation")
        else:
            names.append("end")
    if (O[0], O[1]) == tuple(M):
        suffix = "-ignored"
    elif (E[0], E[1]) == tuple(M):
        suffix = "-ignored-by-" + "other"
    else:
        suffix = "-differs"
    return what, "+".join(names) + suffix


def sig_of(first, second, rule, btext, E, O, M):
    what, kind = kind_of(rule, btext, E, O, M)
    if kind.endswith("-ignored-by-other"):
        kind = kind[:-len("other")] + second
    return f"{first}!={second}:{what}:{kind}"


def whole_text_sig(first, rule, btext, observed, recs):
    """observed (bytes) is not the splice of the edits of `recs`: which reading explains it?"""
    node_edits = [(r["m"][0], r["m"][1], r["e"][2]) for r in recs]
    if observed == btext:
        return f"{first}!=cli.json:whole-text:no-edit-applied"
    if not any_overlap(node_edits) and observed == splice(btext, node_edits):
        for r, ne in zip(recs, node_edits):
            if (ne[0], ne[1]) != (r["e"][0], r["e"][1]):
                return sig_of(first, "cli.json", rule, btext, r["e"], ne, r["m"])
    return f"{first}!=cli.json:whole-text:other"


# ----------------------------------------------------------------------------------------------
# running the front ends
# ----------------------------------------------------------------------------------------------
def helper_path():
    h = os.environ.get("VERIF_FRONTENDS")
    if h:
        if not os.path.exists(h):
            vlib.machinery(f"VERIF_FRONTENDS={h} does not exist")
        return h
    if vlib.REPO != "/repo":
        vlib.machinery("VERIF_REPO names a scratch tree: build the `frontends` helper against that tree "
                       "(tools/mutant_env.sh) and name it with VERIF_FRONTENDS")
    r = subprocess.run(["cargo", "build", "--offline", "--quiet", "--bin", "frontends"],
                       cwd=os.path.join(vlib.VERIF, "harness"), env=dict(os.environ, CARGO_NET_OFFLINE="true"),
                       stdout=subprocess.PIPE, stderr=subprocess.STDOUT, text=True)
    if r.returncode != 0 or not os.path.exists(DEFAULT_HELPER):
        sys.stderr.write(r.stdout[-4000:])
        vlib.machinery("building the `frontends` helper failed (run `/verif/check setup`)")
    return DEFAULT_HELPER


def rule_text(rule):
    return json.dumps(rule, ensure_ascii=False)


def run_rule_cli(binary, pdir, rule, sources):
    """all CLI front ends of one rule over all sources -> dict"""
    rid, ext = rule["id"], EXT[rule["language"]]
    names = [f"s{i:05d}.{ext}" for i in range(len(sources))]
    files = {"sgconfig.yml": "ruleDirs: [rules]\ntestConfigs: [{testDir: tests}]\n",
             f"rules/{rid}.yml": rule_text(rule) + "\n",
             f"tests/{rid}-test.yml": json.dumps({"id": rid, "valid": [], "invalid": sources}, ensure_ascii=False) + "\n"}
    for n, s in zip(names, sources):
        files["src/" + n] = s
        files["upd/" + n] = s
    shutil.rmtree(pdir, ignore_errors=True)
    vlib.write_tree(pdir, files)
    res = {"crash": [], "errors": []}
    rf = f"rules/{rid}.yml"

    def parse_stream(out, prefix):
        per = [[] for _ in sources]
        for line in out.split(b"\n"):
            if not line.strip():
                continue
            try:
                r = json.loads(line)
            except ValueError:
                res["errors"].append(f"unparsable json line from {prefix}: {line[:120]!r}")
                continue
            f = os.path.normpath(r["file"])
            idx = int(os.path.basename(f)[1:6])
            m = r["range"]["byteOffset"]
            ro = r.get("replacementOffsets")
            per[idx].append({"m": (m["start"], m["end"]),
                             "e": (ro["start"], ro["end"], r["replacement"]) if ro is not None and r.get("replacement") is not None else None})
        for p in per:
            p.sort(key=lambda x: (x["m"][0], -x["m"][1]))
        return per

    # 1. the announcement
    c, o, e = vlib.run_cli(binary, ["scan", "-r", rf, "--json=stream", "src"], cwd=pdir, timeout=300)
    k = vlib.is_crash(c, e)
    if k:
        res["crash"].append((k, "scan --json", e.decode("utf-8", "replace")[-400:]))
    elif c != 0:
        res["errors"].append(f"scan --json exit {c}: {e.decode('utf-8', 'replace')[-300:]}")
    res["cli"] = parse_stream(o, "scan")
    # 2. the update
    c, o, e = vlib.run_cli(binary, ["scan", "-r", rf, "-U", "upd"], cwd=pdir, timeout=300)
    k = vlib.is_crash(c, e)
    if k:
        res["crash"].append((k, "scan -U", e.decode("utf-8", "replace")[-400:]))
    elif c != 0:
        res["errors"].append(f"scan -U exit {c}: {e.decode('utf-8', 'replace')[-300:]}")
    res["upd"] = [open(os.path.join(pdir, "upd", n), "rb").read() for n in names]
    # 3. the test runner (exit 0 = all invalid cases reported, 3 = some source has no match: both are fine here)
    c, o, e = vlib.run_cli(binary, ["test", "-c", "sgconfig.yml", "-U"], cwd=pdir, timeout=300)
    k = vlib.is_crash(c, e)
    if k:
        res["crash"].append((k, "test -U", e.decode("utf-8", "replace")[-400:]))
    snap_path = os.path.join(pdir, "tests", "__snapshots__", f"{rid}-snapshot.yml")
    snaps = {}
    if os.path.exists(snap_path):
        try:
            import yaml
        except ImportError:
            vlib.machinery("PyYAML is needed to read the `sg test` snapshot files")
        doc = yaml.safe_load(open(snap_path, encoding="utf-8"))
        snaps = (doc or {}).get("snapshots") or {}
    res["snap"] = [snaps.get(s) for s in sources]
    res["snap_extra"] = sorted(set(snaps) - set(sources))
    # (observed only) `run -p P -r F` for a pure pattern rule with a string fix
    res["run"] = None
    if set(rule["rule"]) == {"pattern"} and isinstance(rule["fix"], str):
        c, o, e = vlib.run_cli(binary, ["run", "-p", rule["rule"]["pattern"], "-r", rule["fix"], "-l", RUN_LANG[rule["language"]],
                                        "--json=stream", "src"], cwd=pdir, timeout=300)
        k = vlib.is_crash(c, e)
        if k:
            res["crash"].append((k, "run --json", e.decode("utf-8", "replace")[-400:]))
        res["run"] = parse_stream(o, "run")
    shutil.rmtree(pdir, ignore_errors=True)
    return res


def run_helper(helper, workdir, tag, cases):
    """cases: [(rule, source)] -> [result]"""
    cin, cout = os.path.join(workdir, f"{tag}.in.json"), os.path.join(workdir, f"{tag}.out.json")
    json.dump({"cases": [{"rules": rule_text(r), "file": "a." + EXT[r["language"]], "text": s} for r, s in cases]},
              open(cin, "w"), ensure_ascii=False)
    try:
        p = subprocess.run([helper, cin, cout], env=vlib.run_env(), stdout=subprocess.PIPE, stderr=subprocess.PIPE, timeout=1200)
    except subprocess.TimeoutExpired:
        vlib.machinery("the frontends helper timed out")
    if p.returncode != 0 or not os.path.exists(cout):
        vlib.machinery(f"the frontends helper failed (exit {p.returncode}): {p.stderr.decode('utf-8', 'replace')[-600:]}")
    out = json.load(open(cout))["results"]
    os.remove(cin)
    os.remove(cout)
    if len(out) != len(cases):
        vlib.machinery("the frontends helper returned a different number of results")
    return out


def evaluate(binary, helper, root, rules, sources):
    """-> {rule id: cli result}, {(rule index, source index): helper result}"""
    cases = [(r, s) for r in rules for s in sources]
    n_chunks = max(1, min(48, len(cases) // 40))
    size = (len(cases) + n_chunks - 1) // n_chunks
    chunks = [cases[i:i + size] for i in range(0, len(cases), size)]
    jobs = [("cli", i, r) for i, r in enumerate(rules)] + [("helper", i, c) for i, c in enumerate(chunks)]

    def run(job):
        if job[0] == "cli":
            return run_rule_cli(binary, os.path.join(root, "p_" + job[2]["id"]), job[2], sources)
        return run_helper(helper, root, f"h{job[1]}", job[2])

    results = vlib.pmap(run, jobs, workers=16)
    cli = {r["id"]: results[i] for i, r in enumerate(rules)}
    flat = [x for res in results[len(rules):] for x in res]
    hel = {(ri, si): flat[ri * len(sources) + si] for ri in range(len(rules)) for si in range(len(sources))}
    return cli, hel


# ----------------------------------------------------------------------------------------------
# the judge
# ----------------------------------------------------------------------------------------------
def tup(x):
    return (x["range"][0], x["range"][1], x["text"])


def judge(rule, source, tree, cli_recs, upd, snap, hres, run_recs):
    """-> (list of (sig, details), info)"""
    btext = source.encode("utf-8")
    problems = []
    info = {"matches": len(cli_recs), "expanded": 0, "anchor_judged": 0, "anchor_unjudged": 0, "update_unjudged_overlap": 0,
            "fixall_dropped": 0, "replace_all_nested_dropped": 0, "run_differs": 0, "run_compared": 0, "nonascii_before": 0,
            "frontends_compared": 0}

    def bad(sig, **d):
        problems.append((sig, d))

    def show(r):
        return {"match": list(r["m"]), "edit": [r["e"][0], r["e"][1]], "replacement": r["e"][2]}

    # ---- front end 1 must carry an edit for every match (all rules of the pool have a fix)
    if any(r["e"] is None for r in cli_recs):
        bad("cli.json:match-without-replacement", records=[r["m"] for r in cli_recs])
        return problems, info
    n = len(cli_recs)
    E = [r["e"] for r in cli_recs]
    M = [r["m"] for r in cli_recs]
    info["expanded"] = sum((e[0], e[1]) != m for e, m in zip(E, M))
    info["nonascii_before"] = sum(any(c > 127 for c in btext[:m[0]]) for m in M)
    for r in cli_recs:
        if not (0 <= r["e"][0] <= r["e"][1] <= len(btext)):
            bad("cli.json:offsets-out-of-range", record=show(r))
            return problems, info

    # ---- anchor: expansions against the token tree
    for r in cli_recs:
        ref = ref_range(rule, tree, btext, r["m"])
        if ref is None:
            info["anchor_unjudged"] += any(feat(rule))
            continue
        info["anchor_judged"] += 1
        if ref != (r["e"][0], r["e"][1]):
            bad(sig_of("cli.json", "reference", rule, btext, (ref[0], ref[1], r["e"][2]), r["e"], r["m"]),
                expected_range=list(ref), observed=show(r))

    # ---- 2. --update-all
    info["frontends_compared"] += 1
    if n == 0:
        if upd != btext:
            bad("cli.update!=cli.json:file-changed-without-announced-edit", observed=upd.decode("utf-8", "replace"))
    elif any_overlap(E):
        info["update_unjudged_overlap"] = 1      # which of two overlapping edits is kept is C18's business
    elif upd != splice(btext, E):
        bad(whole_text_sig("cli.update", rule, btext, upd, cli_recs), expected=splice(btext, E).decode("utf-8", "replace"),
            observed=upd.decode("utf-8", "replace"), announced=[show(r) for r in cli_recs])

    # ---- 3. sg test snapshot: `fixed` = the source with the edit of the FIRST match
    info["frontends_compared"] += 1
    if n == 0:
        if snap is not None:
            bad("cli.test!=cli.json:match-count:snapshot-for-source-without-match", snapshot=snap)
    elif snap is None:
        bad("cli.test!=cli.json:match-count:no-snapshot-for-source-with-match", announced=[show(r) for r in cli_recs])
    elif "fixed" not in snap or not isinstance(snap.get("fixed"), str):
        bad("cli.test!=cli.json:snapshot-without-fixed", snapshot=snap)
    else:
        exp = splice(btext, [E[0]])
        got = snap["fixed"].encode("utf-8")
        if got != exp:
            bad(whole_text_sig("cli.test", rule, btext, got, cli_recs[:1]), expected=exp.decode("utf-8", "replace"),
                observed=snap["fixed"], first_announced=show(cli_recs[0]))

    # ---- 4. library
    lib = hres.get("lib") or {}
    if "panic" in lib:
        bad("crash:panic:lib", panic=str(lib["panic"])[:400])
    elif "error" in lib or len(lib.get("rules", [])) != 1:
        bad("lib:rule-not-usable", lib=json.dumps(lib)[:400])
    else:
        L = lib["rules"][0]
        info["frontends_compared"] += 4
        fr = [tuple(f["range"]) for f in L["findings"]]
        if fr != M:
            bad("lib.findings!=cli.json:match-ranges", lib=fr, cli=M)
        else:
            me = [tup(x) for x in L["make_edit"]]
            if len(me) != n:
                bad("lib.make_edit!=cli.json:count", lib=len(me), cli=n)
            for i in range(min(n, len(me))):
                if me[i] != E[i]:
                    bad(sig_of("lib.make_edit", "cli.json", rule, btext, E[i], me[i], M[i]), lib=list(me[i]), cli=show(cli_recs[i]))
                    break
            rf = L["replace_first"]
            ta = L["text_after_astgrep_replace"]
            if n == 0:
                if rf is not None or ta is not None:
                    bad("lib.replace_first!=cli.json:match-count", lib=rf)
            else:
                if rf is None:
                    bad("lib.replace_first!=cli.json:match-count", lib=None, cli=show(cli_recs[0]))
                elif tup(rf) != E[0]:
                    bad(sig_of("lib.replace_first", "cli.json", rule, btext, E[0], tup(rf), M[0]), lib=list(tup(rf)), cli=show(cli_recs[0]))
                exp = splice(btext, [E[0]])
                if ta is None:
                    bad("lib.astgrep_replace!=cli.json:match-count", lib=None)
                elif ta.encode("utf-8") != exp:
                    bad(whole_text_sig("lib.astgrep_replace", rule, btext, ta.encode("utf-8"), cli_recs[:1]),
                        expected=exp.decode("utf-8", "replace"), observed=ta, first_announced=show(cli_recs[0]))
            # replace_all does not descend into a match (documented: nested matches are not supported)
            keep, last_end = [], -1
            for i in range(n):
                if M[i][0] < last_end:
                    continue
                keep.append(i)
                last_end = M[i][1]
            info["replace_all_nested_dropped"] = n - len(keep)
            # ... and its edits are ordered and disjoint (property C06): an edit whose (possibly
            # expanded) range starts before the previous kept edit ends is dropped, the rule the
            # CLI applies when it writes
            keep2, edit_end = [], -1
            for i in keep:
                if E[i][0] < edit_end:
                    continue
                keep2.append(i)
                edit_end = E[i][1]
            keep = keep2
            ra = [tup(x) for x in L["replace_all"]]
            if len(ra) != len(keep):
                bad("lib.replace_all!=cli.json:count", lib=[list(x) for x in ra], cli=[show(cli_recs[i]) for i in keep])
            else:
                for x, i in zip(ra, keep):
                    if x != E[i]:
                        bad(sig_of("lib.replace_all", "cli.json", rule, btext, E[i], x, M[i]), lib=list(x), cli=show(cli_recs[i]))
                        break

    # ---- 5. language server
    lsp = hres.get("lsp") or {}
    if "panic" in lsp:
        bad("crash:panic:lsp", panic=str(lsp["panic"])[:400])
    elif "error" in lsp:
        bad("lsp:rule-not-usable", lsp=json.dumps(lsp)[:400])
    elif not lsp.get("published"):
        bad("lsp:no-diagnostics-published")
    else:
        info["frontends_compared"] += 3
        diags = lsp["diagnostics"]

        def to_bytes(rng):
            a, b = lc_to_byte(source, rng["start"]), lc_to_byte(source, rng["end"])
            return None if a is None or b is None else (a, b)

        dr = [to_bytes(d["range"]) for d in diags]
        if any(d.get("code") != rule["id"] for d in diags):
            bad("lsp.diagnostic:foreign-diagnostic", codes=[d.get("code") for d in diags])
        elif None in dr:
            bad("lsp.diagnostic:position-outside-text", ranges=[d["range"] for d in diags])
        elif sorted(dr, key=lambda x: (x[0], -x[1])) != M:
            bad("lsp.diagnostic!=cli.json:match-ranges", lsp=dr, cli=M)
        else:
            # align diagnostic i with a CLI record through its (match) range
            pool, idx_of = {}, []
            for i, m in enumerate(M):
                pool.setdefault(m, []).append(i)
            for d in dr:
                idx_of.append(pool[d].pop(0))
            for d, i in zip(diags, idx_of):
                fixed = (d.get("data") or {}).get("fixed")
                if fixed != E[i][2]:
                    bad("lsp.diagnostic!=cli.json:text:replacement-differs", lsp=fixed, cli=show(cli_recs[i]))
                    break
            # quick fixes: one action per diagnostic sent, in the order sent
            qr = lsp.get("quickfix_response") or {}
            acts = qr.get("result") or []
            if "error" in qr:
                bad("lsp.quickfix:error-response", response=qr)
            elif len(acts) != n:
                bad("lsp.quickfix!=cli.json:count", lsp=len(acts), cli=n)
            else:
                obs = []
                for a in acts:
                    ch = list(((a.get("edit") or {}).get("changes") or {}).values())
                    eds = [x for v in ch for x in v]
                    if len(eds) != 1:
                        obs.append(None)
                        continue
                    b = to_bytes(eds[0]["range"])
                    obs.append(None if b is None else (b[0], b[1], eds[0]["newText"]))
                if None in obs:
                    bad("lsp.quickfix:not-one-edit-inside-text", actions=acts)
                else:
                    order = sorted(range(n), key=lambda k: idx_of[k])     # report the earliest match first
                    for k in order:
                        i = idx_of[k]
                        if obs[k] != E[i]:
                            bad(sig_of("lsp.quickfix", "cli.json", rule, btext, E[i], obs[k], M[i]), lsp=list(obs[k]), cli=show(cli_recs[i]))
                            break
            # fix all: a subset of the announced edits, pairwise disjoint, that cannot be extended
            fa = lsp.get("fixall_response") or {}
            facts = fa.get("result") or []
            fe = []
            okfa = True
            for a in facts:
                for v in ((a.get("edit") or {}).get("changes") or {}).values():
                    for x in v:
                        b = to_bytes(x["range"])
                        if b is None:
                            okfa = False
                        else:
                            fe.append((b[0], b[1], x["newText"]))
            # the `ast-grep.applyAllFixes` command must hand the client the same edits as the code action
            if "apply_all_fixes_edits" in lsp:
                ae = []
                for req in lsp["apply_all_fixes_edits"]:
                    for v in ((req.get("edit") or {}).get("changes") or {}).values():
                        for x in v:
                            b = to_bytes(x["range"])
                            if b is not None:
                                ae.append((b[0], b[1], x["newText"]))
                info["apply_all_compared"] = 1
                if okfa and "error" not in fa and sorted(ae) != sorted(fe):
                    bad("lsp.applyAllFixes!=lsp.fixall", command=[list(x) for x in ae], code_action=[list(x) for x in fe])
            if "error" in fa:
                bad("lsp.fixall:error-response", response=fa)
            elif not okfa or len(facts) > 1:
                bad("lsp.fixall:malformed", response=fa)
            elif n == 0:
                if fe:
                    bad("lsp.fixall!=cli.json:count", lsp=fe, cli=0)
            else:
                left = list(E)
                foreign = None
                for x in fe:
                    if x in left:
                        left.remove(x)
                    elif foreign is None:
                        foreign = x
                if foreign is not None:
                    hit = [i for i in range(n) if M[i] == (foreign[0], foreign[1])]
                    if hit:
                        bad(sig_of("lsp.fixall", "cli.json", rule, btext, E[hit[0]], foreign, M[hit[0]]), lsp=list(foreign), cli=show(cli_recs[hit[0]]))
                    else:
                        bad("lsp.fixall!=cli.json:edit-not-announced", lsp=list(foreign), cli=[show(r) for r in cli_recs])
                elif any_overlap(fe):
                    bad("lsp.fixall:overlapping-edits-in-one-action", lsp=[list(x) for x in fe], cli=[show(r) for r in cli_recs])
                elif any(not any(overlap(x, y) for y in fe) and (x[1] > x[0]) for x in left):
                    bad("lsp.fixall!=cli.json:non-overlapping-edit-dropped", lsp=[list(x) for x in fe], cli=[show(r) for r in cli_recs])
                elif not fe:
                    bad("lsp.fixall!=cli.json:count", lsp=[], cli=n)
                else:
                    info["fixall_dropped"] = n - len(fe)
                    first = min(range(n), key=lambda i: (E[i][0], E[i][1]))
                    if first == 0 and min(fe, key=lambda x: (x[0], x[1])) != E[0]:
                        bad("lsp.fixall!=cli.json:first-edit-differs", lsp=[list(x) for x in fe], cli=show(cli_recs[0]))

    # ---- observed only: `run -p P -r F`
    if run_recs is not None:
        info["run_compared"] = 1
        same = [(r["m"], r["e"]) for r in run_recs] == [(r["m"], r["e"]) for r in cli_recs]
        if not same:
            info["run_differs"] = 1
            if JUDGE_RUN:
                bad("cli.run!=cli.json:differs", run=[show(r) for r in run_recs if r["e"]], scan=[show(r) for r in cli_recs])
    return problems, info


def make_case(rule, source, combo, problems_detail):
    return {"rule": rule, "language": rule["language"], "source": source, "statements": combo, "details": problems_detail}


# ----------------------------------------------------------------------------------------------
def stmts_for(lang, thorough):
    if lang == "js":
        return JS_STMTS_THOROUGH if thorough else JS_STMTS_QUICK
    return PY_STMTS if lang == "python" else RS_STMTS


def find_combo(stmts, source):
    """the statement sequence of a source (replay)"""
    def go(pos, acc):
        if pos == len(source):
            return acc
        for i, (t, _) in enumerate(stmts):
            if source.startswith(t, pos):
                r = go(pos + len(t), acc + [i])
                if r is not None:
                    return r
        return None
    return go(0, [])


def replay(args, binary, helper):
    rec = json.load(open(args["replay"]))
    case = rec["case"]
    rule, source = case["rule"], case["source"]
    root = vlib.scratch("c08_replay")
    cli, hel = evaluate(binary, helper, root, [rule], [source])
    res = cli[rule["id"]]
    stmts = stmts_for(rule["language"], True)
    combo = find_combo(stmts, source)
    tree = model_tree(source.encode("utf-8"), stmts, combo) if combo else None
    problems, info = judge(rule, source, tree, res["cli"][0], res["upd"][0], res["snap"][0], hel[(0, 0)],
                           res["run"][0] if res["run"] is not None else None)
    for k, ctx, err in res["crash"]:
        problems.append((f"crash:{k}:{ctx}", {"stderr": err}))
    print(f"replay {PROP}: rule {json.dumps(rule, ensure_ascii=False)}")
    print(f"  source {source!r}")
    print(f"  cli.json edits (match, edit, replacement): {[(r['m'], r['e']) for r in res['cli'][0]]}")
    print(f"  cli.update file afterwards: {res['upd'][0].decode('utf-8', 'replace')!r}")
    print(f"  cli.test snapshot fixed: {(res['snap'][0] or {}).get('fixed')!r}")
    lib = (hel[(0, 0)].get("lib") or {}).get("rules") or [{}]
    print(f"  lib: make_edit={lib[0].get('make_edit')} replace_first={lib[0].get('replace_first')} replace_all={lib[0].get('replace_all')}")
    lsp = hel[(0, 0)].get("lsp") or {}
    print(f"  lsp: diagnostics={[(d['range'], d.get('data')) for d in lsp.get('diagnostics', [])]}")
    if not problems:
        print("  every front end proposes the same edit: no violation")
        return 0
    for sig, d in problems:
        same = sig == rec.get("sig")
        print(f"  VIOLATION sig={sig}{'' if same else ' (other class than recorded)'}")
        for k, v in d.items():
            print(f"    {k}: {json.dumps(v, ensure_ascii=False, default=repr)[:400]}")
    return 1


def injected_run(binary, root, rep):
    """`ast-grep run -p P -r R` with the language inferred per file: the edits shown (--json) and
    written (-U) for code inside <script> of an .html file must be the edits of the same code in a
    .js file, shifted by the position of the code (same trimming of tokens the pattern does not
    cover). Differential between two files of one run; the .js side is what C08's main grid ties to
    the library."""
    cases = [("var $A = $B", "let $A = $B"), ("foo($A)", "bar($A)"), ("$A + $B", "$B + $A"), ("if ($C) $S", "while ($C) $S")]
    bodies = ["var a = 1; var b = foo(1, 2,); /* c */\n", "foo(a + 1);\nif (x) foo(2);\n", "var é = 'ü' + b;\n"]
    n = 0
    for pi, (pat, rw) in enumerate(cases):
        for bi, body in enumerate(bodies):
            d = os.path.join(root, "inj_%d_%d" % (pi, bi))
            pre = "<div>t</div>\n<script>"
            files = {"a.js": body, "b.html": pre + body + "</script>\n"}
            vlib.write_tree(d, files)
            code, out, err = vlib.run_cli(binary, ["run", "-p", pat, "-r", rw, "--json=stream", "."], d)
            crash = vlib.is_crash(code, err)
            if crash:
                rep.violation("cli.run:crash:%s" % crash, {"pattern": pat, "rewrite": rw, "files": files})
                continue
            edits = {"a.js": [], "b.html": []}
            for line in out.decode().splitlines():
                if line.strip():
                    r = json.loads(line)
                    ro = r.get("replacementOffsets") or {}
                    edits[os.path.basename(r["file"])].append((ro.get("start"), ro.get("end"), r.get("replacement")))
            shift = len(pre.encode())
            want = sorted((a + shift, b + shift, t) for a, b, t in edits["a.js"])
            got = sorted(e for e in edits["b.html"] if e[0] is not None and e[0] >= shift)
            n += 1
            if want != got:
                rep.violation("cli.run.html-injected!=cli.run.js:edit-range-or-text", {"pattern": pat, "rewrite": rw, "files": files, "js_edits_shifted": want, "html_edits": got})
                continue
            # and -U writes them
            code, out, err = vlib.run_cli(binary, ["run", "-p", pat, "-r", rw, "-U", "."], d)
            after = vlib.read_tree(d)
            js_after = after["a.js"].decode("utf-8", "replace")
            html_after = after["b.html"].decode("utf-8", "replace")
            if html_after != pre + js_after + "</script>\n" and not any(e[0] is not None and e[0] < shift for e in edits["b.html"]):
                rep.violation("cli.run.html-injected!=cli.run.js:written-text", {"pattern": pat, "rewrite": rw, "files": files, "js_after": js_after, "html_after": html_after})
    return n


def main(argv):
    args = vlib.parse_args(argv)
    binary = vlib.build_cli()
    helper = helper_path()
    if args["replay"]:
        return replay(args, binary, helper)
    rep = vlib.Reporter(PROP, args)
    thorough = args["tier"] == "thorough"
    root = vlib.scratch("c08")
    groups = [("js", JS_RULES_THOROUGH if thorough else JS_RULES_QUICK, stmts_for("js", thorough), 4 if thorough else 3)]
    if thorough:
        groups += [("python", PY_RULES, PY_STMTS, 3), ("rust", RS_RULES, RS_STMTS, 3)]

    tot = {"cases": 0, "with_match": 0, "with_several_matches": 0, "matches": 0, "edit_range_differs_from_node": 0,
           "cases_with_range_differing_from_node": 0, "anchor_judged_matches": 0, "anchor_unjudged_matches": 0,
           "update_unjudged_overlapping": 0, "fixall_with_dropped_overlap": 0, "replace_all_with_nested_dropped": 0,
           "nonascii_before_match": 0, "run_compared": 0, "run_differs_from_scan(unjudged)": 0, "violating_cases": 0,
           "frontend_comparisons": 0, "cli_runs": 0, "helper_cases": 0}
    per_rule, samples, sample_keys, run_diff_sample = {}, [], set(), None
    bounds = []
    for lang, rules, stmts, max_len in groups:
        seqs = sequences(stmts, max_len)
        sources = [s for s, _ in seqs]
        bounds.append({"language": lang, "rules": len(rules), "statements": [t for t, _ in stmts], "max_statements": max_len,
                       "sources": len(sources)})
        cli, hel = evaluate(binary, helper, os.path.join(root, lang), rules, sources)
        tot["helper_cases"] += len(rules) * len(sources)
        for ri, rule in enumerate(rules):
            res = cli[rule["id"]]
            tot["cli_runs"] += 3 + (res["run"] is not None)
            pr = per_rule.setdefault(rule["id"], {"cases": 0, "with_match": 0, "range_differs_from_node": 0, "violating": 0})
            for k, ctx, err in res["crash"]:
                rep.violation(f"crash:{k}:{ctx}", {"rule": rule, "sources": len(sources), "stderr": err})
            for msg in res["errors"]:
                rep.violation("frontend-error:" + msg.split(":")[0][:40], {"rule": rule, "message": msg})
            if res["snap_extra"]:
                rep.violation("cli.test:snapshot-for-unknown-source", {"rule": rule, "keys": res["snap_extra"][:5]})
            for si, (source, combo) in enumerate(seqs):
                tree = model_tree(source.encode("utf-8"), stmts, combo)
                run_recs = res["run"][si] if res["run"] is not None else None
                problems, info = judge(rule, source, tree, res["cli"][si], res["upd"][si], res["snap"][si], hel[(ri, si)], run_recs)
                tot["cases"] += 1
                pr["cases"] += 1
                tot["with_match"] += info["matches"] > 0
                pr["with_match"] += info["matches"] > 0
                tot["with_several_matches"] += info["matches"] > 1
                tot["matches"] += info["matches"]
                tot["edit_range_differs_from_node"] += info["expanded"]
                tot["cases_with_range_differing_from_node"] += info["expanded"] > 0
                pr["range_differs_from_node"] += info["expanded"] > 0
                tot["anchor_judged_matches"] += info["anchor_judged"]
                tot["anchor_unjudged_matches"] += info["anchor_unjudged"]
                tot["update_unjudged_overlapping"] += info["update_unjudged_overlap"]
                tot["fixall_with_dropped_overlap"] += info["fixall_dropped"] > 0
                tot["replace_all_with_nested_dropped"] += info["replace_all_nested_dropped"] > 0
                tot["nonascii_before_match"] += info["nonascii_before"] > 0
                tot["run_compared"] += info["run_compared"]
                tot["run_differs_from_scan(unjudged)"] += info["run_differs"]
                tot["frontend_comparisons"] += info["frontends_compared"]
                tot["violating_cases"] += bool(problems)
                pr["violating"] += bool(problems)
                if info["run_differs"] and (run_diff_sample is None or len(source) < len(run_diff_sample["source"])):
                    run_diff_sample = {"rule": rule, "source": source,
                                       "run": [[list(r["m"]), list(r["e"]) if r["e"] else None] for r in run_recs],
                                       "scan": [[list(r["m"]), list(r["e"])] for r in res["cli"][si]]}
                for sig, d in problems:
                    rep.violation(sig, make_case(rule, source, combo, d))
                for key, cond in (("string-fix-agree", not problems and info["matches"] == 1 and isinstance(rule["fix"], str)),
                                  ("several-matches-agree", not problems and info["matches"] > 2),
                                  ("expansion-agree", not problems and info["expanded"] > 0),
                                  ("expansion-disagree", bool(problems) and info["expanded"] > 0),
                                  ("multibyte-before-match", info["nonascii_before"] > 0 and info["expanded"] > 0),
                                  ("no-match", info["matches"] == 0 and not problems)):
                    if cond and (key, lang) not in sample_keys and len(samples) < 8:
                        sample_keys.add((key, lang))
                        samples.append({"class": key, "rule": rule, "source": source,
                                        "cli_json": [{"match": list(r["m"]), "edit": list(r["e"]) if r["e"] else None} for r in res["cli"][si]],
                                        "test_fixed": (res["snap"][si] or {}).get("fixed"),
                                        "after_update": res["upd"][si].decode("utf-8", "replace"),
                                        "violations": [s for s, _ in problems]})
    coverage = {
        "evaluations": tot["cases"],
        "distinct_nontrivial": tot["with_match"],
        "rule": ("the full cross product (rule of the pool) x (every sequence of 1..L alphabet statements) per language; each case is "
                 "observed through cli.json, cli.update, cli.test, lib.make_edit / replace_first / replace_all / AstGrep::replace, "
                 "lsp diagnostics / quick fixes / fix-all and judged for agreement with cli.json; non-trivial = the rule has >= 1 "
                 "match in the source (the other cases assert that no front end proposes anything). "
                 "cases_with_range_differing_from_node counts the cases where the announced range is not the matched node's range "
                 "(the cases that can tell the front ends apart)."),
        "exhaustive": True,
        "bounds": bounds,
        "counts": tot,
        "per_rule": per_rule,
        "run_vs_scan_sample(unjudged)": run_diff_sample,
        "samples": samples,
    }
    assumptions = [
        "Front end 1 (`scan --json=stream`: replacementOffsets, replacement) is the side every other front end is compared with; "
        "the FIRST match is the one with the smallest start (outermost first).",
        "cli.update is judged as `file afterwards == splice(all announced edits)` only when the announced edits are pairwise disjoint "
        "(which of two overlapping edits survives is C18's statement); overlapping cases are counted as update_unjudged_overlapping.",
        "lib.replace_all is compared with the announced edits of the matches that are not nested inside an earlier match "
        "(replace_all documents that it does not descend into a match).",
        "lsp fix-all is judged as: a sub-multiset of the announced edits, pairwise disjoint, not extensible by a dropped announced "
        "edit, and containing the first edit when that edit sorts first; which overlapping edit is dropped is left free.",
        "The range of an LSP diagnostic is compared with the MATCH range (it marks the finding), only `data.fixed` is compared with the "
        "replacement; the edit of the LSP is what the quick-fix / fix-all actions carry.",
        "Anchor: for rules with expandStart/expandEnd on the JavaScript alphabet the announced range is also compared with a range "
        "computed from hand-written token trees of the alphabet statements (first sibling selected by stopBy that satisfies the "
        "expansion rule; regex = search in the sibling's text; kind = token kind). Matches whose node is not unique in the token tree, "
        "rules without expansion and other languages are not anchored (anchor_unjudged_matches). Trimming of trailing punctuation is "
        "not anchored: only agreement is required.",
        "`ast-grep run -p P -r F` is not a front end of the statement (it has no rule); its edits are compared with scan for the pure "
        "pattern rules and differences are only counted (run_differs_from_scan(unjudged)).",
        "LSP positions are converted with line = newlines before, character = characters since line start; all sources are inside the BMP.",
        "Hash seeds are fixed by the LD_PRELOAD shim; the helper binary `frontends` is built from the same tree as the CLI "
        "(VERIF_FRONTENDS names it for a scratch tree).",
    ]
    coverage["injected_run_cases"] = injected_run(binary, root, rep)
    return rep.finish("exploration", coverage, assumptions)


if __name__ == "__main__":
    sys.exit(main(sys.argv[1:]))
