"""C16 - everything the CLI prints about a match agrees with the bytes on disk.

Bounded-exhaustive exploration.  Two finite spaces are enumerated completely:

  A. content sweep: every file content that is a sequence of <= N "line kinds" from a small
     alphabet (ASCII statement, multi-byte inside the match, multi-byte before the match, CRLF
     line, 600-column line, blank, non-matching, match spanning two lines, ...), with and
     without a final line terminator, X every output mode (4 JSON producing commands + 1 more
     rule, 3 JSON styles, every -A/-B in {0,1,2}^2 and -C in {1,2}; the plain report with the
     same context settings).  Many files share one CLI run (the per-file records do not depend
     on the other files), the directory size is only a batching factor.
  B. file-count sweep: every directory that is a sequence of <= L files over {file with one
     match, file with two matches, file without a match} X every JSON command and style and the
     plain report, so that the array / separator logic sees 0,1,2,3 non-empty and some empty
     per-file buffers in every order.

The oracle is computed from the file BYTES only (ref_position / ref_lines below) and asks for
exactly what the statement says; where the statement is silent (whether the `\r` of a CRLF
terminator belongs to the line text; whether the empty string after the final newline is a
"context line") every reading is accepted and the reading that matched is counted as evidence.
"""
import concurrent.futures, itertools, json, multiprocessing, os, re, sys

import vlib

PROP = "C16"
LF, CRLF = "\n", "\r\n"
RULE_TOKEN = "@RULE@"

LONG_PREFIX = "var " + "a" * 584 + " = 0; "            # 594 columns, then the match
LONG_MB_PREFIX = "var " + "é" * 292 + "a" * 292 + " = 0; "   # 594 columns, 886 bytes

# name, text, terminator, number of matches of foo($A), number of matches of foo($$$ARGS)
KINDS_QUICK = [
    ("ascii", "foo(1);", LF, 1, 1),
    ("mb_in_match", "foo('é\U0001F980');", LF, 1, 1),
    ("mb_before_match", "é; foo(2);", LF, 1, 1),
    ("crlf", "foo(3);", CRLF, 1, 1),
    ("long600", LONG_PREFIX + "foo(4);", LF, 1, 1),
    ("blank", "", LF, 0, 0),
    ("nomatch", "bar(5);", LF, 0, 0),
    ("two_line_match", "foo(\n  6);", LF, 1, 1),
    ("multi_args", "foo(1, 'é'); foo();", LF, 0, 2),
    # a match that spans three lines, the middle one completely empty
    ("match_with_blank_line", "foo(\n\n  7);", LF, 1, 1),
    # a lone carriage return inside the line, before the match: it is one character of the
    # LF-delimited line, not a line terminator
    ("lone_cr_before_match", "x = `a\rb`; foo(10);", LF, 1, 1),
]
# thorough: <= 4 line kinds over KINDS_DEEP, united with <= 3 line kinds over KINDS_WIDE
KINDS_DEEP = KINDS_QUICK + [
    ("two_on_line", "foo(7); é; foo(8);", LF, 2, 2),
]
KINDS_WIDE = KINDS_DEEP + [
    ("mb_crlf", "é; foo('\U0001F980');", CRLF, 1, 1),
    ("long600_mb", LONG_MB_PREFIX + "foo(9);", LF, 1, 1),
]

RULES = {
    "scanFix": json.dumps({"id": "c16-fix", "language": "JavaScript", "rule": {"pattern": "foo($A)"},
                           "message": "found a call with $A", "fix": "bar($A)"}),
    # no fix: `scan --json -U` then writes nothing, but its worker runs in the fix-separating mode
    # (one empty per-file buffer of diffs before every buffer of matches)
    "scanNoFixU": json.dumps({"id": "c16-nofix", "language": "JavaScript", "rule": {"pattern": "foo($A)"},
                              "message": "found a call with $A"}),
    # the ROOT node: its text ends with the file's final line break, so the end position is column 0
    # of the line after the last one
    "scanProgram": json.dumps({"id": "c16-program", "language": "JavaScript", "rule": {"kind": "program"}, "message": "root"}),
    "scanExpand": json.dumps({"id": "c16-expand", "language": "JavaScript", "rule": {"pattern": "foo($A)"},
                              "message": "found a call with $A",
                              "fix": {"template": "bar($A)", "expandEnd": {"regex": ";"}}}),
}
STYLES = ("pretty", "stream", "compact")
# which expected-count column a command uses
COUNT_COL = {"runA": 0, "runARGS": 1, "rewrite": 0, "scanFix": 0, "scanExpand": 0, "scanNoFixU": 0, "scanProgram": 2}


# ----------------------------------------------------------------------------------------------
# the reference model (from the statement, from bytes)
# ----------------------------------------------------------------------------------------------
def ref_position(data, off):
    """zero-based (line, character column) of byte offset `off`; None if off is inside a character"""
    line = data.count(b"\n", 0, off)
    ls = data.rfind(b"\n", 0, off) + 1
    try:
        col = len(data[ls:off].decode("utf-8"))
    except UnicodeDecodeError:
        return None
    return line, col


def ref_line_span(data, s, e, before, after):
    """byte span of the whole lines covering [s,e) plus `before`/`after` context lines, without the
    final line terminator.  Returns (ls, le, le_phantom): le_phantom is not None when the requested
    context reaches past the last real line of a file that ends with a newline (statement silent
    on whether the empty string after the final newline is a line)."""
    ls = data.rfind(b"\n", 0, s) + 1
    for _ in range(before):
        if ls == 0:
            break
        ls = data.rfind(b"\n", 0, ls - 1) + 1
    le = data.find(b"\n", e)
    if le < 0:
        le = len(data)
    phantom = None
    for _ in range(after):
        if le >= len(data):
            break
        if le + 1 == len(data):          # data[le] is the final newline of the file
            phantom = len(data)
            break
        nxt = data.find(b"\n", le + 1)
        le = len(data) if nxt < 0 else nxt
    return ls, le, phantom


def ref_lines_variants(data, s, e, before, after):
    """{(lines, leading chars, trailing chars): reading name} - every reading the statement allows"""
    ls, le, phantom = ref_line_span(data, s, e, before, after)
    out = {}
    for end, pname in ((le, ""), (phantom, "+phantom-last-line")):
        if end is None:
            continue
        lead = data[ls:s].decode("utf-8")
        mid = data[s:e].decode("utf-8")
        trail = data[e:end].decode("utf-8")
        readings = [("cr-kept", lead, trail)]
        if trail.endswith("\r"):
            readings.append(("final-cr-dropped", lead, trail[:-1]))
        l2, t2 = lead.replace("\r\n", "\n"), trail.replace("\r\n", "\n")
        if t2.endswith("\r"):
            t2 = t2[:-1]
        readings.append(("all-cr-dropped", l2, t2))
        for rname, l, t in readings:
            out.setdefault((l + mid + t, len(l), len(t)), rname + pname)
    return out


def file_lines(data):
    """1-based lines of a file: list of line texts without the `\n` (a `\r` is kept)"""
    parts = data.split(b"\n")
    if parts and parts[-1] == b"":
        parts.pop()
    return parts


def features(data):
    f = []
    if any(b >= 0x80 for b in data):
        f.append("multibyte")
    if b"\r\n" in data:
        f.append("crlf")
    if any(len(l) >= 600 for l in data.split(b"\n")):
        f.append("long")
    if b"(\n" in data:
        f.append("multiline-match")
    return f


# ----------------------------------------------------------------------------------------------
# judging one output
# ----------------------------------------------------------------------------------------------
def _is_int(x):
    return isinstance(x, int) and not isinstance(x, bool)


def judge_node(data, node, where, problems, fname, stats):
    """text/range of a match or of a meta-variable node against the bytes; returns (s, e) or None"""
    try:
        rng = node["range"]
        s, e = rng["byteOffset"]["start"], rng["byteOffset"]["end"]
        text = node["text"]
        st, en = rng["start"], rng["end"]
        obs = {"start": (st["line"], st["column"]), "end": (en["line"], en["column"])}
    except (KeyError, TypeError):
        problems.append({"sig": f"json:{where}:missing-field", "file": fname, "observed": node})
        return None
    if not (_is_int(s) and _is_int(e) and 0 <= s <= e <= len(data)):
        problems.append({"sig": f"json:{where}.byteOffset:outside-file", "file": fname,
                         "observed": [s, e], "expected": f"0 <= start <= end <= {len(data)}"})
        return None
    try:
        real = data[s:e].decode("utf-8")
    except UnicodeDecodeError:
        problems.append({"sig": f"json:{where}.byteOffset:inside-a-character", "file": fname, "observed": [s, e]})
        return None
    if text != real:
        problems.append({"sig": f"json:{where}.text:differs-from-bytes", "file": fname,
                         "observed": text, "expected": real, "byteOffset": [s, e]})
    for side, off in (("start", s), ("end", e)):
        exp = ref_position(data, off)
        if exp is None:
            problems.append({"sig": f"json:{where}.byteOffset:inside-a-character", "file": fname, "observed": [s, e]})
            continue
        ls = data.rfind(b"\n", 0, off) + 1
        mb = "multibyte-before" if any(b >= 0x80 for b in data[ls:off]) else "ascii-before"
        if mb == "multibyte-before":
            stats["positions_after_multibyte"] += 1
        stats["positions"] += 1
        if obs[side][0] != exp[0]:
            problems.append({"sig": f"json:{where}.{side}.line", "file": fname, "byteOffset": off,
                             "observed": obs[side][0], "expected": exp[0]})
        if obs[side][1] != exp[1]:
            problems.append({"sig": f"json:{where}.{side}.column:{mb}", "file": fname, "byteOffset": off,
                             "observed": obs[side][1], "expected": exp[1]})
    return s, e


def judge_record(data, rec, ctx, problems, fname, stats):
    se = judge_node(data, rec, "range", problems, fname, stats)
    if se is not None:
        s, e = se
        variants = ref_lines_variants(data, s, e, ctx[0], ctx[1])
        cc = rec.get("charCount") or {}
        obs = (rec.get("lines"), cc.get("leading"), cc.get("trailing"))
        cls = "no-context" if ctx == (0, 0) else "with-context"
        reading = variants.get(obs)
        if reading is not None:
            stats["lines_reading:" + reading] += 1
        else:
            same_lines = [k for k in variants if k[0] == obs[0]]
            exp = [{"lines": k[0], "leading": k[1], "trailing": k[2], "reading": v} for k, v in variants.items()]
            if not same_lines:
                problems.append({"sig": f"json:lines:{cls}", "file": fname, "context": list(ctx),
                                 "byteOffset": [s, e], "observed": obs[0], "expected_one_of": exp})
            else:
                which = "leading" if all(k[1] != obs[1] for k in same_lines) else "trailing"
                problems.append({"sig": f"json:charCount.{which}:{cls}", "file": fname, "context": list(ctx),
                                 "byteOffset": [s, e], "observed": {"leading": obs[1], "trailing": obs[2]},
                                 "expected_one_of": exp})
    mv = rec.get("metaVariables")
    if isinstance(mv, dict):
        for name, node in sorted((mv.get("single") or {}).items()):
            stats["metavar_nodes"] += 1
            judge_node(data, node, "metaVariables.single", problems, fname, stats)
        for name, nodes in sorted((mv.get("multi") or {}).items()):
            for node in nodes:
                stats["metavar_nodes"] += 1
                judge_node(data, node, "metaVariables.multi", problems, fname, stats)
    if "replacementOffsets" in rec:
        ro = rec["replacementOffsets"]
        stats["replacement_offsets"] += 1
        try:
            rs, re_ = ro["start"], ro["end"]
        except (KeyError, TypeError):
            rs = re_ = None
        if not (_is_int(rs) and _is_int(re_) and 0 <= rs <= re_ <= len(data)):
            problems.append({"sig": "json:replacementOffsets:not-a-range-of-the-file", "file": fname,
                             "observed": ro, "expected": f"0 <= start <= end <= {len(data)}"})
        else:
            try:
                data[:rs].decode("utf-8"), data[rs:re_].decode("utf-8")
            except UnicodeDecodeError:
                problems.append({"sig": "json:replacementOffsets:inside-a-character", "file": fname, "observed": ro})
            if se is not None and (rs, re_) != se:
                stats["replacement_offsets_wider_than_match"] += 1


def new_stats():
    import collections
    return collections.Counter()


def judge_json(files, expect, mode, out, stats):
    """files: {name: bytes}; expect: {name: number of records}"""
    problems = []
    style = mode["style"]
    try:
        text = out.decode("utf-8")
    except UnicodeDecodeError:
        return [{"sig": f"json:malformed-output:{style}:not-utf8", "file": None, "observed": repr(out[:200])}]
    recs = None
    try:
        if style == "stream":
            recs = [json.loads(l) for l in text.split("\n") if l.strip()]
            if not all(isinstance(r, dict) for r in recs):
                raise ValueError("a line is not a JSON object")
        else:
            recs = json.loads(text)
            if not isinstance(recs, list) or not all(isinstance(r, dict) for r in recs):
                raise ValueError("output is not a JSON array of objects")
    except ValueError as ex:
        nonempty = sum(1 for v in expect.values() if v)
        return [{"sig": f"json:malformed-output:{style}", "file": None, "error": str(ex)[:200],
                 "files_with_matches": nonempty, "observed": text[:400] + (" ... " + text[-200:] if len(text) > 600 else "")}]
    stats["outputs_parsed"] += 1
    per_file = {}
    for rec in recs:
        fname = rec.get("file")
        if fname not in files:
            problems.append({"sig": "json:file:not-a-scanned-file", "file": None, "observed": fname})
            continue
        per_file[fname] = per_file.get(fname, 0) + 1
        stats["records"] += 1
        judge_record(files[fname], rec, tuple(mode["ctx"]), problems, fname, stats)
    for fname in files:
        if per_file.get(fname, 0) != expect.get(fname, 0):
            problems.append({"sig": f"json:record-count:{mode['cmd']}", "file": fname,
                             "observed": per_file.get(fname, 0), "expected": expect.get(fname, 0)})
    return problems


ENTRY = re.compile(r"^([^:\n]+):(\d+):(.*)$", re.S)


def judge_plain(files, expect, mode, out, stats):
    problems = []
    try:
        text = out.decode("utf-8")
    except UnicodeDecodeError:
        return [{"sig": "plain:output-not-utf8", "file": None, "observed": repr(out[:200])}]
    rows = text.split("\n")
    if rows and rows[-1] == "":
        rows.pop()
    cls = "no-context" if tuple(mode["ctx"]) == (0, 0) else "with-context"
    lines_cache = {}
    seen = {}
    for row in rows:
        if row == "--":
            stats["plain_separators"] += 1
            continue
        m = ENTRY.match(row)
        if not m:
            stats["plain_rows_not_an_entry"] += 1      # not a path:line:text entry: statement silent
            continue
        fname, num, shown = m.group(1), int(m.group(2)), m.group(3)
        if fname not in files:
            problems.append({"sig": "plain:entry-names-unknown-file", "file": None, "observed": row[:200]})
            continue
        if fname not in lines_cache:
            lines_cache[fname] = file_lines(files[fname])
        fl = lines_cache[fname]
        stats["plain_entries"] += 1
        if not 1 <= num <= len(fl):
            problems.append({"sig": f"plain:line-number-not-in-file:{cls}", "file": fname, "observed": row[:200],
                             "expected": f"1 <= line <= {len(fl)}"})
            continue
        real = fl[num - 1].decode("utf-8")
        # the `\r` of a CRLF terminator: statement silent, both readings accepted
        if shown == real:
            if real.endswith("\r"):
                stats["plain_reading:cr-kept"] += 1
        elif real.endswith("\r") and shown == real[:-1]:
            stats["plain_reading:cr-dropped"] += 1
        else:
            problems.append({"sig": f"plain:line-text:{cls}", "file": fname, "line": num,
                             "observed": shown, "expected": real})
        seen.setdefault(fname, set()).add(num)
    # evidence only (not judged): files with expected matches that have no entry at all
    for fname, n in expect.items():
        if n and fname not in seen:
            stats["plain_files_with_match_but_no_entry"] += 1
    return problems


def judge(files, expect, mode, code, out, err, stats):
    kind = vlib.is_crash(code, err)
    if kind:
        return [{"sig": f"crash:{kind}:{mode['out']}:{mode['cmd']}", "file": None,
                 "observed": {"exit": code, "stderr": err.decode("utf-8", "replace")[-400:]}}]
    if code not in (0, 1):
        return [{"sig": "MACHINERY", "file": None,
                 "observed": {"exit": code, "stderr": err.decode("utf-8", "replace")[-400:]}}]
    if mode["out"] == "json":
        return judge_json(files, expect, mode, out, stats)
    return judge_plain(files, expect, mode, out, stats)


# ----------------------------------------------------------------------------------------------
# enumeration
# ----------------------------------------------------------------------------------------------
def context_settings():
    out = []
    for b in (0, 1, 2):
        for a in (0, 1, 2):
            flags = ([] if b == 0 else ["-B", str(b)]) + ([] if a == 0 else ["-A", str(a)])
            out.append(((b, a), flags))
    for c in (1, 2):
        out.append(((c, c), ["-C", str(c)]))
    return out


def all_modes(contexts):
    ms = []
    for cmd in ("runA", "runARGS", "rewrite"):
        for style in STYLES:
            for ctx, flags in contexts:
                ms.append({"out": "json", "cmd": cmd, "style": style, "ctx": list(ctx), "flags": flags})
    for cmd in ("scanFix", "scanExpand", "scanNoFixU", "scanProgram"):
        for style in STYLES:
            ms.append({"out": "json", "cmd": cmd, "style": style, "ctx": [0, 0], "flags": []})
    for cmd in ("runA", "runARGS"):
        for ctx, flags in contexts:
            ms.append({"out": "plain", "cmd": cmd, "style": None, "ctx": list(ctx), "flags": flags})
    return ms


def argv_of(mode):
    cmd = mode["cmd"]
    if cmd.startswith("scan"):
        a = ["scan", "-r", RULE_TOKEN] + (["-U"] if cmd == "scanNoFixU" else [])
    else:
        a = ["run", "-p", "foo($$$ARGS)" if cmd == "runARGS" else "foo($A)", "-l", "js"]
        if cmd == "rewrite":
            a += ["-r", "bar($A)"]
    a += mode["flags"]
    if mode["out"] == "json":
        a.append("--json=" + mode["style"])
    else:
        a += ["--color", "never", "--heading", "never"]
    return a


def enumerate_contents(kinds, maxlen, seen=None):
    """every sequence of <= maxlen line kinds X {final terminator, none}; deduplicated by content.
    returns list of (content str, (nA, nARGS), description)"""
    seen = set() if seen is None else seen
    out = []
    for n in range(1, maxlen + 1):
        for seq in itertools.product(range(len(kinds)), repeat=n):
            for trailing in (True, False):
                parts, na, nargs = [], 0, 0
                for j, k in enumerate(seq):
                    _, text, term, ca, cargs = kinds[k]
                    parts.append(text)
                    if j < n - 1 or trailing:
                        parts.append(term)
                    na += ca
                    nargs += cargs
                content = "".join(parts)
                if content in seen:
                    continue
                seen.add(content)
                desc = "+".join(kinds[k][0] for k in seq) + ("" if trailing else " (no final newline)")
                out.append((content, (na, nargs, 1 if content else 0), desc))  # third count: the root node (kind: program)
    return out


COUNT_FILES = {
    "M1": ("é; foo(2);\n", (1, 1, 1)),
    "M2": ("foo(1);\r\nfoo('é\U0001F980');", (2, 2, 1)),
    "N": ("bar(5);\n", (0, 0, 1)),
}


def enumerate_count_dirs(maxfiles):
    out = []
    for n in range(0, maxfiles + 1):
        for seq in itertools.product(("M1", "M2", "N"), repeat=n):
            out.append([(f"f{i}.js", COUNT_FILES[k][0], COUNT_FILES[k][1], k) for i, k in enumerate(seq)])
    return out


# ----------------------------------------------------------------------------------------------
# execution (worker processes; globals are inherited by fork)
# ----------------------------------------------------------------------------------------------
G = {}


def run_mode(srcdir, rulesdir, mode):
    argv = [os.path.join(rulesdir, mode["cmd"] + ".yml") if a == RULE_TOKEN else a for a in argv_of(mode)]
    return vlib.run_cli(G["binary"], argv, cwd=srcdir, timeout=120)


def make_case(files_str, expect, mode, problem):
    return {"files": files_str, "expect_records": expect, "argv": argv_of(mode), "mode": mode,
            "rule": RULES.get(mode["cmd"]), "file": problem.get("file"),
            "problem": {k: v for k, v in problem.items() if k not in ("sig", "file")}}


def isolate(group, mode, problem, tag):
    """re-run the same command on the offending file alone (or on a small prefix of the matching
    files for a malformed output); the smallest reproducing directory becomes the replay case"""
    sig = problem["sig"]
    col = COUNT_COL[mode["cmd"]]
    candidates = []
    if problem.get("file") is not None:
        candidates.append([f for f in group if f[0] == problem["file"]])
    else:
        matching = [f for f in group if f[2][col]]
        for n in (1, 2, 3, 4):
            if n < len(group) and len(matching) >= n:
                candidates.append(matching[:n])
    for i, sub in enumerate(candidates):
        d = os.path.join(G["root"], "iso", f"{tag}_{i}")
        vlib.write_tree(d, {"src/" + f[0]: f[1] for f in sub})
        os.makedirs(os.path.join(d, "src"), exist_ok=True)
        code, out, err = run_mode(os.path.join(d, "src"), G["rules"], mode)
        files = {f[0]: f[1].encode() for f in sub}
        expect = {f[0]: f[2][col] for f in sub}
        probs = judge(files, expect, mode, code, out, err, new_stats())
        for p in probs:
            if p["sig"] == sig:
                return make_case({f[0]: f[1] for f in sub}, expect, mode, p), sig
    if len(group) <= 6:
        return make_case({f[0]: f[1] for f in group}, {f[0]: f[2][col] for f in group}, mode, problem), sig
    return make_case({f[0]: f[1] for f in group}, {f[0]: f[2][col] for f in group}, mode, problem), sig + ":only-in-large-directory"


def work(item):
    part, gi, mi = item
    group = G[part][gi]["files"]                # list of (name, content str, (nA, nARGS), desc)
    srcdir = G[part][gi]["dir"]
    mode = G["modes_" + part][mi]
    col = COUNT_COL[mode["cmd"]]
    files = {f[0]: f[1].encode() for f in group}
    expect = {f[0]: f[2][col] for f in group}
    stats = new_stats()
    code, out, err = run_mode(srcdir, G["rules"], mode)
    problems = judge(files, expect, mode, code, out, err, stats)
    stats["runs"] += 1
    nonempty = sum(1 for v in expect.values() if v)
    stats[f"runs_with_{min(nonempty, 4)}{'+' if nonempty >= 4 else ''}_matching_files:{mode['style'] or 'plain'}"] += 1
    # non-trivial (file, mode) pairs
    for f in group:
        if f[2][col] and features(files[f[0]]):
            stats["nontrivial_pairs"] += 1
    # group problems by sig, keep the one on the smallest file, isolate it
    by_sig = {}
    size = {f[0]: (len(f[1]), f[1]) for f in group}
    for p in problems:
        key = size.get(p.get("file"), (0, ""))
        cur = by_sig.get(p["sig"])
        if cur is None:
            by_sig[p["sig"]] = [1, p, key]
        else:
            cur[0] += 1
            if key < cur[2]:
                cur[1], cur[2] = p, key
    viols = []
    for n, (sig, (cnt, p, _)) in enumerate(sorted(by_sig.items())):
        if sig == "MACHINERY":
            viols.append(("MACHINERY", {"argv": argv_of(mode), "observed": p["observed"]}, cnt))
            continue
        case, sig2 = isolate(group, mode, p, f"{part}_{gi}_{mi}_{n}")
        viols.append((sig2, case, cnt))
    return viols, stats


def pmap_procs(items, workers=16):
    ctx = multiprocessing.get_context("fork")
    with concurrent.futures.ProcessPoolExecutor(max_workers=workers, mp_context=ctx) as ex:
        return list(ex.map(work, items, chunksize=4))


# ----------------------------------------------------------------------------------------------
def replay(args, rep, binary):
    data = json.load(open(args["replay"]))
    case = data["case"]
    root = vlib.scratch("c16_replay")
    vlib.write_tree(root, {"src/" + k: v for k, v in case["files"].items()})
    os.makedirs(os.path.join(root, "src"), exist_ok=True)
    vlib.write_tree(root, {"rules/" + k + ".yml": v for k, v in RULES.items()})
    if case.get("rule"):
        vlib.write_tree(root, {"rules/" + case["mode"]["cmd"] + ".yml": case["rule"]})
    G.update(binary=binary, root=root, rules=os.path.join(root, "rules"))
    mode = case["mode"]
    argv = [os.path.join(root, "rules", mode["cmd"] + ".yml") if a == RULE_TOKEN else a for a in case["argv"]]
    code, out, err = vlib.run_cli(binary, argv, cwd=os.path.join(root, "src"), timeout=120)
    files = {k: v.encode() for k, v in case["files"].items()}
    problems = judge(files, case["expect_records"], mode, code, out, err, new_stats())
    print(f"replay {PROP} sig={data.get('sig')}")
    print("  files:", json.dumps(case["files"], ensure_ascii=False)[:1500])
    print("  argv :", case["argv"])
    print("  exit :", code)
    print("  stdout:", out.decode("utf-8", "replace")[:1500])
    if not problems:
        print("  observed: output agrees with the file bytes -> no violation")
        return 0
    for p in problems[:10]:
        print("  VIOLATION", json.dumps(p, ensure_ascii=False, default=repr)[:1200])
    return 1


def main(argv):
    args = vlib.parse_args(argv)
    rep = vlib.Reporter(PROP, args)
    binary = vlib.build_cli()
    if args["replay"]:
        return replay(args, rep, binary)
    thorough = args["tier"] == "thorough"
    spaces = [(KINDS_DEEP, 4), (KINDS_WIDE, 3)] if thorough else [(KINDS_QUICK, 3)]
    maxfiles = 4 if thorough else 3
    per_dir = 250 if thorough else 100

    root = vlib.scratch("c16")
    rules = os.path.join(root, "rules")
    vlib.write_tree(root, {"rules/" + k + ".yml": v for k, v in RULES.items()})
    contexts = context_settings()
    modes = all_modes(contexts)
    modes_b = [m for m in modes if tuple(m["ctx"]) == (0, 0) and not m["flags"]]

    seen_contents = set()
    contents = []
    for kinds, maxlen in spaces:
        contents += enumerate_contents(kinds, maxlen, seen_contents)
    space_text = " united with ".join("every sequence of <= %d line kinds from %s" % (m, [k[0] for k in ks]) for ks, m in spaces)
    groups_a = []
    for gi in range(0, len(contents), per_dir):
        chunk = contents[gi:gi + per_dir]
        files = [(f"f{gi + i:05d}.js", c, cnt, desc) for i, (c, cnt, desc) in enumerate(chunk)]
        d = os.path.join(root, "a", f"g{gi // per_dir:04d}")
        vlib.write_tree(d, {f[0]: f[1] for f in files})
        groups_a.append({"dir": d, "files": files})
    groups_b = []
    for bi, files in enumerate(enumerate_count_dirs(maxfiles)):
        d = os.path.join(root, "b", f"d{bi:04d}")
        os.makedirs(d, exist_ok=True)
        vlib.write_tree(d, {f[0]: f[1] for f in files})
        groups_b.append({"dir": d, "files": files})
    # html sweep: the contents of <= 2 line kinds as the body of a <script> element of an .html file
    # (host document + injected JavaScript document, whose nodes carry positions of the whole file);
    # the JavaScript scan rules then report matches inside the embedded region
    groups_h = []
    small = [c for c in contents if c[2].count("+") <= 1]
    for gi in range(0, len(small), per_dir):
        chunk = small[gi:gi + per_dir]
        files = [(f"h{gi + i:05d}.html", "<p>é</p>\n<script>\n" + c + "</script>\n<p>t</p>\n", cnt, "html-script:" + desc) for i, (c, cnt, desc) in enumerate(chunk)]
        d = os.path.join(root, "h", f"g{gi // per_dir:04d}")
        vlib.write_tree(d, {f[0]: f[1] for f in files})
        groups_h.append({"dir": d, "files": files})
    modes_h = [m for m in modes if m["cmd"] in ("scanFix", "scanNoFixU")]
    G.update(binary=binary, root=root, rules=rules, a=groups_a, b=groups_b, h=groups_h, modes_a=modes, modes_b=modes_b, modes_h=modes_h)

    items = [("b", gi, mi) for gi in range(len(groups_b)) for mi in range(len(modes_b))]
    items += [("a", gi, mi) for gi in range(len(groups_a)) for mi in range(len(modes))]
    items += [("h", gi, mi) for gi in range(len(groups_h)) for mi in range(len(modes_h))]
    results = pmap_procs(items)

    total = new_stats()
    for viols, stats in results:
        total.update(stats)
        for sig, case, cnt in viols:
            if sig == "MACHINERY":
                vlib.machinery(f"ast-grep rejected a command of the check: {json.dumps(case)[:800]}")
            rep.violation(sig, case)
            rep.groups[sig]["count"] += cnt - 1

    # a few fully written-out samples (deterministic picks)
    samples = []
    by_desc = {f[3]: f for g in groups_a for f in g["files"]}
    for n, want in enumerate(("mb_before_match+crlf", "long600", "two_line_match+multi_args",
                              "crlf+mb_in_match (no final newline)", "blank+ascii+nomatch")):
        f, mode = by_desc[want], modes[(n * 29 + 5) % len(modes)]
        samples.append({"file_kinds": f[3], "content": f[1] if len(f[1]) < 120 else f[1][:40] + f"...({len(f[1])} chars)",
                        "argv": argv_of(mode), "expected_records": f[2][COUNT_COL[mode["cmd"]]]})
    for bi in (0, 5, len(groups_b) - 1):
        g = groups_b[bi]
        samples.append({"directory": [f[3] for f in g["files"]], "argv": argv_of(modes_b[bi % len(modes_b)])})

    coverage = {
        "evaluations": total["runs"],
        "distinct_nontrivial": total["nontrivial_pairs"],
        "rule": ("content sweep: %s, with and without a final line terminator "
                 "(deduplicated by content: %d files, batched %d per CLI run) X every mode (%d: {foo($A), foo($$$ARGS), "
                 "foo($A) -r bar($A)} X 3 JSON styles X 11 context settings [-B/-A in {0,1,2}^2, -C 1, -C 2]; scan -r with "
                 "string fix / expandEnd fix X 3 styles; plain report --color never --heading never for 2 patterns X 11 "
                 "context settings); file-count sweep: every directory that is a sequence of <= %d files over {one match, "
                 "two matches, no match} (%d directories) X %d modes without context. A (file, mode) pair is non-trivial "
                 "when the file has >= 1 expected match for the mode's pattern and contains a multi-byte character, a CRLF, "
                 "a >= 600 column line or a match spanning two lines. html sweep: the contents of <= 2 line kinds as the body of a <script> element "
                 "(%d .html files) X scan -r with a JavaScript rule (with fix; without fix and -U) X 3 styles.")
                % (space_text, len(contents), per_dir, len(modes), maxfiles, len(groups_b), len(modes_b), len(small)),
        "exhaustive": True,
        "samples": samples,
        "bounds": {"content_spaces": [{"line_kinds": [k[0] for k in ks], "max_line_kinds_per_file": m} for ks, m in spaces],
                   "file_contents": len(contents),
                   "modes": len(modes), "count_sweep_directories": len(groups_b), "count_sweep_modes": len(modes_b),
                   "max_files_in_count_sweep": maxfiles},
        "records_judged": total["records"],
        "positions_judged": total["positions"],
        "positions_with_multibyte_before_on_line": total["positions_after_multibyte"],
        "metavariable_nodes_judged": total["metavar_nodes"],
        "replacement_offsets_judged": total["replacement_offsets"],
        "replacement_offsets_wider_than_match": total["replacement_offsets_wider_than_match"],
        "json_outputs_parsed": total["outputs_parsed"],
        "plain_entries_judged": total["plain_entries"],
        "observed_counts": {k: v for k, v in sorted(total.items())
                            if k.startswith(("lines_reading:", "plain_", "runs_with_"))},
    }
    assumptions = [
        "character = Unicode scalar value (UTF-8 sequence); line = maximal run of bytes without \\n; lines are counted by \\n only",
        "the \\r of a CRLF terminator: statement silent -> both readings accepted for `lines`/charCount.trailing and for the plain report (counted in observed_counts)",
        "after-context reaching past the final newline of a file: `lines` may or may not end with that newline (statement silent); counted as reading '+phantom-last-line'",
        "expected number of records = number of planted calls matching the pattern (foo($A): one-argument calls; foo($$$ARGS): all calls); no nested calls planted",
        "scan --json prints no context lines (JSONPrinter gets no context in scan); only run takes -A/-B/-C for JSON",
        "plain-report rows that are not of the form path:line:text (only `--` separators observed) are not judged",
        "languages: JavaScript, and JavaScript embedded in an html <script> element; files are valid UTF-8 without BOM",
    ]
    return rep.finish("exploration", coverage, assumptions)


if __name__ == "__main__":
    sys.exit(main(sys.argv[1:]))
