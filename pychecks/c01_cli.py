"""C01, CLI layer (e): `ast-grep run -p` and `ast-grep scan -r` report the same set of matches as
the library search on the same bytes — in particular the literal-substring file prefilter of
`run` never drops a file that has a match under the chosen strictness.

Space: every pattern of a closed list x 5 strictness levels (x selector where given) x a
directory holding every source of <= L statements from a statement alphabet chosen so that for
many (pattern, file) pairs the pattern's longest literal is ABSENT from the file while a match
exists under the chosen strictness. The library result comes from the `frontends` helper
(find_all of the rule `pattern: {context, strictness, selector}` on the same text).
Merges into the evidence written by the Rust part (c01)."""
import itertools, json, os, subprocess, sys
import vlib

PROP = "C01"
STRICT = ["cst", "smart", "ast", "relaxed", "signature"]

# (pattern, selector or None)
PATTERNS = [
    ("foo($A)", None),
    ("foo($A, $B)", None),
    ("foo(1)", None),
    ("$F(1)", None),
    ("let a = $V", None),
    ("let a = 1;", None),
    ("a + b", None),
    ("'s'", None),
    ("class A { m() {} }", "method_definition"),
    ("function f() { return 1 }", "return_statement"),
    ("$A.b", None),
    ("[1, $$$R]", None),
]

STATEMENTS = [
    "foo(1);", "bar(1);", "foo(1, 2);", "bar(x, y);", "let a = 1;", "let b = 2;", "c + d;", "a + b;",
    "'t';", "'s';", "class B { n() {} }", "function g() { return 2 }", "x.y;", "[1, 2];", "foo(/*c*/ 1);", "f(1)",
    # same named tokens, different unnamed keyword: matches `let a = ..` under ast/relaxed/signature
    "const a = 1;", "var a = 1",
]


def sources(max_len):
    out = []
    for n in range(1, max_len + 1):
        for seq in itertools.product(range(len(STATEMENTS)), repeat=n):
            out.append("\n".join(STATEMENTS[i] for i in seq) + "\n")
    return out


def helper_path():
    p = os.environ.get("VERIF_FRONTENDS")
    if p:
        return p
    if vlib.REPO != "/repo":
        vlib.machinery("VERIF_REPO is set: also set VERIF_FRONTENDS to a helper built from that tree")
    return os.path.join(vlib.BUILD, "harness", "debug", "frontends")


def lib_findings(root, rule_yaml, texts):
    cases = [{"rules": rule_yaml, "file": "x.js", "text": t} for t in texts]
    inp, outp = os.path.join(root, "fe_in.json"), os.path.join(root, "fe_out.json")
    json.dump({"cases": cases}, open(inp, "w"))
    r = subprocess.run([helper_path(), inp, outp], env=vlib.run_env(), stdout=subprocess.PIPE, stderr=subprocess.PIPE)
    if r.returncode != 0:
        vlib.machinery(f"frontends helper failed: {r.stderr[-400:]!r}")
    res = json.load(open(outp))["results"]
    out = []
    for x in res:
        lib = x["lib"]
        if "rules" not in lib:
            out.append(None)  # rule rejected / panic: not comparable
            continue
        fs = lib["rules"][0]["findings"] if lib["rules"] else []
        out.append(sorted(tuple(f["range"]) for f in fs))
    return out


def main(argv):
    args = vlib.parse_args(argv)
    rep = vlib.Reporter(PROP, args)
    binary = vlib.build_cli()
    root = vlib.scratch("c01cli")
    thorough = args["tier"] == "thorough"
    srcs = sources(2 if not thorough else 3 if False else 2)
    if thorough:
        # thorough: also all triples over the first 8 statements
        for seq in itertools.product(range(8), repeat=3):
            srcs.append("\n".join(STATEMENTS[i] for i in seq) + "\n")
    srcs = sorted(set(srcs))
    proj = os.path.join(root, "src")
    files = {f"f{i:05d}.js": s for i, s in enumerate(srcs)}
    vlib.write_tree(proj, files)
    names = sorted(files)
    if args["replay"]:
        case = json.load(open(args["replay"]))["case"]
        d = os.path.join(root, "replay"); vlib.write_tree(d, {"a.js": case["text"]})
        code, out, err = vlib.run_cli(binary, case["argv"] + ["a.js"], d)
        print("cli:", out.decode()[:1500]); print("library expects ranges:", case["library"])
        got = sorted((r["range"]["byteOffset"]["start"], r["range"]["byteOffset"]["end"]) for r in map(json.loads, filter(None, out.decode().splitlines())))
        return 0 if got == sorted(tuple(x) for x in case["library"]) else 1
    grid = [(p, sel, s) for (p, sel) in PATTERNS for s in STRICT]
    stdin_names = [n for n in names if files[n].count("\n") == 1]
    stats = {"cli_runs": 0, "pairs": 0, "pairs_with_match": 0, "pairs_match_without_literal": 0}

    def work(item):
        p, sel, s = item
        pat = {"context": p, "strictness": s}
        if sel:
            pat["selector"] = sel
        rule = json.dumps({"id": "r", "language": "javascript", "rule": {"pattern": pat}})
        lib = lib_findings_local(rule)
        if lib is None:
            return item, None, None, None, []
        argv_run = ["run", "-p", p, "-l", "js", "--strictness", s, "--json=stream"] + (["--selector", sel] if sel else [])
        code, out, err = vlib.run_cli(binary, argv_run + ["."], proj, timeout=120)
        run_res = (code, out, err)
        rfile = os.path.join(root, f"rule_{abs(hash((p, sel, s)))}.yml")
        open(rfile, "w").write(rule)
        code2, out2, err2 = vlib.run_cli(binary, ["scan", "-r", rfile, "--json=stream", "."], proj, timeout=120)
        # the same search with the text on standard input (no file walk, no prefilter): every
        # single-statement source
        stdin_res = []
        for n in stdin_names:
            c3, o3, e3 = vlib.run_cli(binary, argv_run + ["--stdin"], proj, stdin=files[n].encode(), timeout=60)
            stdin_res.append((n, c3, o3, e3))
        return item, lib, run_res, (code2, out2, err2), stdin_res

    # library results are computed per rule in its own helper run (thread-safe: distinct files)
    def lib_findings_local(rule):
        d = os.path.join(root, "fe_" + str(abs(hash(rule))))
        os.makedirs(d, exist_ok=True)
        res = lib_findings(d, rule, [files[n] for n in names])
        if any(r is None for r in res):
            return None
        return res

    results = vlib.pmap(work, grid, workers=16)
    samples = []
    for (p, sel, s), lib, run_res, scan_res, stdin_res in results:
        if lib is None:
            continue  # the pattern is not accepted with this selector/strictness: nothing to compare
        want = {n: lib[i] for i, n in enumerate(names)}
        for n, c3, o3, e3 in stdin_res:
            stats["cli_runs"] += 1
            stats["pairs"] += 1
            crash = vlib.is_crash(c3, e3)
            if crash:
                rep.violation(f"cli:run-stdin:crash:{crash}", {"pattern": p, "selector": sel, "strictness": s, "text": files[n], "stderr": e3.decode(errors="replace")[-300:]})
                continue
            try:
                g3 = sorted((r["range"]["byteOffset"]["start"], r["range"]["byteOffset"]["end"]) for r in map(json.loads, filter(None, o3.decode().splitlines())))
            except (ValueError, KeyError) as e:
                rep.violation("cli:run-stdin:unparseable-output", {"pattern": p, "strictness": s, "text": files[n], "error": str(e)})
                continue
            if g3 != want[n]:
                rep.violation(f"cli.run-stdin!=library:strictness={s}{':selector' if sel else ''}", {"pattern": p, "selector": sel, "strictness": s, "text": files[n], "library": want[n], "cli": g3,
                              "argv": ["run", "-p", p, "-l", "js", "--strictness", s, "--json=stream"] + (["--selector", sel] if sel else []) + ["--stdin"]})
        for front, res, argv_ in (("run", run_res, ["run", "-p", p, "-l", "js", "--strictness", s, "--json=stream"] + (["--selector", sel] if sel else [])), ("scan", scan_res, None)):
            code, out, err = res
            stats["cli_runs"] += 1
            crash = vlib.is_crash(code, err)
            if crash:
                rep.violation(f"cli:{front}:crash:{crash}", {"pattern": p, "selector": sel, "strictness": s, "stderr": err.decode(errors="replace")[-300:]})
                continue
            got = {n: [] for n in names}
            try:
                for line in out.decode().splitlines():
                    if line.strip():
                        r = json.loads(line)
                        got[os.path.basename(r["file"])].append((r["range"]["byteOffset"]["start"], r["range"]["byteOffset"]["end"]))
            except (ValueError, KeyError) as e:
                rep.violation(f"cli:{front}:unparseable-output", {"pattern": p, "strictness": s, "error": str(e)})
                continue
            for n in names:
                stats["pairs"] += 1
                w = want[n]
                g = sorted(got[n])
                if w:
                    stats["pairs_with_match"] += 1
                    # the literal the prefilter would look for (longest token of the pattern text)
                    lit = max((t for t in p.replace("(", " ").replace(")", " ").replace(",", " ").replace(";", " ").split() if not t.startswith("$")), key=len, default="")
                    if lit and lit not in files[n]:
                        stats["pairs_match_without_literal"] += 1
                if g != w:
                    missing = [x for x in w if x not in g]
                    kind = "missing-match" if missing and len(g) < len(w) else "extra-match" if len(g) > len(w) else "different-match"
                    whole_file_dropped = bool(w) and not g
                    sig = f"cli.{front}!=library:{kind}:strictness={s}{':selector' if sel else ''}{':whole-file-dropped' if whole_file_dropped else ''}"
                    rep.violation(sig, {"pattern": p, "selector": sel, "strictness": s, "text": files[n], "library": w, "cli": g, "argv": argv_ or ["scan", "-r", "<rule: pattern {context, strictness, selector}>", "--json=stream"]})
        if len(samples) < 5 and s in ("signature", "relaxed"):
            samples.append({"pattern": p, "selector": sel, "strictness": s, "files": len(names)})
    coverage = {
        "evaluations": stats["pairs"],
        "distinct_nontrivial": stats["pairs_match_without_literal"],
        "rule": "CLI layer: every (pattern, strictness[, selector]) of a 12-pattern list x 5 strictness levels, run with `ast-grep run -p` and `ast-grep scan -r` (and `run -p --stdin` on every single-statement source) over a directory holding every source of <= 2 statements from an 18-statement alphabet (thorough: plus all triples over 8); one evaluation = one (front end, pattern, strictness, file) comparison of the reported match ranges with the library's find_all on the same bytes; distinct_nontrivial = (front end, pattern, strictness, file) pairs where the library finds a match although the pattern's longest literal does not occur in the file (the case the substring prefilter can get wrong)",
        "samples": samples,
        "exhaustive": True,
        "cli_runs": stats["cli_runs"], "files": len(names), "pairs_with_match": stats["pairs_with_match"],
    }
    return rep.finish("exploration", coverage, ["CLI layer: library results come from the frontends helper (RuleCore find_all) on the same text"], merge_into_existing=True)
