"""Shared plumbing for the CLI-level checks: build the ast-grep binary from /repo's working
tree, run it hermetically (owned hash seeds), group violations, match known findings, write
evidence. Mirrors harness/vcore/src/report.rs."""
import concurrent.futures, hashlib, json, os, shutil, subprocess, sys, time

VERIF = os.path.dirname(os.path.dirname(os.path.abspath(__file__)))
BUILD = os.path.join(VERIF, ".build")
SHIM = os.path.join(BUILD, "libverifseed.so")
GUARD_FLAGS = "--cfg ast_grep_verif --check-cfg cfg(ast_grep_verif)"
# the subject tree: /repo, unless a scratch worktree is named (used only to try mutations
# without touching /repo while other checks are running)
REPO = os.environ.get("VERIF_REPO", "/repo")
# evidence / replays go to /verif unless a scratch output root is named (mutation trials)
OUT = os.environ.get("VERIF_OUT", VERIF)


def machinery(msg):
    print(f"MACHINERY-ERROR: {msg}")
    sys.exit(2)


def parse_args(argv):
    tier = os.environ.get("VERIF_TIER", "quick")
    replay = None
    extra = []
    it = iter(argv)
    for a in it:
        if a == "--tier":
            tier = next(it)
        elif a == "--replay":
            replay = next(it)
        else:
            extra.append(a)
    if tier not in ("quick", "thorough"):
        machinery(f"unknown tier {tier}")
    seed = int(os.environ.get("VERIF_SEED", "0") or 0)
    return {"tier": tier, "replay": replay, "seed": seed, "extra": extra}


def build_cli(hooks=False):
    """cargo build the ast-grep binary from /repo's current working tree; returns its path."""
    name = "repo-hooks" if hooks else "repo"
    target = os.path.join(BUILD, name) if REPO == "/repo" else os.path.join(REPO, "target-verif-" + name)
    env = dict(os.environ, CARGO_NET_OFFLINE="true", CARGO_TARGET_DIR=target)
    if hooks:
        # (VERIF_EXTRA_RUSTFLAGS: used by tools/coverage.py to add -C instrument-coverage)
        env["RUSTFLAGS"] = (GUARD_FLAGS + " " + os.environ.get("VERIF_EXTRA_RUSTFLAGS", "")).strip()
    elif os.environ.get("VERIF_EXTRA_RUSTFLAGS"):
        env["RUSTFLAGS"] = os.environ["VERIF_EXTRA_RUSTFLAGS"]
    r = subprocess.run(
        ["cargo", "build", "--offline", "--quiet", "-p", "ast-grep", "--bin", "ast-grep"],
        cwd=REPO, env=env, stdout=subprocess.PIPE, stderr=subprocess.STDOUT, text=True)
    if r.returncode != 0:
        sys.stderr.write(r.stdout[-6000:])
        machinery("building ast-grep from /repo failed")
    return os.path.join(target, "debug", "ast-grep")


def run_env(seed=0, extra=None):
    env = {k: v for k, v in os.environ.items() if not k.startswith("VERIF_")}
    env.update({"LD_PRELOAD": SHIM, "VERIF_HASH_SEED": str(seed), "NO_COLOR": "1", "RUST_BACKTRACE": "0"})
    if extra:
        env.update(extra)
    return env


def run_cli(binary, args, cwd, stdin=None, seed=0, extra_env=None, timeout=60):
    """returns (exit code or 'timeout', stdout bytes, stderr bytes)"""
    # a run that exceeds the limit is repeated once with six times the limit before it is called a
    # hang: a loaded machine must not turn into an alarm (a genuine hang still exceeds both)
    # both limits are stretched by the machine's load (1-minute load average per core, when > 1):
    # the time a process gets is what the limit is about, not the wall clock
    try:
        stretch = max(1.0, os.getloadavg()[0] / (os.cpu_count() or 1))
    except OSError:
        stretch = 1.0
    for limit in (timeout * stretch, timeout * 6 * stretch):
        try:
            r = subprocess.run([binary] + args, cwd=cwd, input=stdin, env=run_env(seed, extra_env),
                               stdout=subprocess.PIPE, stderr=subprocess.PIPE, timeout=limit)
            return r.returncode, r.stdout, r.stderr
        except subprocess.TimeoutExpired as e:
            last = e
    return "timeout", last.stdout or b"", last.stderr or b""


def scratch(name):
    """fresh scratch directory under /verif/.build/tmp (never /tmp)"""
    # (a trial against a scratch subject gets its own scratch root, so it cannot collide with a
    # regular run of the same check)
    d = os.path.join(BUILD if OUT == VERIF else OUT, "tmp", name)
    shutil.rmtree(d, ignore_errors=True)
    os.makedirs(d)
    return d


def write_tree(root, files):
    """files: {relative path: bytes or str}"""
    for rel, content in files.items():
        p = os.path.join(root, rel)
        os.makedirs(os.path.dirname(p), exist_ok=True)
        with open(p, "wb") as f:
            f.write(content.encode() if isinstance(content, str) else content)


def read_tree(root):
    out = {}
    for d, _, fs in os.walk(root):
        for f in fs:
            p = os.path.join(d, f)
            out[os.path.relpath(p, root)] = open(p, "rb").read()
    return out


def pmap(fn, items, workers=16):
    with concurrent.futures.ThreadPoolExecutor(max_workers=workers) as ex:
        return list(ex.map(fn, items))


def is_crash(code, stderr):
    """a panic / abort / signal of the ast-grep process (never an ordinary error exit)"""
    if code == "timeout":
        return "timeout"
    if isinstance(code, int) and code < 0:
        return f"signal {-code}"
    if code == 101 or b"panicked at" in stderr:
        return "panic"
    if code == 134 or b"stack overflow" in stderr:
        return "abort"
    return None


class Reporter:
    def __init__(self, prop, args):
        self.prop, self.args, self.start = prop, args, time.time()
        self.groups = {}
        self.known = []
        p = os.path.join(VERIF, "known_findings.json")
        if os.path.exists(p):
            for f in json.load(open(p))["findings"]:
                if f.get("property") == prop and f.get("status") == "known":
                    self.known.append(f)

    def violation(self, sig, case):
        s = json.dumps(case, sort_keys=True, ensure_ascii=False, default=repr)
        key = (len(s), s)
        g = self.groups.get(sig)
        if g is None:
            self.groups[sig] = {"count": 1, "example": case, "key": key}
        else:
            g["count"] += 1
            if key < g["key"]:
                g["example"], g["key"] = case, key

    def count(self):
        return sum(g["count"] for g in self.groups.values())

    def _known(self, sig):
        for k in self.known:
            if (k.get("sig_is_prefix") and sig.startswith(k["sig"])) or sig == k["sig"]:
                return k
        return None

    def finish(self, level, coverage, assumptions, merge_into_existing=False):
        d = os.path.join(OUT, "replays", self.prop)
        os.makedirs(d, exist_ok=True)
        unknown = known_cnt = classes = 0
        lines, summary = [], []
        known_lines = {}
        for i, sig in enumerate(sorted(self.groups)):
            g = self.groups[sig]
            k = self._known(sig)
            entry = {"sig": sig, "known": bool(k), "count": g["count"], "example": g["example"]}
            summary.append(entry)
            if k:
                known_cnt += g["count"]
                e = known_lines.setdefault(k["sig"], [0, 0, k.get("what", "")])
                e[0] += g["count"]; e[1] += 1
            else:
                unknown += g["count"]
                classes += 1
                if classes > 20:
                    continue
                path = os.path.join(d, f"{self.args['tier']}_py_{i}.json")
                json.dump({"property": self.prop, "sig": sig, "count_in_run": g["count"], "case": g["example"]},
                          open(path, "w"), indent=1, ensure_ascii=False, default=repr)
                lines.append(f"VIOLATION property={self.prop} replay={path}")
                sys.stderr.write(f"violation class sig={sig} cases={g['count']} smallest={json.dumps(g['example'], ensure_ascii=False, default=repr)[:600]}\n")
        for ksig, (cases, nsig, what) in sorted(known_lines.items()):
            lines.append(f"KNOWN-FINDING: property={self.prop} sig={ksig} cases={cases} distinct_sigs={nsig} {what}")
        wall = time.time() - self.start
        evpath = os.path.join(OUT, "evidence", f"{self.prop}.json")
        os.makedirs(os.path.dirname(evpath), exist_ok=True)
        if merge_into_existing and os.path.exists(evpath):
            ev = json.load(open(evpath))
            cov = ev["coverage"]
            cov["evaluations"] += coverage.get("evaluations", 0)
            cov["distinct_nontrivial"] += coverage.get("distinct_nontrivial", 0)
            cov["samples"] = cov.get("samples", []) + coverage.get("samples", [])
            cov["cli_layer"] = {k: v for k, v in coverage.items() if k != "samples"}
            cov["violation_classes"] = cov.get("violation_classes", []) + summary
            cov["known_finding_cases"] = cov.get("known_finding_cases", 0) + known_cnt
            ev["violations"] = ev.get("violations", 0) + unknown
            ev["wall_s"] += wall
            ev["assumptions"] = ev.get("assumptions", []) + assumptions
        else:
            coverage["violation_classes"] = summary
            coverage["known_finding_cases"] = known_cnt
            ev = {"property_id": self.prop, "tier": self.args["tier"], "seed": self.args["seed"], "level": level,
                  "coverage": coverage, "assumptions": assumptions, "wall_s": wall, "violations": unknown}
        json.dump(ev, open(evpath, "w"), indent=1, ensure_ascii=False, default=repr)
        for l in lines:
            print(l)
        if classes > 20:
            print(f"({classes - 20} further violation classes are listed in the evidence file only)")
        print(f"{self.prop}: tier={self.args['tier']} wall={wall:.1f}s unknown_violations={unknown} known_finding_cases={known_cnt}")
        return 1 if unknown else 0
