"""C15 - a rule runs on a file exactly when language, globs and severity say so.

Bounded-exhaustive exploration: every element of an explicit finite space of (project layout,
languageGlobs, rule set with files/ignores/severity, command-line overrides) is materialised on
disk, the REAL `ast-grep scan --json=stream` is run from the project root, and the reported
(file, rule id) pairs and the exit-code class are compared with `ref_select`, a small reference
written from the property statement (not from ast-grep's code).

The space is a union of factors; every factor is a complete cross product (see `build_cases`).
"""
import itertools, json, os, re, sys

import vlib

PROP = "C15"
CONTENT = "foo(1)\n"          # matched by the pattern foo($A) in js, ts, tsx and python
PATTERN = "foo($A)"
SEVS = ["error", "warning", "info", "hint", "off"]
IDS = ["r1", "r2", "r12"]     # r1 is a proper prefix of r12: per-id flags must be exact

# ------------------------------------------------------------------------------------------
# data copied from the documentation (language reference table: "Extensions" column)
EXT_TABLE = {
    "js": ["cjs", "js", "mjs", "jsx"],
    "ts": ["ts", "cts", "mts"],
    "tsx": ["tsx"],
    "py": ["py", "py3", "pyi", "bzl"],
}
# probe names that the table says have NO language among the four above
TABLE_NEGATIVE = ["p.txt", "p", "p.jsx2", "p.typescript", "js", "p.js.txt", "p.pyx"]
TABLE_POSITIVE_EXTRA = {"p.d.ts": "ts", "p.test.js": "js", "p.txt.py": "py"}


# ------------------------------------------------------------------------------------------
# reference model `ref_select`
def glob_regex(glob, star_crosses_slash=False):
    """closed glob list only: `**/` prefix = any directory prefix (including none), `/**` suffix =
    anything below, `*` = any run of characters other than `/`, everything else literal."""
    g = glob
    pre = post = ""
    if g.startswith("**/"):
        pre, g = "(?:.*/)?", g[3:]
    if g.endswith("/**"):
        post, g = "/.+", g[:-3]
    if "**" in g or any(c in g for c in "?[]{}!\\"):
        raise ValueError("glob outside the closed list: " + glob)
    star = ".*" if star_crosses_slash else "[^/]*"
    body = "".join(star if c == "*" else re.escape(c) for c in g)
    return re.compile("^" + pre + body + post + "$")


def glob_match(glob, path):
    return glob_regex(glob).match(path) is not None


def name_glob_match(glob, base):
    """languageGlobs entries of this alphabet are `*.ext` or a literal file name; they are
    matched against the file name."""
    if glob.startswith("*."):
        return base.endswith(glob[1:]) and len(base) > len(glob) - 1
    if "*" in glob:
        raise ValueError("language glob outside the alphabet: " + glob)
    return base == glob


def ext_lang(path):
    base = path.rsplit("/", 1)[-1]
    if "." not in base[1:]:
        return None
    ext = base.rsplit(".", 1)[1]
    for lang, exts in EXT_TABLE.items():
        if ext in exts:
            return lang
    return None


def ref_lang(path, lang_globs):
    base = path.rsplit("/", 1)[-1]
    by_glob = sorted({l for l, gs in (lang_globs or {}).items() if any(name_glob_match(g, base) for g in gs)})
    by_ext = ext_lang(path)
    if len(by_glob) > 1:
        raise ValueError("statement is silent: two languageGlobs entries claim " + path)   # alphabet guard
    # a configured language glob overrides the built-in extension table (documented purpose of
    # languageGlobs: "overrides the default language parser"; code comment in SgLang::from_path:
    # "respect user overriding like languageGlobs")
    return by_glob[0] if by_glob else by_ext


def parse_overrides(argv):
    """argv -> (per_id: {id: [sev,...]}, bare: [sev,...], filter regex or None)"""
    per_id, bare, flt = {}, [], None
    it = iter(argv)
    for a in it:
        if a == "--filter":
            flt = next(it)
        elif a.startswith("--filter="):
            flt = a[len("--filter="):]
        elif a.startswith("--") and a[2:].split("=")[0] in SEVS:
            sev = a[2:].split("=")[0]
            if "=" in a:
                per_id.setdefault(a.split("=", 1)[1], []).append(sev)
            else:
                bare.append(sev)
        elif a == ".":
            pass
        else:
            raise ValueError("argument outside the alphabet: " + a)
    return per_id, bare, flt


def ref_effective(rule, argv):
    """-> (severity or None when filtered out, source in own|per-id|bare|filter)"""
    per_id, bare, flt = parse_overrides(argv)
    if flt is not None:
        s, f = re.search(flt, rule["id"]) is not None, re.fullmatch(flt, rule["id"]) is not None
        if s != f:
            raise ValueError("statement is silent: search/full match differ for --filter " + flt)
        if not s:
            return None, "filter"
    flags = per_id.get(rule["id"], [])
    if len(set(flags)) > 1 or len(set(bare)) > 1:
        raise ValueError("statement is silent: two different flags for one id / two bare flags")
    if flags:
        return flags[0], ("per-id-over-bare" if bare else "per-id")
    if bare:
        return bare[0], "bare"
    return rule["severity"], "own"


def ref_select(case):
    """-> (expected {(file, rule id)}, reasons {(file, id): clause that decides},
           eff {id: (severity|None, source)})"""
    expected, why, eff = set(), {}, {}
    for r in case["rules"]:
        eff[r["id"]] = ref_effective(r, case["argv"])
    for path in case["files"]:
        lang = ref_lang(path, case.get("lang_globs"))
        via = "langglob" if lang is not None and ext_lang(path) != lang else "ext"
        for r in case["rules"]:
            sev, src = eff[r["id"]]
            if lang != r["language"]:
                w = "lang-mismatch" + ("" if lang else ":no-language")
            elif r.get("files") is not None and not any(glob_match(g, path) for g in r["files"]):
                w = "files-no-match"
            elif r.get("ignores") is not None and any(glob_match(g, path) for g in r["ignores"]):
                w = "ignores-match" + (":files-match-too" if r.get("files") is not None else "")
            elif sev is None:
                w = "filtered-out"
            elif sev == "off":
                w = "severity-off:" + src
            else:
                w = None
                expected.add((path, r["id"]))
                why[(path, r["id"])] = "lang=%s:files=%s:ignores=%s:sev=%s" % (
                    via, "y" if r.get("files") is not None else "n",
                    "y" if r.get("ignores") is not None else "n", src)
            if w:
                why[(path, r["id"])] = w
    return expected, why, eff


# ------------------------------------------------------------------------------------------
# running one case against the real binary
def materialise(root, case):
    tree = {p: CONTENT for p in case["files"]}
    cfg = {"ruleDirs": ["rules"]}
    if case.get("lang_globs"):
        cfg["languageGlobs"] = case["lang_globs"]
    tree["sgconfig.yml"] = json.dumps(cfg) + "\n"
    for i, r in enumerate(case["rules"]):
        d = {"id": r["id"], "language": r["language"], "severity": r["severity"],
             "message": "m " + r["id"], "rule": {"pattern": PATTERN}}
        if r.get("files") is not None:
            d["files"] = r["files"]
        if r.get("ignores") is not None:
            d["ignores"] = r["ignores"]
        tree["rules/rule%d.yml" % i] = json.dumps(d) + "\n"
    vlib.write_tree(root, tree)
    os.makedirs(os.path.join(root, "rules"), exist_ok=True)
    for d in case.get("empty_dirs", []):
        os.makedirs(os.path.join(root, d), exist_ok=True)


def observe(binary, root, case):
    code, out, err = vlib.run_cli(binary, ["scan", "--json=stream"] + case["argv"], cwd=root)
    pairs, labels, bad = set(), {}, None
    for line in out.decode("utf-8", "replace").splitlines():
        if not line.strip():
            continue
        try:
            d = json.loads(line)
            f = d["file"]
            if f.startswith("./"):
                f = f[2:]
            pairs.add((f, d["ruleId"]))
            labels[d["ruleId"]] = d.get("severity")
        except Exception as e:      # noqa
            bad = line[:200]
    return {"code": code, "pairs": pairs, "labels": labels, "bad": bad,
            "stderr": err.decode("utf-8", "replace")[:400]}


def judge(case, obs):
    """-> list of (sig, detail dict). Asks for exactly the two clauses of the statement."""
    out = []
    crash = vlib.is_crash(obs["code"], obs["stderr"].encode())
    if crash:
        return [("crash:%s:scan" % crash, {"exit": obs["code"], "stderr": obs["stderr"]})]
    if obs["bad"] is not None:
        return [("output:unparseable-json-line", {"line": obs["bad"]})]
    if case.get("kind") == "table":
        return judge_table(case, obs)
    expected, why, eff = ref_select(case)
    for p in sorted(expected - obs["pairs"]):
        out.append(("select:missing:" + why[p], {"file": p[0], "rule": p[1], "expected": "applied", "observed": "no finding"}))
    for p in sorted(obs["pairs"] - expected):
        out.append(("select:extra:" + why.get(p, "unknown-file-or-rule"),
                    {"file": p[0], "rule": p[1], "expected": "not applied", "observed": "finding reported"}))
    # exit-code clause, judged on the findings the binary actually reported
    err_ids = sorted({rid for (_, rid) in obs["pairs"] if eff.get(rid, (None,))[0] == "error"})
    want_nonzero = bool(err_ids)
    got_nonzero = obs["code"] != 0
    if want_nonzero and not got_nonzero:
        src = sorted({eff[i][1] for i in err_ids})
        out.append(("exit-code:zero-with-error-finding:sev=" + "+".join(src),
                    {"exit": obs["code"], "error_rules_with_findings": err_ids}))
    if got_nonzero and not want_nonzero:
        sevs = sorted({eff[rid][0] for (_, rid) in obs["pairs"] if rid in eff and eff[rid][0]}, key=SEVS.index)
        out.append(("exit-code:nonzero(%s)-without-error-finding:highest=%s" % (obs["code"], sevs[0] if sevs else "none"),
                    {"exit": obs["code"], "stderr": obs["stderr"]}))
    return out


def judge_table(case, obs):
    out = []
    seen = {}
    for f, rid in obs["pairs"]:
        seen.setdefault(f, set()).add(rid[1:])           # rule ids are "L<lang>"
    for f in case["files"]:
        want = TABLE_POSITIVE_EXTRA.get(f, ext_lang(f))
        got = sorted(seen.get(f, ()))
        if got != ([want] if want else []):
            ext = f.rsplit(".", 1)[1] if "." in f else "(none)"
            out.append(("lang-table:%s:documented=%s:binary=%s" % (ext, want, "+".join(got) or "none"),
                        {"file": f, "documented": want, "binary": got}))
    if obs["code"] != 0:
        out.append(("lang-table:probe-exit-nonzero(%s)" % obs["code"], {"stderr": obs["stderr"]}))
    return out


def run_case(binary, root, case):
    materialise(root, case)
    obs = observe(binary, root, case)
    return obs, judge(case, obs)


# ------------------------------------------------------------------------------------------
# the alphabet
DIRS = ["", "src/", "src/lib/", "test/"]
EXTS = ["js", "ts", "py", "txt", None]


def fname(ext):
    return "a." + ext if ext else "noext"


ALL_FILES = [d + fname(e) for d in DIRS for e in EXTS]


def layouts(tier):
    """named layouts = lists of source files. quick: full, empty, each single directory, each single
    extension (11). thorough: every subset of the 4 directories (16, all 5 extensions in each chosen
    directory) + each single extension in all directories (5) = 21."""
    out = []
    if tier == "quick":
        out.append(("full", list(ALL_FILES)))
        out.append(("empty", []))
        for d in DIRS:
            out.append(("dir=" + (d or "."), [d + fname(e) for e in EXTS]))
    else:
        for k in range(len(DIRS) + 1):
            for ds in itertools.combinations(DIRS, k):
                out.append(("dirs=" + ",".join(x or "." for x in ds), [d + fname(e) for d in ds for e in EXTS]))
    for e in EXTS:
        out.append(("ext=" + (e or "none"), [d + fname(e) for d in DIRS]))
    return out


def globs_for(ext):
    """the closed glob list, instantiated with the rule language's own extension"""
    return ["**/*." + ext, "src/**", "src/lib/*." + ext, "**/test/**", "src/a." + ext, "a." + ext]


def glob_options(ext, tier):
    """options for one of files / ignores: absent, every single glob; thorough adds every pair"""
    g = globs_for(ext)
    opts = [None] + [[x] for x in g]
    if tier == "thorough":
        opts += [list(p) for p in itertools.combinations(g, 2)]
    return opts


def combos(ext, tier):
    o = glob_options(ext, tier)
    return [(f, i) for f in o for i in o]


def rule(rid, lang, sev, files=None, ignores=None):
    return {"id": rid, "language": lang, "severity": sev, "files": files, "ignores": ignores}


LANGS3 = ["js", "ts", "py"]
# factor B/C fixed rule shape: a tenured js rule, a contingent js rule, a contingent py rule
def fixed_rules(sevs):
    return [rule("r1", "js", sevs[0]),
            rule("r2", "js", sevs[1], files=["src/**"], ignores=["src/lib/*.js"]),
            rule("r12", "py", sevs[2], ignores=["**/test/**"])]


def override_alphabet():
    """every command line over the severity flags that the statement determines:
       no flag; one id -> one flag (15); two ids -> any two flags, same or distinct (75);
       one bare flag (5); one bare flag + one id on a different flag (5*3*4 = 60);
       --filter with 6 regexes (search == full match on the id set), alone and with --error / --off=r1"""
    out = [[]]
    for i in IDS:
        for s in SEVS:
            out.append(["--%s=%s" % (s, i)])
    for a, b in itertools.combinations(IDS, 2):
        for s in SEVS:
            for t in SEVS:
                out.append(["--%s=%s" % (s, a), "--%s=%s" % (t, b)])
    for s in SEVS:
        out.append(["--" + s])
    for s in SEVS:
        for i in IDS:
            for t in SEVS:
                if t != s:
                    out.append(["--" + s, "--%s=%s" % (t, i)])
    for rx in FILTERS:
        out.append(["--filter", rx])
        out.append(["--filter", rx, "--error"])
        out.append(["--filter", rx, "--off=r1"])
    return out


FILTERS = ["^r1$", "^r[12]$", "^r1.*$", "^.*2$", "^r\\d+$", "^(r2|r12)$"]


def sev_assignments(tier, which):
    allsev = list(itertools.product(SEVS, repeat=3))
    if which == "all":
        return allsev
    # with the complete override alphabet: quick = two fixed assignments; thorough = the 25 assignments
    # of a Latin square (r1, r2 free, r12 = SEVS[(i1 + i2) % 5]): every PAIR of rules sees all 25 pairs
    fixed = [("warning", "error", "off"), ("off", "hint", "error")]
    latin = [(SEVS[a], SEVS[b], SEVS[(a + b) % 5]) for a in range(5) for b in range(5)]
    return latin if tier == "thorough" else fixed


LANG_GLOBS = [None, {"js": ["*.txt"]}, {"js": ["noext"]}, {"py": ["*.txt"]}, {"ts": ["noext"]},
              {"js": ["*.txt", "noext"]}, {"py": ["*.txt"], "ts": ["noext"]},
              # globs that re-assign an extension a built-in language owns
              {"ts": ["*.js"]}, {"js": ["*.py"], "py": ["*.ts"]}]


def langglob_rule_sets():
    """rule sets for factor C: the globs that can select .txt / extension-less files"""
    sets = []
    gl = [None, ["src/**"], ["**/test/**"], ["src/a.txt"], ["test/noext"], ["src/lib/*.js"]]
    for f in gl:
        for i in gl:
            sets.append([rule("r1", "js", "error", files=f, ignores=i),
                         rule("r2", "ts", "warning", files=i, ignores=f),
                         rule("r12", "py", "hint", files=f)])
    return sets


def build_cases(tier):
    cases = []

    def add(factor, layout, rules, argv=(), lang_globs=None):
        name, files = layout
        cases.append({"factor": factor, "layout": name, "files": list(files), "lang_globs": lang_globs,
                      "rules": rules, "argv": list(argv)})

    lays = layouts(tier)
    full = ("full", list(ALL_FILES)) if tier == "quick" else lays[[n for n, _ in lays].index("dirs=.,src/,src/lib/,test/")]
    n_combo = len(combos("js", tier))
    # factor A: every layout x every (files, ignores) combination, for each of the three languages.
    # One run carries three rules (js, ts, py); rule j gets combination (k + shift_j) mod n, so every
    # (layout, language, combination) triple occurs exactly once. Own severities error / warning / hint.
    shifts = [0, n_combo // 3 + 1, 2 * (n_combo // 3) + 3]
    for lay in lays:
        for k in range(n_combo):
            rs = []
            for j, (rid, lang, sev) in enumerate(zip(IDS, LANGS3, ["error", "warning", "hint"])):
                f, i = combos(lang, tier)[(k + shifts[j]) % n_combo]
                rs.append(rule(rid, lang, sev, f, i))
            add("A:layout x globs", lay, rs)
    # factor A2: three rules of the SAME language (js) sharing one file, full layout: every ordered pair
    # (combination of r2, combination of r12) next to a rule without globs would be n^2; we enumerate
    # every combination for r2 with r12 = shifted combination and r1 without globs.
    for k in range(n_combo):
        c = combos("js", tier)
        f2, i2 = c[k]
        f3, i3 = c[(k + shifts[1]) % n_combo]
        add("A2:same-language rules x globs", full,
            [rule("r1", "js", "hint"), rule("r2", "js", "error", f2, i2), rule("r12", "js", "warning", f3, i3)])
    # factor B1: every own-severity assignment (5^3) x {full layout, layout test/ only} x no override
    test_only = ("dir=test/", ["test/" + fname(e) for e in EXTS])
    for lay in (full, test_only):
        for sv in sev_assignments(tier, "all"):
            add("B1:own severities", lay, fixed_rules(sv))
    # factor B2: the complete override alphabet x own-severity assignments (quick: 2 fixed; thorough: 25 = Latin square over 5^3)
    for sv in sev_assignments(tier, "fixed"):
        for ov in override_alphabet():
            add("B2:overrides x own severities", full, fixed_rules(sv), ov)
    # factor C: languageGlobs (7) x rule sets (36) x layouts {full, ext=txt, ext=none}
    lg_lays = [full] + [l for l in lays if l[0] in ("ext=txt", "ext=none")]
    for lg in LANG_GLOBS:
        for rs in langglob_rule_sets():
            for lay in (lg_lays if tier == "thorough" else lg_lays[:1]):
                add("C:languageGlobs x globs", lay, rs, (), lg)
    # factor D: invocation form {no path, `.`} x every layout x {no override, --error, --off=r1}
    for lay in lays:
        for inv in ([], ["."]):
            for ov in ([], ["--error"], ["--off=r1"]):
                add("D:invocation", lay, fixed_rules(("warning", "error", "info")), inv + ov)
    return cases


def table_case():
    files = ["p." + e for exts in EXT_TABLE.values() for e in exts] + list(TABLE_POSITIVE_EXTRA) + TABLE_NEGATIVE
    return {"kind": "table", "factor": "T:extension table", "layout": "probe", "files": files, "lang_globs": None,
            "rules": [rule("L" + l, l, "hint") for l in EXT_TABLE], "argv": []}


def check_alphabet():
    """guards that keep silent cases out: on the whole path universe the two readings of `*` agree,
    and every override command line is determined by the statement (ref raises otherwise)."""
    universe = ALL_FILES
    for ext in ["js", "ts", "py"]:
        for g in globs_for(ext):
            for p in universe:
                a = glob_regex(g).match(p) is not None
                b = glob_regex(g, True).match(p) is not None
                if a != b:
                    vlib.machinery("alphabet guard: glob %s on %s depends on whether * crosses /" % (g, p))
    for ov in override_alphabet():
        for rid in IDS:
            ref_effective({"id": rid, "severity": "hint"}, ov)


# ------------------------------------------------------------------------------------------
def case_public(case):
    return {k: v for k, v in case.items() if k != "_n"}


def embedded_exit_code(binary, base, rep):
    """exit-code clause on files that yield SEVERAL documents (an .html host document plus the
    javascript of its <script>): every pair of own severities of an html rule and a js rule x which
    documents have a finding x one more plain .js file with/without a finding. The scan must exit
    non-zero exactly when a REPORTED finding belongs to a rule whose (own) severity is error."""
    contents = {"host": "<font>x</font>\n<script>bar(1)</script>\n", "script": "<b>x</b>\n<script>foo(1)</script>\n",
                "both": "<font>x</font>\n<script>foo(1)</script>\n", "both-script-first": "<script>foo(1)</script>\n<font>x</font>\n"}
    jobs = [(sh, sj, c, extra) for sh in SEVS for sj in SEVS for c in contents for extra in ("none", "nomatch.js")]

    def one(job):
        sh, sj, c, extra = job
        root = os.path.join(base, "emb_%s_%s_%s_%s" % (sh, sj, c, extra.replace(".", "_")))
        tree = {"sgconfig.yml": json.dumps({"ruleDirs": ["rules"]}) + "\n",
                "rules/h.yml": json.dumps({"id": "h1", "language": "html", "severity": sh, "rule": {"pattern": "<font>$$$A</font>"}}) + "\n",
                "rules/j.yml": json.dumps({"id": "j1", "language": "js", "severity": sj, "rule": {"pattern": "foo($A)"}}) + "\n",
                "web/nested/page.html": contents[c]}
        if extra != "none":
            tree["web/" + extra] = "bar(2)\n"
        vlib.write_tree(root, tree)
        code, out, err = vlib.run_cli(binary, ["scan", "--json=stream"], root, timeout=60)
        return job, code, out, err
    n = 0
    for (sh, sj, c, extra), code, out, err in vlib.pmap(one, jobs, workers=16):
        n += 1
        case = {"factor": "E:exit code with several documents per file", "html_rule_severity": sh, "js_rule_severity": sj, "page.html": contents[c], "extra_file": extra}
        crash = vlib.is_crash(code, err)
        if crash:
            rep.violation("crash:%s:scan" % crash, dict(case, stderr=err.decode("utf-8", "replace")[-300:]))
            continue
        try:
            ids = [json.loads(l)["ruleId"] for l in out.decode().splitlines() if l.strip()]
        except (ValueError, KeyError) as e:
            rep.violation("output:unparseable", dict(case, error=str(e)))
            continue
        sev_of = {"h1": sh, "j1": sj}
        any_error = any(sev_of.get(i) == "error" for i in ids)
        if (code != 0) != any_error:
            where = "error-finding-in-host-document" if "h1" in ids and sh == "error" else "error-finding-in-embedded-document"
            rep.violation("exit-code:%s:several-documents:%s" % ("zero-with-error-finding" if any_error else "nonzero-without-error-finding", where), dict(case, exit=code, reported=ids))
    return n


def load_order_factor(binary, base, rep, tier):
    """F) rule LOAD ORDER: every sequence of 3 (thorough: 3..4) rules over {typescript, python} x
    {no glob, `files: [src/**]`} — so that rules of one language are interrupted by rules of
    another in every possible way — written (a) as one multi-document rule file in that order and
    (b) as one file per rule whose names sort in that order. Every rule is `foo($A)`, every source
    file holds `foo(1)`: each rule must be applied to the file of its own language and to no other,
    and the scan exits non-zero iff an error rule was applied."""
    kinds = [("typescript", None), ("python", None), ("typescript", ["src/**"]), ("python", ["src/**"])]
    lens = (3, 4) if tier == "thorough" else (3,)
    seqs = [q for n in lens for q in itertools.product(range(len(kinds)), repeat=n)]
    jobs = [(q, form) for q in seqs for form in ("multi-document", "files")]
    file_of = {"typescript": "src/a.ts", "python": "src/b.py"}

    def one(job):
        q, form = job
        root = os.path.join(base, "ord_%s_%s" % ("".join(map(str, q)), form[0]))
        rules = []
        for i, k in enumerate(q):
            lang, files = kinds[k]
            r = {"id": "o%d" % i, "language": lang, "severity": "error" if i == len(q) - 1 else "warning", "rule": {"pattern": "foo($A)"}}
            if files:
                r["files"] = files
            rules.append(r)
        tree = {"sgconfig.yml": json.dumps({"ruleDirs": ["rules"]}) + "\n", "src/a.ts": "foo(1)\n", "src/b.py": "foo(1)\n", "src/c.js": "foo(1)\n"}
        if form == "files":
            for i, r in enumerate(rules):
                tree["rules/%c.yml" % (97 + i)] = json.dumps(r) + "\n"
        else:
            tree["rules/all.yml"] = "\n---\n".join(json.dumps(r) for r in rules) + "\n"
        vlib.write_tree(root, tree)
        code, out, err = vlib.run_cli(binary, ["scan", "--json=stream"], root, timeout=60)
        return job, rules, code, out, err
    n = 0
    for (q, form), rules, code, out, err in vlib.pmap(one, jobs, workers=16):
        n += 1
        case = {"factor": "F:rule load order", "form": form, "rules": [{"id": r["id"], "language": r["language"], "files": r.get("files"), "severity": r["severity"]} for r in rules]}
        crash = vlib.is_crash(code, err)
        if crash:
            rep.violation("crash:%s:scan" % crash, dict(case, stderr=err.decode("utf-8", "replace")[-300:]))
            continue
        try:
            got = {(j["ruleId"], j["file"].lstrip("./")) for j in (json.loads(l) for l in out.decode().splitlines() if l.strip())}
        except (ValueError, KeyError) as e:
            rep.violation("output:unparseable", dict(case, error=str(e)))
            continue
        want = {(r["id"], file_of[r["language"]]) for r in rules}
        if got != want:
            kind = "missing" if want - got else "extra"
            globbed = "rule-without-globs" if any(r.get("files") is None for r in rules if (r["id"], file_of[r["language"]]) in (want ^ got)) else "rule-with-globs"
            rep.violation("select:%s:load-order:%s" % (kind, globbed), dict(case, missing=sorted(map(list, want - got)), extra=sorted(map(list, got - want))))
        elif code == 0:
            rep.violation("exit-code:zero-with-error-finding:load-order", dict(case, exit=code))
    return n


def split_extension_factor(binary, base, rep):
    """G) languageGlobs that split ONE extension between two languages by file name
    (`tsx: ['*.page.ts']`, the other *.ts stay TypeScript): every non-empty set of <= 4 files over
    {a.ts, b.page.ts, c.ts, 0.page.ts, z.page.ts} (so that either kind comes first in any visiting
    order) x {--threads 1, default}. A TypeScript rule and a Tsx rule, both `foo($A)`: each file gets
    exactly the rule of its language, whatever was scanned before it."""
    names = ["a.ts", "b.page.ts", "c.ts", "0.page.ts", "z.page.ts"]
    sets = [c for n in range(1, 5) for c in itertools.combinations(names, n)]
    jobs = [(c, th) for c in sets for th in ("1", "default")]

    def one(job):
        files, th = job
        root = os.path.join(base, "split_%s_%s" % ("".join(f[0] for f in files), th))
        tree = {"sgconfig.yml": json.dumps({"ruleDirs": ["rules"], "languageGlobs": {"tsx": ["*.page.ts"]}}) + "\n",
                "rules/t.yml": json.dumps({"id": "g-ts", "language": "typescript", "severity": "warning", "rule": {"pattern": "foo($A)"}}) + "\n",
                "rules/x.yml": json.dumps({"id": "g-tsx", "language": "tsx", "severity": "warning", "rule": {"pattern": "foo($A)"}}) + "\n"}
        for f in files:
            tree["src/" + f] = "foo(1)\n"
        vlib.write_tree(root, tree)
        argv = ["scan", "--json=stream"] + (["--threads", "1"] if th == "1" else [])
        code, out, err = vlib.run_cli(binary, argv, root, timeout=60)
        return job, code, out, err
    n = 0
    for (files, th), code, out, err in vlib.pmap(one, jobs, workers=16):
        n += 1
        case = {"factor": "G:one extension split between two languages by languageGlobs", "files": list(files), "threads": th}
        crash = vlib.is_crash(code, err)
        if crash:
            rep.violation("crash:%s:scan" % crash, dict(case, stderr=err.decode("utf-8", "replace")[-300:]))
            continue
        try:
            got = {(j["ruleId"], j["file"].lstrip("./")) for j in (json.loads(l) for l in out.decode().splitlines() if l.strip())}
        except (ValueError, KeyError) as e:
            rep.violation("output:unparseable", dict(case, error=str(e)))
            continue
        want = {("g-tsx" if f.endswith(".page.ts") else "g-ts", "src/" + f) for f in files}
        if got != want:
            rep.violation("select:language-of-a-file-depends-on-the-files-scanned-before-it:threads=%s" % th, dict(case, missing=sorted(map(list, want - got)), extra=sorted(map(list, got - want))))
    return n


def main(argv):
    args = vlib.parse_args(argv)
    rep = vlib.Reporter(PROP, args)
    binary = vlib.build_cli()
    if args["replay"]:
        return replay(binary, args["replay"])
    check_alphabet()
    base = vlib.scratch("c15")
    cases = [table_case()] + build_cases(args["tier"])
    for n, c in enumerate(cases):
        c["_n"] = n

    def work(c):
        root = os.path.join(base, "p%06d" % c["_n"])
        os.makedirs(root)
        obs, verdicts = run_case(binary, root, c)
        if not verdicts:
            import shutil
            shutil.rmtree(root, ignore_errors=True)
        return obs, verdicts

    results = vlib.pmap(work, cases, workers=16)
    n_embedded = embedded_exit_code(binary, base, rep)
    n_order = load_order_factor(binary, base, rep, args["tier"])
    n_split = split_extension_factor(binary, base, rep)

    per_factor, outcomes, nontrivial, label_mismatch = {}, {}, set(), 0
    decisions = applied = 0
    reasons = {}
    samples = []
    for c, (obs, verdicts) in zip(cases, results):
        per_factor[c["factor"]] = per_factor.get(c["factor"], 0) + 1
        by_sig = {}
        for sig, detail in verdicts:
            by_sig.setdefault(sig, []).append(detail)
        for sig, details in by_sig.items():      # one violation per (case, class); first 5 instances kept
            pc = case_public(c)
            pc["violation"] = details[:5]
            pc["violation_instances"] = len(details)
            rep.violation(sig, pc)
        if c.get("kind") == "table":
            continue
        expected, why, eff = ref_select(c)
        decisions += len(c["files"]) * len(c["rules"])
        applied += len(expected)
        for w in why.values():
            k = w if not w.startswith("lang=") else "applied"
            reasons[k] = reasons.get(k, 0) + 1
        excluded_by_rule = any(not w.startswith("lang") for w in why.values())
        key = json.dumps(case_public(c), sort_keys=True)
        if expected and excluded_by_rule:
            nontrivial.add(key)
        oc = (len(obs["pairs"]) > 0, obs["code"])
        outcomes[str(oc)] = outcomes.get(str(oc), 0) + 1
        for rid, lab in obs["labels"].items():
            if rid in eff and eff[rid][0] not in (None, lab):
                label_mismatch += 1
    # samples: first case of each factor
    seen = set()
    for c, (obs, _) in zip(cases, results):
        if c["factor"] not in seen and (c.get("kind") == "table" or (obs["pairs"] and len(obs["pairs"]) < len(c["files"]) * len(c["rules"]))):
            seen.add(c["factor"])
            samples.append({"case": case_public(c), "observed_pairs": sorted(map(list, obs["pairs"])), "exit": obs["code"]})
    tier = args["tier"]
    coverage = {
        "evaluations": len(cases),
        "distinct_nontrivial": len(nontrivial),
        "file_rule_decisions_judged": decisions,
        "file_rule_pairs_expected_applied": applied,
        "deciding_clause_counts": reasons,
        "runs_per_factor": dict(per_factor, **{"E:exit code with several documents per file": n_embedded, "F:rule load order": n_order, "G:one extension split between two languages": n_split}),
        "outcomes_(any_finding,exit_code)": outcomes,
        "severity_label_disagreements_not_judged": label_mismatch,
        "exhaustive": True,
        "bounds": {
            "directories": [d or "." for d in DIRS], "extensions": [e or "(none)" for e in EXTS],
            "layouts": [n for n, _ in layouts(tier)],
            "globs_per_language": globs_for("<ext>"),
            "files_or_ignores_options": len(glob_options("js", tier)),
            "glob_combinations_per_language": len(combos("js", tier)),
            "own_severities": SEVS, "rule_ids": IDS,
            "override_command_lines": len(override_alphabet()), "filters": FILTERS,
            "language_globs": LANG_GLOBS,
            "extension_table_probed": EXT_TABLE,
        },
        "rule": (
            "Union of completely enumerated factors, each case = one real `ast-grep scan --json=stream` run from the project root: "
            "T) one probe of the documented extension table (js/ts/tsx/py, 12 extensions + 3 multi-dot names + 7 negative names); "
            "A) every layout x every (files, ignores) combination x each language js/ts/py (three rules per run, combination index rotated so each "
            "(layout, language, combination) occurs exactly once); A2) same for three js rules sharing files on the full layout; "
            "B1) all 5^3 own severities x {full, test/ only}; B2) complete override alphabet (none; 1 id->1 flag; 2 ids->any 2 flags; bare flag; "
            "bare + per-id on a different flag; 6 --filter regexes alone / with --error / with --off=r1) x own-severity assignments "
            "(quick: 2 fixed; thorough: the 25 assignments (s1, s2, SEVS[(i1+i2)%5]), i.e. every pair of rules sees all 25 severity pairs); C) 9 languageGlobs settings (two of them re-assign an extension owned by a built-in language: the glob wins) x 36 rule sets x layouts (quick: full; thorough: full, ext=txt, ext=none); "
            "D) {no path, `.`} x every layout x {none, --error, --off=r1}; E) exit-code clause on an .html file (host document + <script>): all 25 own-severity pairs of an html rule and a js rule x 4 contents x with/without another file; F) every sequence of 3 (thorough 3..4) rules over {typescript, python} x {no glob, files: [src/**]} as one multi-document rule file and as one file per rule in that name order (rules of one language interrupted by another language in every way); G) languageGlobs `tsx: [*.page.ts]` splitting the .ts extension: every set of <= 4 files over 2 plain and 3 .page.ts names x {--threads 1, default}. Every source file holds `foo(1)` and every rule is `foo($A)`, so 'rule applied "
            "to file' <=> >= 1 finding (file, ruleId). Non-trivial case = the reference expects >= 1 applied (file, rule) pair AND >= 1 pair excluded by a "
            "rule-side clause (language mismatch, files, ignores, off, filter). Out of the alphabet (statement silent): one id on two different flags, two "
            "bare flags, --filter matching no rule, regexes whose search/full-match differ, globs where `*` crossing `/` would matter, a file claimed by two languageGlobs entries."),
        "samples": samples[:8],
    }
    assumptions = [
        "glob meaning fixed on the closed list: `**/` any directory prefix incl. none, `/**` anything below, `*` any run of non-`/` characters (guard: on every path of the universe the `*`-crosses-`/` reading gives the same answer), literal otherwise; evaluated on the path relative to the project root = cwd",
        "bare flag + per-id flag for another severity: the per-id flag wins for the named id (DESIGN A.4: specific beats general); reported under its own signature suffix `per-id-over-bare`",
        "exit-code clause is judged against the findings the binary actually reported (effective severity from the reference), so a selection error is not reported twice",
        "the `severity` label printed in JSON is only counted (severity_label_disagreements_not_judged), the statement does not mention it",
        "no suppression comments, no .gitignore/hidden files inside the project, no symlinks, threads default; file content fixed `foo(1)`",
        "scratch projects live under /verif/.build/tmp, so /verif/.gitignore (`.build/`, `replays/`, `__pycache__/`, `*.pyc`) is a parent ignore file the walker honours; no name of the alphabet matches it",
    ]
    return rep.finish("exploration", coverage, assumptions)


def replay(binary, path):
    doc = json.load(open(path))
    case = doc["case"]
    case = {k: v for k, v in case.items() if k not in ("violation", "violation_instances")}
    root = vlib.scratch("c15_replay")
    obs, verdicts = run_case(binary, root, case)
    print("case:", json.dumps(case, ensure_ascii=False))
    if case.get("kind") != "table":
        expected, why, eff = ref_select(case)
        print("expected pairs:", sorted(expected))
        print("effective severities:", eff)
    print("observed pairs:", sorted(obs["pairs"]))
    print("observed exit:", obs["code"], "stderr:", obs["stderr"][:200].replace("\n", " | "))
    for sig, detail in verdicts:
        print("STILL-VIOLATES sig=%s %s" % (sig, json.dumps(detail, ensure_ascii=False)))
    want = doc.get("sig")
    still = [s for s, _ in verdicts]
    if want in still or (want is None and still):
        return 1
    if still:
        print("note: recorded sig %r no longer observed, but other violations are" % want)
        return 1
    print("no violation observed")
    return 0


if __name__ == "__main__":
    sys.exit(main(sys.argv[1:]))
