"""C09 part A - all front ends report the same findings for the same rules and text.

Bounded-exhaustive exploration (runs AFTER the Rust binary `c09`, part B, and merges into its
evidence file).  The finite space is

    rule sets  = every subset of size 1..3 of POOL (6 JavaScript rules)
    sources    = every sequence of <= N elements of ELEMENTS (6 "lines", one of them a two-line
                 call), joined with "\n", with and without a final "\n"   (distinct texts)

and for EVERY (rule set, source) pair the findings listed by these front ends are collected:

    lib          the library: RuleConfig + find_all + get_message           (helper `frontends`)
    lsp          textDocument/publishDiagnostics of the real language server (helper `frontends`)
    json.pretty / json.stream / json.compact
                 `ast-grep scan -r rules.yml --json=<style> src`  (one run per rule set and style,
                 all sources are files of `src`)
    stdin        `ast-grep scan -r rules.yml --stdin --json=stream` with the text on stdin
    github       `ast-grep scan -r rules.yml --format github src`
    test         `ast-grep test --skip-snapshot-tests` on a project whose test file lists the
                 source under `valid` / `invalid` (per rule; once in the list the library
                 predicts, once in the wrong list)

Oracle (nothing but the statement): the multiset of (rule id, byte range, message, severity) is
the same in lib, lsp, the three JSON styles and stdin; github agrees on what it carries (level,
rule id, first/last line, message) for the severities it can express; the test verdict of
(rule, source) equals "the library lists >= 1 finding of that rule on that source".
The only "reference model" code is the conversion between positions (line/character <-> byte
offset, byte offset -> 1-based line) and the multiset comparison.
"""
import itertools, json, os, re, subprocess, sys

import vlib

PROP = "C09"
STYLES = ("pretty", "stream", "compact")
SEV_LSP = {1: "error", 2: "warning", 3: "info", 4: "hint"}
GH_LEVEL = {"error": "error", "warning": "warning", "info": "notice"}     # hint: not expressible
TEST_CHUNK = 40        # `ast-grep test` prints one status character per case only for <= 40 cases
HELPER_CHUNK = 130

# ------------------------------------------------------------------------------------------------
# the alphabet
# every rule: language JavaScript, non-empty message that uses meta-variables, no `note`, no `fix` (but r7),
# no `url`, no suppression comments in the sources (C14's subject)
POOL = [
    {"id": "r1", "language": "JavaScript", "severity": "error",
     "message": "found $A and $$$REST", "rule": {"pattern": "foo($A, $$$REST)"}},
    {"id": "r2", "language": "JavaScript", "severity": "warning",          # transformed variable in the message
     "message": "bar arg $UP (was $X)", "rule": {"pattern": "bar($X)"},
     "transform": {"UP": {"convert": {"source": "$X", "toCase": "upperCase"}}}},
    {"id": "r3", "language": "JavaScript", "severity": "info",             # constraints
     "message": "baz number $N", "rule": {"pattern": "baz($N)"},
     "constraints": {"N": {"kind": "number"}}},
    {"id": "r4", "language": "JavaScript", "severity": "hint",             # relational
     "message": "number in qux($$$ARGS)",
     "rule": {"kind": "number", "inside": {"pattern": "qux($$$ARGS)", "stopBy": "end"}}},
    {"id": "r5", "language": "JavaScript", "severity": "info",             # r5 and r6 match the SAME node
     "message": "five $B", "rule": {"pattern": "both($B)"}},
    {"id": "r6", "language": "JavaScript", "severity": "error",
     "message": "six on $F",
     "rule": {"kind": "call_expression", "has": {"field": "function", "pattern": "$F", "regex": "^both$"}}},
    # the only rule WITH a fix (output paths differ for fixable rules); its matches nest
    {"id": "r7", "language": "JavaScript", "severity": "warning",
     "message": "seven $Z", "rule": {"pattern": "sev($Z)"}, "fix": "sev7($Z)"},
]
ELEMENTS = [
    "foo(a,\n b, c)",                 # a match of r1 that spans two lines
    "bar(xy); baz(42)",               # r2 and r3 on one line
    "foo(both(1), qux(2, 3))",        # r1; r5 and r6 on the same node; r4 twice
    "let n = 0",                      # no match
    "\"héé→\"; bar(ü)",   # 2- and 3-byte characters before and inside a match of r2
    "",                               # blank
    "sev(sev(1)); sev(2)",            # nested and sibling matches of the fixable rule r7
]


def rule_sets():
    out = []
    for k in (1, 2, 3):
        for c in itertools.combinations(range(len(POOL)), k):
            out.append([POOL[i] for i in c])
    return out


def build_sources(max_len):
    """distinct texts, shortest generating sequence first; -> list of {"text", "elems", "trailing"}"""
    seen, out = set(), []
    for n in range(max_len + 1):
        for seq in itertools.product(range(len(ELEMENTS)), repeat=n):
            for trailing in (False, True):
                text = "\n".join(ELEMENTS[i] for i in seq) + ("\n" if trailing else "")
                if text not in seen:
                    seen.add(text)
                    out.append({"text": text, "elems": list(seq), "trailing": trailing})
    return out


def rules_yaml(rules):
    return "\n---\n".join(json.dumps(r) for r in rules) + "\n"


# ------------------------------------------------------------------------------------------------
# reference: positions
_TABLES = {}


def _table(text):
    """per text: (lines as str, byte offset of each line start)"""
    t = _TABLES.get(text)
    if t is None:
        lines = text.split("\n")
        starts, off = [], 0
        for l in lines:
            starts.append(off)
            off += len(l.encode()) + 1
        t = _TABLES[text] = (lines, starts)
    return t


def linecol_to_byte(text, line, col):
    """zero-based line, zero-based column counted in characters -> byte offset (None: not a position of text).
    The alphabet has no character outside the Basic Multilingual Plane, so 'characters' = Unicode scalar
    values = UTF-16 code units."""
    lines, starts = _table(text)
    if not (0 <= line < len(lines)) or not (0 <= col <= len(lines[line])):
        return None
    l = lines[line]
    return starts[line] + (col if l.isascii() else len(l[:col].encode()))


def byte_to_line1(data, off):
    """1-based line of a byte offset"""
    return data.count(b"\n", 0, off) + 1


# ------------------------------------------------------------------------------------------------
# reference: multiset comparison.  A finding is [rule id, start, end, message, severity]
def classify(ref, got, range_word="range"):
    """-> list of (what differs, ref finding or None, got finding or None)"""
    ref_left = list(map(tuple, ref))
    if sorted(ref_left, key=repr) == sorted(map(tuple, got), key=repr):
        return []
    got_left = []
    for g in map(tuple, got):
        if g in ref_left:
            ref_left.remove(g)
        else:
            got_left.append(g)
    out = []
    # pair leftovers that agree on everything but one component
    for what, idx in (("severity", (4,)), ("message", (3,)), (range_word, (1, 2)), ("rule-id", (0,))):
        for r in list(ref_left):
            for g in got_left:
                if all(r[i] == g[i] for i in range(5) if i not in idx):
                    out.append((what, r, g))
                    ref_left.remove(r)
                    got_left.remove(g)
                    break
    out += [("missing-finding", r, None) for r in ref_left]
    out += [("extra-finding", None, g) for g in got_left]
    return out


# ------------------------------------------------------------------------------------------------
# parsing what the front ends print
def parse_json_records(out, style):
    text = out.decode("utf-8")
    if style == "stream":
        return [json.loads(l) for l in text.splitlines() if l.strip()]
    v = json.loads(text)
    if not isinstance(v, list):
        raise ValueError("not an array")
    return v


def record_to_finding(rec, text):
    """-> (finding, anomaly or None)"""
    s, e = rec["range"]["byteOffset"]["start"], rec["range"]["byteOffset"]["end"]
    f = [rec["ruleId"], s, e, rec["message"], rec["severity"]]
    st, en = rec["range"]["start"], rec["range"]["end"]
    lc = [linecol_to_byte(text, st["line"], st["column"]), linecol_to_byte(text, en["line"], en["column"])]
    if lc != [s, e]:
        return f, {"byteOffset": [s, e], "start": st, "end": en, "line_column_as_bytes": lc}
    return f, None


GH_LINE = re.compile(r"^::(\w+) file=([^,]*),line=(\d+),endLine=(\d+),title=(.*?)::(.*)$")
ANSI = re.compile(r"\x1b\[[0-9;]*m")
TEST_LINE = re.compile(r"^(PASS|FAIL|SKIP) (\S+)  (.*)$")


def src_name(i):
    return "src/s%05d.js" % i


def src_index(path):
    m = re.match(r"^(?:\./)?src/s(\d{5})\.js$", path)
    return int(m.group(1)) if m else None


# ------------------------------------------------------------------------------------------------
# running the front ends
def scan_argv(rules_file, frontend):
    if frontend == "github":
        return ["scan", "-r", rules_file, "--format", "github", "src"]
    if frontend == "stdin":
        return ["scan", "-r", rules_file, "--stdin", "--json=stream"]
    return ["scan", "-r", rules_file, "--json=" + frontend.split(".")[1], "src"]


def run_scan_dir(binary, base, rules_file, frontend, texts):
    """one run over the directory `src`. -> {"per_src": {i: [finding...]}, "anomalies": [(i, sig, detail)],
    "fail": (sig, detail) or None}"""
    argv = scan_argv(rules_file, frontend)
    code, out, err = vlib.run_cli(binary, argv, cwd=base, timeout=600)
    res = {"per_src": {}, "anomalies": [], "fail": None, "argv": argv}
    crash = vlib.is_crash(code, err)
    if crash:
        res["fail"] = ("crash:%s:%s" % (crash, frontend), {"exit": code, "stderr": err.decode("utf-8", "replace")[-400:]})
        return res
    if code not in (0, 1):
        res["fail"] = ("run-failed:%s:exit=%s" % (frontend, code), {"exit": code, "stderr": err.decode("utf-8", "replace")[-400:]})
        return res
    try:
        if frontend == "github":
            for line in out.decode("utf-8").splitlines():
                m = GH_LINE.match(line)
                i = src_index(m.group(2)) if m else None
                if i is None or i >= len(texts):
                    raise ValueError("line not understood: " + line[:200])
                res["per_src"].setdefault(i, []).append([m.group(5), int(m.group(3)), int(m.group(4)), m.group(6), m.group(1)])
        else:
            for rec in parse_json_records(out, frontend.split(".")[1]):
                i = src_index(rec["file"])
                if i is None or i >= len(texts):
                    raise ValueError("record for unknown file " + str(rec.get("file")))
                f, anomaly = record_to_finding(rec, texts[i])
                res["per_src"].setdefault(i, []).append(f)
                if anomaly:
                    res["anomalies"].append((i, "cli.%s:line-column!=byteOffset" % frontend, anomaly))
    except Exception as e:      # noqa
        res["per_src"] = {}
        res["fail"] = ("output:unparseable:" + frontend, {"error": repr(e)[:300], "stdout_head": out.decode("utf-8", "replace")[:300]})
    return res


def run_stdin(binary, base, rules_file, text):
    """-> {"findings": [...], "anomalies": [(sig, detail)], "fail": (sig, detail) or None}"""
    code, out, err = vlib.run_cli(binary, scan_argv(rules_file, "stdin"), cwd=base, stdin=text.encode(), timeout=120)
    res = {"findings": [], "anomalies": [], "fail": None}
    crash = vlib.is_crash(code, err)
    if crash:
        res["fail"] = ("crash:%s:stdin" % crash, {"exit": code, "stderr": err.decode("utf-8", "replace")[-400:]})
        return res
    if code not in (0, 1):
        res["fail"] = ("run-failed:stdin:exit=%s" % code, {"exit": code, "stderr": err.decode("utf-8", "replace")[-400:]})
        return res
    try:
        for rec in parse_json_records(out, "stream"):
            f, anomaly = record_to_finding(rec, text)
            res["findings"].append(f)
            if anomaly:
                res["anomalies"].append(("stdin:line-column!=byteOffset", anomaly))
    except Exception as e:      # noqa
        res["findings"] = []
        res["fail"] = ("output:unparseable:stdin", {"error": repr(e)[:300], "stdout_head": out.decode("utf-8", "replace")[:300]})
    return res


def run_helper(helper, workdir, tag, rules, texts):
    """library + language server for every text. -> list of {"lib": [...], "lsp": [...], "lsp_published": bool,
    "fail": [(sig, detail)...]}  or raises MachineryError text via vlib.machinery"""
    inp = os.path.join(workdir, "fe_%s_in.json" % tag)
    outp = os.path.join(workdir, "fe_%s_out.json" % tag)
    y = rules_yaml(rules)
    json.dump({"cases": [{"rules": y, "file": "a.js", "text": t} for t in texts]}, open(inp, "w"))
    try:
        r = subprocess.run([helper, inp, outp], env=vlib.run_env(0), stdout=subprocess.PIPE, stderr=subprocess.PIPE, timeout=1800)
        code, err = r.returncode, r.stderr
    except subprocess.TimeoutExpired as e:
        code, err = "timeout", e.stderr or b""
    if code != 0:
        crash = vlib.is_crash(code, err) or "exit %s" % code
        return [{"lib": [], "lsp": [], "lsp_published": False,
                 "fail": [("crash:%s:helper(lib+lsp)" % crash, {"stderr": err.decode("utf-8", "replace")[-400:]})]} for _ in texts]
    results = json.load(open(outp))["results"]
    os.remove(inp)
    os.remove(outp)
    out = []
    for t, res in zip(texts, results):
        o = {"lib": [], "lsp": [], "lsp_published": False, "fail": []}
        lib, lsp = res["lib"], res["lsp"]
        if "panic" in lib:
            o["fail"].append(("crash:panic:lib", {"panic": str(lib["panic"])[:300]}))
        elif "error" in lib:
            vlib.machinery("the rule alphabet does not load in the library: " + str(lib["error"])[:300])
        else:
            for r in lib["rules"]:
                for f in r["findings"]:
                    o["lib"].append([r["id"], f["range"][0], f["range"][1], f["message"], r["severity"].lower()])
        if "panic" in lsp:
            o["fail"].append(("crash:panic:lsp", {"panic": str(lsp["panic"])[:300]}))
        elif "error" in lsp:
            vlib.machinery("the rule alphabet does not load in the language server: " + str(lsp["error"])[:300])
        else:
            o["lsp_published"] = bool(lsp.get("published"))
            for d in lsp.get("diagnostics") or []:
                rg = d["range"]
                s = linecol_to_byte(t, rg["start"]["line"], rg["start"]["character"])
                e = linecol_to_byte(t, rg["end"]["line"], rg["end"]["character"])
                if s is None or e is None:
                    o["fail"].append(("lsp:range-not-a-position-of-the-text", {"diagnostic": d}))
                    continue
                o["lsp"].append([d.get("code"), s, e, d.get("message"), SEV_LSP.get(d.get("severity"), d.get("severity"))])
        out.append(o)
    return out


def run_test(binary, workdir, tag, rule, texts, in_valid):
    """`ast-grep test --skip-snapshot-tests` on a project with ONE rule and ONE test file that lists
    texts[i] under `valid` if in_valid[i] else under `invalid`.
    -> {"status": [char per text] or None, "exit": code, "fail": (sig, detail) or None}"""
    root = os.path.join(workdir, "t_" + tag)
    valid = [i for i in range(len(texts)) if in_valid[i]]
    invalid = [i for i in range(len(texts)) if not in_valid[i]]
    vlib.write_tree(root, {
        "sgconfig.yml": json.dumps({"ruleDirs": ["rules"], "testConfigs": [{"testDir": "tests"}]}) + "\n",
        "rules/%s.yml" % rule["id"]: json.dumps(rule) + "\n",
        "tests/%s-test.yml" % rule["id"]: json.dumps({"id": rule["id"], "valid": [texts[i] for i in valid],
                                                       "invalid": [texts[i] for i in invalid]}) + "\n",
    })
    argv = ["test", "--skip-snapshot-tests"]
    code, out, err = vlib.run_cli(binary, argv, cwd=root, timeout=300)
    res = {"status": None, "exit": code, "fail": None}
    crash = vlib.is_crash(code, err)
    if crash:
        res["fail"] = ("crash:%s:test" % crash, {"exit": code, "stderr": err.decode("utf-8", "replace")[-400:]})
        return res
    lines = [TEST_LINE.match(ANSI.sub("", l)) for l in out.decode("utf-8", "replace").splitlines()]
    lines = [m for m in lines if m and m.group(2) == rule["id"]]
    if len(lines) != 1 or len(lines[0].group(3)) != len(texts) or lines[0].group(1) == "SKIP":
        res["fail"] = ("test-verdict:report-not-understood", {"exit": code, "stdout_tail": ANSI.sub("", out.decode("utf-8", "replace"))[-400:],
                                                             "stderr": err.decode("utf-8", "replace")[-300:]})
        return res
    chars = lines[0].group(3)
    status = [None] * len(texts)
    for pos, i in enumerate(valid + invalid):       # the report lists valid cases first, then invalid ones
        status[i] = chars[pos]
    res["status"] = status
    res["word"] = lines[0].group(1)
    return res


# ------------------------------------------------------------------------------------------------
# the oracle for one (rule set, source) pair
def judge_pair(rules, text, obs):
    """obs: {"lib": [...], "lsp": [...], "lsp_published": bool, "json.pretty": [...], "json.stream": [...],
    "json.compact": [...], "github": [...], "stdin": [...] or absent}.
    -> (list of (sig, detail), counts {front end: findings compared})"""
    out, counts = [], {}
    lib = obs["lib"]
    data = text.encode()
    sev_of = {r["id"]: r["severity"] for r in rules}

    def cmp(name_sig, ref, got, range_word="range"):
        for what, r, g in classify(ref, got, range_word):
            out.append(("%s:%s" % (name_sig, what), {"expected": list(r) if r else None, "observed": list(g) if g else None}))

    for st in STYLES:
        k = "json." + st
        if k in obs:
            counts[k] = len(obs[k]) + len(lib)
            cmp("cli.%s!=lib" % k, lib, obs[k])
    if "lsp" in obs:
        counts["lsp"] = len(obs["lsp"]) + len(lib)
        cmp("lsp!=lib", lib, obs["lsp"])
    if "stdin" in obs and "json.stream" in obs:
        counts["stdin"] = len(obs["stdin"]) + len(obs["json.stream"])
        cmp("stdin!=file", obs["json.stream"], obs["stdin"])
    if "github" in obs:
        # what the GitHub format carries: level, title = rule id, line / endLine (1-based), message.
        # severity hint cannot be expressed (the format has error / warning / notice): findings of hint
        # rules are not required; a line printed for one must still be a real finding.
        proj = lambda f: (f[0], byte_to_line1(data, f[1]), byte_to_line1(data, f[2]), f[3])   # noqa
        ref = [list(proj(f)) + [GH_LEVEL[f[4]]] for f in lib if f[4] in GH_LEVEL]
        got = [g for g in obs["github"] if sev_of.get(g[0]) != "hint"]
        counts["github"] = len(ref) + len(got)
        counts["github_hint_findings_not_expressible"] = sum(1 for f in lib if f[4] not in GH_LEVEL)
        cmp("github!=lib", ref, got, "line-range")
        hint_ref = [proj(f) for f in lib if f[4] not in GH_LEVEL]
        for g in obs["github"]:
            if sev_of.get(g[0]) == "hint":
                if tuple(g[:4]) in hint_ref:
                    hint_ref.remove(tuple(g[:4]))
                else:
                    out.append(("github!=lib:extra-finding", {"expected": None, "observed": g}))
    return out, counts


def judge_test(lib_nonempty, in_valid, status):
    """one (rule, source): the list it was put in and the status character printed for it -> sig or None"""
    if status == ".":
        if in_valid and lib_nonempty:
            return "test-verdict!=lib:matching-source-accepted-as-valid"
        if not in_valid and not lib_nonempty:
            return "test-verdict!=lib:invalid-source-accepted"
        return None
    if status == "N" and in_valid:
        return None if lib_nonempty else "test-verdict!=lib:valid-source-rejected"
    if status == "M" and not in_valid:
        return "test-verdict!=lib:matching-source-reported-missing" if lib_nonempty else None
    return "test-verdict:unexpected-status-%s-in-%s-list" % (status, "valid" if in_valid else "invalid")


# ------------------------------------------------------------------------------------------------
def find_helper():
    p = os.environ.get("VERIF_FRONTENDS")
    if p:
        if not os.path.exists(p):
            vlib.machinery("VERIF_FRONTENDS names no file: " + p)
        return p
    if vlib.REPO != "/repo":
        sys.stderr.write("note: VERIF_REPO is set but VERIF_FRONTENDS is not: library and language server are built from /repo\n")
    r = subprocess.run(["cargo", "build", "--offline", "--quiet", "--bin", "frontends"],
                       cwd=os.path.join(vlib.VERIF, "harness"), env=dict(os.environ, CARGO_NET_OFFLINE="true"),
                       stdout=subprocess.PIPE, stderr=subprocess.STDOUT, text=True)
    if r.returncode != 0:
        sys.stderr.write(r.stdout[-4000:])
        vlib.machinery("building the helper `frontends` failed")
    return os.path.join(vlib.BUILD, "harness", "debug", "frontends")


def explore(binary, helper, base, rsets, texts, stdin_ok, test_rules):
    """run every front end. rsets: list of rule lists; texts: list of str; stdin_ok: list of bool per text;
    test_rules: list of (rule, index of a rule set that contains it).
    -> dict with all observations"""
    vlib.write_tree(base, {src_name(i): t for i, t in enumerate(texts)})
    os.makedirs(os.path.join(base, "src"), exist_ok=True)
    for k, rs in enumerate(rsets):
        vlib.write_tree(base, {"rs%02d.yml" % k: rules_yaml(rs)})
    work = os.path.join(base, "work")
    os.makedirs(work, exist_ok=True)

    chunks = [list(range(a, min(a + HELPER_CHUNK, len(texts)))) for a in range(0, len(texts), HELPER_CHUNK)]
    jobs = []
    for k in range(len(rsets)):
        for c, idx in enumerate(chunks):
            jobs.append(("helper", k, c, idx))
    for k in range(len(rsets)):
        for fe in ["json." + s for s in STYLES] + ["github"]:
            jobs.append(("scan", k, fe))
    stdin_idx = [i for i in range(len(texts)) if stdin_ok[i]]
    for k in range(len(rsets)):
        for a in range(0, len(stdin_idx), 32):
            jobs.append(("stdin", k, stdin_idx[a:a + 32]))

    def do(job):
        if job[0] == "helper":
            _, k, c, idx = job
            return run_helper(helper, work, "%02d_%03d" % (k, c), rsets[k], [texts[i] for i in idx])
        if job[0] == "scan":
            _, k, fe = job
            return run_scan_dir(binary, base, "rs%02d.yml" % k, fe, texts)
        _, k, idx = job
        return [run_stdin(binary, base, "rs%02d.yml" % k, texts[i]) for i in idx]

    results = vlib.pmap(do, jobs, workers=16)
    ob = {"helper": {}, "scan": {}, "stdin": {}, "runs": 0, "helper_runs": 0, "helper_cases": 0}
    for job, res in zip(jobs, results):
        if job[0] == "helper":
            _, k, c, idx = job
            ob["helper_runs"] += 1
            ob["helper_cases"] += len(idx)
            for i, r in zip(idx, res):
                ob["helper"][(k, i)] = r
        elif job[0] == "scan":
            ob["runs"] += 1
            ob["scan"][(job[1], job[2])] = res
        else:
            ob["runs"] += len(job[2])
            for i, r in zip(job[2], res):
                ob["stdin"][(job[1], i)] = r

    # the test front end: per rule, the sources in chunks of 40, once in the predicted list, once in the wrong one
    tjobs = []
    for rule, k in test_rules:
        nonempty = [any(f[0] == rule["id"] for f in ob["helper"][(k, i)]["lib"]) for i in range(len(texts))]
        for a in range(0, len(texts), TEST_CHUNK):
            idx = list(range(a, min(a + TEST_CHUNK, len(texts))))
            for mode in ("right", "wrong"):
                in_valid = [(not nonempty[i]) if mode == "right" else nonempty[i] for i in idx]
                tjobs.append((rule, k, idx, mode, in_valid, [nonempty[i] for i in idx]))

    def dot(j):
        rule, k, idx, mode, in_valid, _ = j
        return run_test(binary, work, "%s_%s_%05d" % (rule["id"], mode, idx[0]), rule, [texts[i] for i in idx], in_valid)

    ob["test"] = list(zip(tjobs, vlib.pmap(dot, tjobs, workers=16)))
    ob["runs"] += len(tjobs)
    return ob


def judge_all(rep, ob, rsets, texts, tier):
    """-> statistics. Violations go to rep (one per (pair, sig))."""
    stats = {"pairs": 0, "per_front_end": {}, "nontrivial": 0, "findings_hist": {}, "lsp_not_published": 0,
             "test_verdicts": 0, "test_status_seen": {}, "samples": [], "github_hint_unjudged": 0}

    def bump(fe, pairs, n):
        d = stats["per_front_end"].setdefault(fe, {"pairs_judged": 0, "findings_compared": 0})
        d["pairs_judged"] += pairs
        d["findings_compared"] += n

    def case_of(k, i, extra=None):
        c = {"rules": rsets[k], "text": texts[i], "tier": tier}
        if extra:
            c.update(extra)
        return c

    # runs that failed as a whole
    for (k, fe), res in sorted(ob["scan"].items()):
        if res["fail"]:
            sig, detail = res["fail"]
            rep.violation(sig, {"rules": rsets[k], "text": None, "tier": tier, "argv": res["argv"], "violation": [detail],
                                "note": "the run over the whole source directory of this tier failed"})
        for i, sig, detail in res["anomalies"]:
            rep.violation(sig, case_of(k, i, {"frontend": fe, "violation": [detail]}))
    sample_keys = set()
    for k in range(len(rsets)):
        for i in range(len(texts)):
            h = ob["helper"][(k, i)]
            obs = {"lib": h["lib"], "lsp": h["lsp"], "lsp_published": h["lsp_published"]}
            verdicts = list(h["fail"])
            if any(s.startswith("crash:") and ("lib" in s or "helper" in s) for s, _ in verdicts):
                for sig, detail in verdicts:
                    rep.violation(sig, case_of(k, i, {"violation": [detail]}))
                continue            # no baseline for this pair
            if any(s == "crash:panic:lsp" for s, _ in verdicts):
                del obs["lsp"]
            if not h["lsp_published"]:
                stats["lsp_not_published"] += 1
            for fe in ["json." + s for s in STYLES] + ["github"]:
                res = ob["scan"][(k, fe)]
                if not res["fail"]:
                    obs[fe] = res["per_src"].get(i, [])
            sres = ob["stdin"].get((k, i))
            if sres is not None:
                if sres["fail"]:
                    verdicts.append(sres["fail"])
                else:
                    obs["stdin"] = sres["findings"]
                    verdicts += sres["anomalies"]
            v, counts = judge_pair(rsets[k], texts[i], obs)
            verdicts += v
            stats["pairs"] += 1
            stats["github_hint_unjudged"] += counts.pop("github_hint_findings_not_expressible", 0)
            for fe, n in counts.items():
                bump(fe, 1, n)
            nrules = len({f[0] for f in obs["lib"]})
            nf = len(obs["lib"])
            hk = "%d findings / %d rules" % (nf, nrules)
            stats["findings_hist"][hk] = stats["findings_hist"].get(hk, 0) + 1
            if nf >= 2 and nrules >= 2:
                stats["nontrivial"] += 1
                key = (len(rsets[k]), nrules)
                if key not in sample_keys and len(stats["samples"]) < 6 and len(texts[i]) < 80:
                    sample_keys.add(key)
                    stats["samples"].append({"rule_ids": [r["id"] for r in rsets[k]], "text": texts[i],
                                             "findings_[id,start,end,message,severity]": obs["lib"],
                                             "listed_by": {fe: len(v2) for fe, v2 in obs.items() if isinstance(v2, list)}})
            by_sig = {}
            for sig, detail in verdicts:
                by_sig.setdefault(sig, []).append(detail)
            for sig, details in by_sig.items():
                rep.violation(sig, case_of(k, i, {"violation": details[:5], "violation_instances": len(details)}))
    # test verdicts
    for (rule, k, idx, mode, in_valid, nonempty), res in ob["test"]:
        if res["fail"]:
            sig, detail = res["fail"]
            rep.violation(sig, {"rules": [rule], "text": None, "tier": tier, "frontend": "test", "placement": mode,
                                "sources": [texts[i] for i in idx], "in_valid": in_valid, "violation": [detail]})
            continue
        any_fail = False
        for pos, i in enumerate(idx):
            st = res["status"][pos]
            stats["test_status_seen"][st] = stats["test_status_seen"].get(st, 0) + 1
            stats["test_verdicts"] += 1
            any_fail = any_fail or st != "."
            sig = judge_test(nonempty[pos], in_valid[pos], st)
            if sig:
                rep.violation(sig, {"rules": [rule], "text": texts[i], "tier": tier, "frontend": "test",
                                    "violation": [{"listed_under": "valid" if in_valid[pos] else "invalid", "status_printed": st,
                                                   "library_lists_a_finding": nonempty[pos]}]})
        if any_fail != (res["exit"] != 0):
            rep.violation("test-verdict:exit-code-vs-report", {"rules": [rule], "text": None, "tier": tier, "frontend": "test",
                          "sources": [texts[i] for i in idx], "in_valid": in_valid,
                          "violation": [{"exit": res["exit"], "status_line": "".join(res["status"])}]})
        bump("test", len(idx), len(idx))
    return stats


def bounds(tier):
    return {"max_elements": 3 if tier == "quick" else 4, "stdin_max_elements": 2 if tier == "quick" else 4}


def many_test_files(binary, base, rep, n_max):
    """`ast-grep test` over a project with N rules and N test files, for every N in 1..n_max: every
    rule test gets exactly one verdict line, the verdict predicted by construction (test i lists its
    sources correctly unless i % 3 == 0, then valid and invalid are swapped), the summary counts
    and the exit code agree. The driver fans the test files out to worker threads, so the number of
    files matters (a handful of files per run never fills more than one chunk per thread)."""
    def one(n):
        tree = {"sgconfig.yml": json.dumps({"ruleDirs": ["rules"], "testConfigs": [{"testDir": "tests"}]}) + "\n"}
        want = {}
        for i in range(n):
            rid = "r%02d" % i
            tree["rules/%s.yml" % rid] = json.dumps({"id": rid, "language": "JavaScript", "rule": {"pattern": "f%d($A)" % i}}) + "\n"
            good, bad = ["g()"], ["f%d(1)" % i]
            wrong = i % 3 == 0
            tree["tests/%s-test.yml" % rid] = json.dumps({"id": rid, "valid": bad if wrong else good, "invalid": good if wrong else bad}) + "\n"
            want[rid] = "FAIL" if wrong else "PASS"
        proj = os.path.join(base, "many_tests_%02d" % n)
        vlib.write_tree(proj, tree)
        code, out, err = vlib.run_cli(binary, ["test", "--skip-snapshot-tests"], proj, timeout=120)
        return n, want, code, ANSI.sub("", out.decode("utf-8", "replace")), err
    judged = 0
    for n, want, code, text, err in vlib.pmap(one, list(range(1, n_max + 1)), workers=8):
        crash = vlib.is_crash(code, err)
        if crash:
            rep.violation("crash:%s:test" % crash, {"frontend": "test", "test_files": n, "stderr": err.decode("utf-8", "replace")[-300:]})
            continue
        got = {}
        for line in text.splitlines():
            m = re.match(r"^(PASS|FAIL) (r\d\d)\b", line.strip())
            if m:
                got.setdefault(m.group(2), []).append(m.group(1))
        judged += n
        for rid, w in sorted(want.items()):
            g = got.get(rid, [])
            if g != [w]:
                kind = "rule-test-without-verdict" if not g else "rule-test-with-several-verdicts" if len(g) > 1 else "verdict-differs"
                rep.violation("test-verdict:many-files:%s" % kind, {"frontend": "test", "test_files": n, "rule": rid, "expected": w, "reported": g, "stdout_tail": text[-500:]})
                break
        any_wrong = any(w == "FAIL" for w in want.values())
        if (code != 0) != any_wrong:
            rep.violation("test-verdict:many-files:exit-code-vs-wrong-tests", {"frontend": "test", "test_files": n, "exit": code, "wrong_tests": sum(1 for w in want.values() if w == "FAIL")})
    return judged


def main(argv):
    args = vlib.parse_args(argv)
    rep = vlib.Reporter(PROP, args)
    binary = vlib.build_cli()
    helper = find_helper()
    if args["replay"]:
        return replay(binary, helper, args["replay"])
    tier = args["tier"]
    b = bounds(tier)
    sources = build_sources(b["max_elements"])
    texts = [s["text"] for s in sources]
    stdin_ok = [len(s["elems"]) <= b["stdin_max_elements"] for s in sources]
    rsets = rule_sets()
    singles = {rs[0]["id"]: k for k, rs in enumerate(rsets) if len(rs) == 1}
    base = vlib.scratch("c09_cli_" + tier)
    ob = explore(binary, helper, base, rsets, texts, stdin_ok, [(r, singles[r["id"]]) for r in POOL])
    stats = judge_all(rep, ob, rsets, texts, tier)
    many_judged = many_test_files(binary, base, rep, 60 if tier == "thorough" else 40)
    if not rep.count():
        import shutil
        shutil.rmtree(base, ignore_errors=True)
    if stats["nontrivial"] == 0:
        sys.stderr.write("note: no (rule set, source) pair has >= 2 findings of >= 2 rules\n")

    n_stdin = sum(stdin_ok)
    coverage = {
        "evaluations": stats["pairs"],
        "distinct_nontrivial": stats["nontrivial"],
        "cli_runs": ob["runs"],
        "helper_runs": ob["helper_runs"],
        "helper_cases": ob["helper_cases"],
        "rule_sets": len(rsets),
        "distinct_sources": len(texts),
        "pairs_judged": stats["pairs"],
        "per_front_end": stats["per_front_end"],
        "test_verdicts_judged": stats["test_verdicts"],
        "rule_tests_judged_in_many_file_projects": many_judged,
        "test_status_characters_seen": stats["test_status_seen"],
        "github_findings_of_hint_rules_not_judged": stats["github_hint_unjudged"],
        "lsp_pairs_without_publication": stats["lsp_not_published"],
        "pairs_by_(findings,rules)": stats["findings_hist"],
        "exhaustive": True,
        "bounds": {"rule_pool": [r["id"] + ":" + r["severity"] for r in POOL], "rule_set_sizes": [1, 2, 3],
                   "elements": ELEMENTS, "max_elements": b["max_elements"], "trailing_newline": [False, True],
                   "stdin_max_elements": b["stdin_max_elements"], "stdin_sources": n_stdin,
                   "json_styles": list(STYLES)},
        "rule": (
            "Complete product: every subset of size 1..3 of a pool of 6 JavaScript rules (41 rule sets; severities error/warning/info/hint; "
            "messages with $A, $$$REST, a transformed variable, a constraint, a relational rule binding $$$ARGS, two rules on the same node) "
            "x every distinct text that is a sequence of <= %d elements of a 6-element line alphabet (two-line match, two rules on a line, "
            "nested matches incl. same-node pair, no match, 2-/3-byte characters before and inside a match, blank) joined by LF, with and "
            "without a final LF. For each pair the findings of lib, lsp, scan --json=pretty|stream|compact on a file, scan --format github "
            "are collected (one CLI run per rule set and style over a directory holding all sources; one helper case per pair) and compared "
            "as multisets of (rule id, byte range, message, severity); scan --stdin --json=stream is run for every pair whose text has <= %d "
            "elements (one process per pair; this is the only front end with a smaller bound in the quick tier, the bound is enumerated "
            "completely) and compared with the file scan; `ast-grep test --skip-snapshot-tests` is run per rule on every source, 40 sources "
            "per run, once with every source in the list the library predicts (all must pass, exit 0) and once in the wrong list (each must "
            "be reported N / M, exit != 0). Non-trivial pair = the library lists >= 2 findings coming from >= 2 different rules. "
            "evaluations = (rule set, source) pairs judged." % (b["max_elements"], b["stdin_max_elements"])),
        "samples": stats["samples"],
    }
    assumptions = [
        "part A: the alphabet keeps `message` non-empty and `note`, `url`, `fix` absent, so the documented LSP decorations (rule id as message when `message` is empty; `\\n\\n<note>` appended) never apply and messages are compared verbatim",
        "part A: LSP positions are converted with character = Unicode scalar value; the alphabet contains no character outside the BMP, so the UTF-16 reading gives the same offsets",
        "part A: GitHub format carries level, title (= rule id), line/endLine (1-based) and message, no columns; error/warning/info are required as error/warning/notice; findings of `hint` rules cannot be expressed and are not required (counted), a printed line for one must still be a library finding",
        "part A: the library baseline is per-rule find_all + get_message (helper `frontends`), CLI and LSP use the combined scan; exit codes of `scan` other than 0/1 are reported as run-failed, the meaning of 0 vs 1 is C15's subject",
        "part A: the test verdict of (rule, source) is read from the per-case status characters of the report (`.`, `N`, `M`; valid cases first), which ast-grep prints for test files with <= 40 cases",
        "part A: no suppression comments (C14), one language (JavaScript) so that --stdin can derive the language, LF line ends only (C16 covers CRLF positions)",
    ]
    return rep.finish("model_checking", coverage, assumptions, merge_into_existing=True)


# ------------------------------------------------------------------------------------------------
def replay(binary, helper, path):
    doc = json.load(open(path))
    case = doc["case"]
    rules, tier = case["rules"], case.get("tier", "quick")
    if case.get("text") is not None:
        texts = [case["text"]]
    elif case.get("sources"):
        texts = list(case["sources"])
    else:
        texts = [s["text"] for s in build_sources(bounds(tier)["max_elements"])]
    base = vlib.scratch("c09_cli_replay")

    class Collect:
        def __init__(self):
            self.items = []

        def violation(self, sig, c):
            self.items.append((sig, c))

    col = Collect()
    ob = explore(binary, helper, base, [rules], texts, [True] * len(texts), [(r, 0) for r in rules])
    judge_all(col, ob, [rules], texts, tier)
    print("rules:", json.dumps(rules, ensure_ascii=False))
    if len(texts) == 1:
        print("text:", json.dumps(texts[0], ensure_ascii=False))
        h = ob["helper"][(0, 0)]
        print("lib    :", json.dumps(h["lib"], ensure_ascii=False))
        print("lsp    :", json.dumps(h["lsp"], ensure_ascii=False), "(published)" if h["lsp_published"] else "(nothing published)")
        for fe in ["json." + s for s in STYLES] + ["github"]:
            res = ob["scan"][(0, fe)]
            print("%-7s:" % fe.replace("json.", ""), json.dumps(res["per_src"].get(0, []), ensure_ascii=False), res["fail"] or "")
        s = ob["stdin"][(0, 0)]
        print("stdin  :", json.dumps(s["findings"], ensure_ascii=False), s["fail"] or "")
        for (rule, k, idx, mode, in_valid, nonempty), res in ob["test"]:
            print("test   : rule %s listed under %s -> status %s exit %s" % (
                rule["id"], "valid" if in_valid[0] else "invalid", res["status"], res["exit"]), res["fail"] or "")
    else:
        print("sources: %d texts" % len(texts))
    sigs = []
    for sig, c in col.items:
        sigs.append(sig)
        print("STILL-VIOLATES sig=%s text=%s %s" % (sig, json.dumps(c.get("text"), ensure_ascii=False),
                                                    json.dumps(c.get("violation"), ensure_ascii=False)[:600]))
    want = doc.get("sig")
    if sigs:
        if want not in sigs:
            print("note: recorded sig %r no longer observed, but other violations are" % want)
        return 1
    print("no violation observed")
    return 0


if __name__ == "__main__":
    sys.exit(main(sys.argv[1:]))
