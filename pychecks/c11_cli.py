"""C11 (CLI layer) - no YAML makes ast-grep crash: bad config is an error, good config never panics.

The loaders that exist only in the command-line program are driven through the REAL binary:
`sgconfig.yml` (ruleDirs, utilDirs, testConfigs, languageGlobs, languageInjections,
customLanguages), rule-test files, snapshot files, global utility rule files found through
`utilDirs`, and rule files through `scan -c`, `scan -r` and `test -c`.

Bounded-exhaustive slot substitution, the same scheme as the library part (harness c11.rs): a
valid base project; for EVERY slot (every node of the document tree) of every CLI-only document
EVERY value of the nasty alphabet (quick: the reduced alphabet of 6 values); for map slots an added key per
nasty string; plus every global-utility reference cycle of length 1 (thorough: 1..3) over the
14 operator positions, loaded through `utilDirs`; plus the rule files that the library part found
to crash, routed through every command; plus raw byte strings in every file kind.

Oracle (nothing more than the statement): the process never panics (exit 101 / "panicked at"),
never dies on a signal (stack overflow -> SIGABRT/SIGSEGV) and never hangs (10 s). Any ordinary
exit code with or without an error message is fine.

This module MERGES its evidence into /verif/evidence/C11.json written by the Rust part.
"""
import itertools, json, os, re, sys

import vlib

PROP = "C11"
HANG_S = 10


# ------------------------------------------------------------------------------------------
# YAML emission (flow style = JSON syntax, plus raw plain scalars JSON cannot express)
class Raw:
    def __init__(self, text):
        self.text = text

    def __eq__(self, o):
        return isinstance(o, Raw) and o.text == self.text

    def __repr__(self):
        return "Raw(%s)" % self.text


def emit(v):
    if isinstance(v, Raw):
        return v.text
    if isinstance(v, str):
        return json.dumps(v, ensure_ascii=False)
    if v is None:
        return "null"
    if v is True:
        return "true"
    if v is False:
        return "false"
    if isinstance(v, int):
        return str(v)
    if isinstance(v, list):
        return "[" + ", ".join(emit(x) for x in v) + "]"
    if isinstance(v, dict):
        return "{" + ", ".join(json.dumps(k, ensure_ascii=False) + ": " + emit(x) for k, x in v.items()) + "}"
    raise TypeError(type(v))


def short(v):
    s = emit(v)
    return s if len(s) <= 40 else "%s..(%d chars)" % (s[:24], len(s))


NASTY_STRINGS = ["", "$", "$$$", "$A", "$$$A", "é", "(", "[", "\\", "*", "a{", "(?P<", "99999999999",
                 "99999999999n+1", "-n+", "n n", "2147483648", "a" * 300, "a\x01b"]
NASTY_NUMBERS = [Raw("0"), Raw("-1"), Raw("2147483648"), Raw("9223372036854775808"), Raw("1e999"), Raw(".nan"), Raw("-0")]
NASTY_TYPES = [None, [], {}, True, [[]]]
NASTY_ALL = NASTY_STRINGS + NASTY_NUMBERS + NASTY_TYPES
NASTY_REDUCED = ["", "$A", "é", Raw("-1"), None, []]
# path-like slots additionally get path-shaped values
# ("-" is what the directory walker takes for standard input; "/dev/null" is a character device)
PATHY = ["..", "/", "rules/r1.yml", "nonexistent", ".", "tests/../rules", "-", "/dev/null"]


def paths_of(v, cur=()):
    out = [cur]
    if isinstance(v, list):
        for i, c in enumerate(v):
            out += paths_of(c, cur + (i,))
    elif isinstance(v, dict):
        for k, c in v.items():
            out += paths_of(c, cur + (k,))
    return out


def get_at(v, p):
    for s in p:
        v = v[s]
    return v


def deep(v):
    return json.loads(json.dumps(v)) if not _has_raw(v) else _copy(v)


def _has_raw(v):
    if isinstance(v, Raw):
        return True
    if isinstance(v, list):
        return any(_has_raw(x) for x in v)
    if isinstance(v, dict):
        return any(_has_raw(x) for x in v.values())
    return False


def _copy(v):
    if isinstance(v, list):
        return [_copy(x) for x in v]
    if isinstance(v, dict):
        return {k: _copy(x) for k, x in v.items()}
    return v


def set_at(doc, p, val):
    doc = _copy(doc)
    if not p:
        return val
    cur = doc
    for s in p[:-1]:
        cur = cur[s]
    cur[p[-1]] = val
    return doc


def add_key(doc, p, key):
    doc = _copy(doc)
    cur = get_at(doc, p)
    first = next(iter(cur.values()))
    cur[key] = _copy(first)
    return doc


def pstr(p):
    return "/" + "/".join(str(s) for s in p)


def substitutions(doc, alphabet, pathy_slots=(), max_depth=None):
    """every single substitution: (description, new doc, substituted string values)"""
    out = []
    for p in paths_of(doc):
        if max_depth is not None and len(p) > max_depth:
            continue
        cur = get_at(doc, p)
        vals = list(alphabet)
        if p and (p[-1] in pathy_slots or (len(p) > 1 and p[-2] in pathy_slots)):
            vals += PATHY
        for v in vals:
            if type(v) == type(cur) and v == cur:
                continue
            out.append(("%s := %s" % (pstr(p), short(v)), set_at(doc, p, v), [v] if isinstance(v, str) else ([v.text] if isinstance(v, Raw) else [])))
        if isinstance(cur, dict) and cur:
            keys = NASTY_STRINGS if alphabet is NASTY_ALL else ["", "é"]
            for k in keys:
                if k not in cur:
                    out.append(("%s += key %s" % (pstr(p), short(k)), add_key(doc, p, k), [k]))
    return out


# ------------------------------------------------------------------------------------------
# the base project
SGCONFIG = {
    "ruleDirs": ["rules"],
    "utilDirs": ["utils"],
    "testConfigs": [{"testDir": "tests", "snapshotDir": "__snapshots__"}],
    "languageGlobs": {"javascript": ["*.jsx2"], "html": ["*.vue2"]},
    "languageInjections": [{"hostLanguage": "js", "rule": {"pattern": "styled.$TAG`$CONTENT`"}, "injected": "css"}],
}
CUSTOM_LANG = {"mylang": {"libraryPath": "lib/none.so", "languageSymbol": "tree_sitter_mylang", "metaVarChar": "$",
                          "expandoChar": "_", "extensions": ["ml"]}}
RULE = {"id": "r1", "language": "JavaScript", "rule": {"kind": "identifier", "regex": "^a_", "matches": "g1"},
        "fix": "z", "message": "m $A"}
UTIL = {"id": "g1", "language": "JavaScript",
        "rule": {"kind": "identifier", "pattern": "$G", "inside": {"kind": "arguments", "stopBy": "end"}},
        "constraints": {"G": {"regex": "^a"}},
        "utils": {"gl": {"kind": "identifier"}},
        "transform": {"H": {"substring": {"source": "$G", "startChar": 1}}}}
TEST = {"id": "r1", "valid": ["foo(b)", "x"], "invalid": ["foo(a_b, 1, c)"]}
SNAPSHOT = {"id": "r1", "snapshots": {"foo(a_b, 1, c)": {
    "fixed": "foo(z, 1, c)",
    "labels": [{"source": "a_b", "style": "primary", "start": 4, "end": 7},
               {"source": "(a_b, 1, c)", "style": "secondary", "start": 3, "end": 14, "message": "note"}]}}}
SOURCES = {"src/a.js": "foo(a_b, 1, c)\n", "src/b.js": "foo(bar(baz(1, a_b), a_b), a_b, 2)\n", "src/c.js": "a_b\n"}

SCAN = ["scan", "-c", "sgconfig.yml", "--json=stream"]
SCANR = ["scan", "-r", "rules/r1.yml", "--json=stream", "src"]
TESTC = ["test", "-c", "sgconfig.yml"]
TESTU = ["test", "-c", "sgconfig.yml", "--update-all"]
TESTS = ["test", "-c", "sgconfig.yml", "--skip-snapshot-tests"]


def base_files():
    f = {"sgconfig.yml": emit(SGCONFIG) + "\n", "rules/r1.yml": emit(RULE) + "\n", "utils/g1.yml": emit(UTIL) + "\n",
         "tests/r1-test.yml": emit(TEST) + "\n", "tests/__snapshots__/r1-snapshot.yml": emit(SNAPSHOT) + "\n"}
    f.update(SOURCES)
    return f


def case(family, desc, files, argv, values=(), route=""):
    return {"layer": "cli", "family": family, "desc": desc, "files": files, "argv": argv, "values": list(values), "route": route}


# rule files that the library part found to crash, routed through the real commands
def library_findings():
    kinds = [{"kind": k} for k in ["program", "expression_statement", "call_expression", "arguments", "identifier", "number"]]
    docs = {
        "transform-replace-invalid-regex": {"id": "r1", "language": "JavaScript", "rule": {"kind": "identifier", "pattern": "$A"},
                                            "transform": {"B": {"replace": {"source": "$A", "replace": "(", "by": ""}}}, "fix": "$B"},
        "transform-source-empty": {"id": "r1", "language": "JavaScript", "rule": {"kind": "identifier", "pattern": "$A"},
                                   "transform": {"B": {"substring": {"source": ""}}}},
        "transform-source-multibyte": {"id": "r1", "language": "JavaScript", "rule": {"kind": "identifier", "pattern": "$A"},
                                       "transform": {"B": {"substring": {"source": "é"}}}},
        "rewriter-fix-expandStart": {"id": "r1", "language": "JavaScript", "rule": {"kind": "identifier", "pattern": "$A"},
                                     "transform": {"B": {"rewrite": {"source": "$A", "rewriters": ["w"]}}},
                                     "rewriters": [{"id": "w", "rule": {"kind": "identifier", "pattern": "$I"},
                                                    "fix": {"template": "<$I>", "expandStart": {"regex": "^\\($", "stopBy": "end"}}}],
                                     "fix": "$B"},
        "rewriter-fix-expandEnd": {"id": "r1", "language": "JavaScript", "rule": {"kind": "identifier", "pattern": "$A"},
                                   "transform": {"B": {"rewrite": {"source": "$A", "rewriters": ["w"]}}},
                                   "rewriters": [{"id": "w", "rule": {"kind": "identifier", "pattern": "$I"},
                                                  "fix": {"template": "<$I>", "expandEnd": {"regex": "^,$", "stopBy": "end"}}}],
                                   "fix": "$B"},
        "rewriters-duplicate-id": {"id": "r1", "language": "JavaScript", "rule": {"kind": "identifier"},
                                   "rewriters": [{"id": "w", "rule": {"kind": "identifier"}, "fix": "x"},
                                                 {"id": "w", "rule": {"kind": "number"}, "fix": "y"}]},
        "rewriter-rewrites-itself": {"id": "r1", "language": "JavaScript", "rule": {"kind": "identifier", "pattern": "$M"},
                                     "transform": {"Y": {"rewrite": {"source": "$M", "rewriters": ["w"]}}},
                                     "rewriters": [{"id": "w", "rule": {"kind": "identifier", "pattern": "$V"},
                                                    "transform": {"X": {"rewrite": {"source": "$V", "rewriters": ["w"]}}}, "fix": "<$X>"}],
                                     "fix": "$Y"},
        "utils-cycle-inside-has": {"id": "r1", "language": "JavaScript", "rule": {"kind": "identifier", "matches": "a"},
                                   "utils": {"a": {"inside": {"matches": "b", "stopBy": "end"}}, "b": {"has": {"matches": "a", "stopBy": "end"}}}},
        "utils-cycle-precedes-follows": {"id": "r1", "language": "JavaScript", "rule": {"kind": "identifier", "matches": "a"},
                                         "utils": {"a": {"precedes": {"matches": "b", "stopBy": "end"}}, "b": {"follows": {"matches": "a", "stopBy": "end"}}}},
        "utils-cycle-nthChild-ofRule": {"id": "r1", "language": "JavaScript", "rule": {"kind": "identifier", "matches": "a"},
                                        "utils": {"a": {"nthChild": {"position": 1, "ofRule": {"matches": "a"}}}}},
        "utils-cycle-stopBy": {"id": "r1", "language": "JavaScript", "rule": {"any": kinds, "matches": "a"},
                               "utils": {"a": {"inside": {"kind": "program", "stopBy": {"matches": "b"}}}, "b": {"has": {"kind": "number", "stopBy": {"matches": "a"}}}}},
        "utils-cycle-matches-direct": {"id": "r1", "language": "JavaScript", "rule": {"kind": "identifier", "matches": "a"},
                                       "utils": {"a": {"matches": "b"}, "b": {"matches": "a"}}},
    }
    return docs


G_EDGES = [
    ("matches", lambda t: {"rule": {"matches": t}}),
    ("all", lambda t: {"rule": {"all": [{"matches": t}]}}),
    ("any", lambda t: {"rule": {"any": [{"matches": t}]}}),
    ("not", lambda t: {"rule": {"not": {"matches": t}}}),
    # through a LOCAL utility of the global rule (same node): g -> its own util `loc` -> target
    ("via-local-util", lambda t: {"rule": {"matches": "loc"}, "utils": {"loc": {"matches": t}}}),
    # the reference sits NEXT TO a `matches` key of the same rule object
    ("matches+not", lambda t: {"rule": {"matches": "leafg", "not": {"matches": t}}}),
    ("inside", lambda t: {"rule": {"inside": {"matches": t, "stopBy": "end"}}}),
    ("has", lambda t: {"rule": {"has": {"matches": t, "stopBy": "end"}}}),
    ("precedes", lambda t: {"rule": {"precedes": {"matches": t, "stopBy": "end"}}}),
    ("follows", lambda t: {"rule": {"follows": {"matches": t, "stopBy": "end"}}}),
    ("inside.stopBy", lambda t: {"rule": {"inside": {"kind": "program", "stopBy": {"matches": t}}}}),
    ("has.stopBy", lambda t: {"rule": {"has": {"kind": "number", "stopBy": {"matches": t}}}}),
    ("precedes.stopBy", lambda t: {"rule": {"precedes": {"kind": "number", "stopBy": {"matches": t}}}}),
    ("follows.stopBy", lambda t: {"rule": {"follows": {"kind": "number", "stopBy": {"matches": t}}}}),
    ("nthChild.ofRule", lambda t: {"rule": {"nthChild": {"position": 1, "ofRule": {"matches": t}}}}),
    ("constraints", lambda t: {"rule": {"any": [{"kind": "identifier"}, {"kind": "arguments"}, {"kind": "program"}], "pattern": "$Q"},
                               "constraints": {"Q": {"matches": t}}}),
]


N_COMPOSITE = 6   # the first six edges are same-node edges (matches, all, any, not, via-local-util, matches+not)


def canonical(parts):
    n = len(parts)
    return min(tuple(parts[(i + r) % n] for i in range(n)) for r in range(n))


def build_cases(tier):
    quick = tier == "quick"
    alpha = NASTY_REDUCED if quick else NASTY_ALL
    cases = []
    base = base_files()

    def with_file(path, text, extra=None):
        f = dict(base)
        f[path] = text
        if extra:
            f.update(extra)
        return f

    cases.append(case("base", "unchanged project: scan", base, SCAN))
    cases.append(case("base", "unchanged project: test", base, TESTC))
    cases.append(case("base", "unchanged project: test --update-all", base, TESTU))
    # A. sgconfig.yml
    for desc, doc, vals in substitutions(SGCONFIG, alpha, pathy_slots=("ruleDirs", "utilDirs", "testDir", "snapshotDir")):
        files = with_file("sgconfig.yml", emit(doc) + "\n")
        top = desc.split("/")[1].split(" ")[0] if desc.startswith("/") and len(desc.split("/")) > 1 else ""
        cmds = [TESTC] if top.startswith("testConfigs") else [SCAN]
        if not quick:
            cmds = [SCAN, TESTC]
        for argv in cmds:
            cases.append(case("sgconfig:single", "sgconfig.yml %s ; %s" % (desc, argv[0]), files, argv, vals, "subst:sgconfig"))
    # B. customLanguages (no valid base entry exists without a parser library: typed skeleton + substitutions)
    libs = ["lib/none.so", "sgconfig.yml", vlib.SHIM]
    for lib in libs:
        cl = _copy(CUSTOM_LANG)
        cl["mylang"]["libraryPath"] = lib
        doc = dict(SGCONFIG, customLanguages=cl)
        cases.append(case("sgconfig:customLanguages", "customLanguages libraryPath=%s" % os.path.basename(lib),
                          with_file("sgconfig.yml", emit(doc) + "\n"), SCAN, [], "subst:customLanguages"))
    for desc, cl, vals in substitutions(CUSTOM_LANG, alpha):
        doc = dict(SGCONFIG, customLanguages=cl)
        cases.append(case("sgconfig:customLanguages", "customLanguages%s" % desc, with_file("sgconfig.yml", emit(doc) + "\n"),
                          SCAN, vals, "subst:customLanguages"))
    # C. rule-test file
    for desc, doc, vals in substitutions(TEST, alpha):
        files = with_file("tests/r1-test.yml", emit(doc) + "\n")
        for argv in ([TESTC, TESTU] if quick else [TESTC, TESTU, TESTS]):
            cases.append(case("testfile:single", "r1-test.yml %s ; %s" % (desc, " ".join(argv[3:]) or "test"), files, argv, vals, "subst:testfile"))
    # D. snapshot file
    for desc, doc, vals in substitutions(SNAPSHOT, alpha):
        files = with_file("tests/__snapshots__/r1-snapshot.yml", emit(doc) + "\n")
        for argv in ([TESTC, TESTU] if (not quick or desc.startswith("/id ")) else [TESTC]):
            cases.append(case("snapshot:single", "r1-snapshot.yml %s ; %s" % (desc, " ".join(argv[3:]) or "test"), files, argv, vals, "subst:snapshot"))
    # E. global utility rule file through utilDirs
    for desc, doc, vals in substitutions(UTIL, alpha, max_depth=1 if quick else None):
        gid = doc.get("id") if isinstance(doc, dict) and isinstance(doc.get("id"), str) else "g1"
        rule = _copy(RULE)
        rule["rule"]["matches"] = gid
        files = with_file("utils/g1.yml", emit(doc) + "\n", {"rules/r1.yml": emit(rule) + "\n"})
        cases.append(case("utilfile:single", "utils/g1.yml %s" % desc, files, SCAN, vals, "subst:utilfile"))
    # F. the library part's crashing rule files through every command
    for name, doc in library_findings().items():
        vals = ["é"] if name == "transform-source-multibyte" else []
        files = with_file("rules/r1.yml", emit(doc) + "\n")
        files.pop("tests/__snapshots__/r1-snapshot.yml")
        for argv in (SCAN, SCANR, TESTC, TESTU):
            cases.append(case("rulefile:library-finding", "%s ; %s" % (name, " ".join(argv[:2] + argv[3:4])), files, argv, vals, "rule:" + name))
    # G. global utility rule cycles through utilDirs
    max_len = 1 if quick else 3
    combos = [c for n in range(1, max_len + 1) for c in itertools.product(range(len(G_EDGES)), repeat=n)]
    if quick:
        # cycles of length 2 through same-node edges only (a direct self-reference is a special case
        # in the loader, so length 1 alone says little about the general cycle check)
        combos += list(itertools.product(range(N_COMPOSITE), repeat=2))
    for combo in combos:
        n = len(combo)
        if True:
            files = dict(base)
            files.pop("utils/g1.yml")
            # only the small sources: a well-founded recursive rule may need time exponential in the tree size
            files.pop("src/b.js")
            parts = []
            for i, e in enumerate(combo):
                name, build = G_EDGES[e]
                parts.append(name)
                g = {"id": "g%d" % i, "language": "JavaScript"}
                g.update(build("g%d" % ((i + 1) % n)))
                files["utils/g%d.yml" % i] = emit(g) + "\n"
            files["utils/leafg.yml"] = emit({"id": "leafg", "language": "JavaScript", "rule": {"kind": "number"}}) + "\n"
            rule = {"id": "r1", "language": "JavaScript",
                    "rule": {"any": [{"kind": "identifier"}, {"kind": "arguments"}, {"kind": "program"}, {"kind": "number"}], "matches": "g0"}}
            files["rules/r1.yml"] = emit(rule) + "\n"
            composite = all(e < N_COMPOSITE for e in combo)
            route = "%s:%s" % ("cycle-composite-only" if composite else "cycle-via-other-operator", ">".join("G:" + p for p in canonical(parts)))
            cases.append(case("utildirs:cycle:len%d" % n, "global utility cycle %s" % ">".join(parts), files, SCAN, [], route))
    # H. raw byte strings in every file kind
    raws = {"empty": b"", "invalid-utf8": b"id: \xff\xfe\n", "nul": b"id: a\x00b\n", "separator-only": b"---\n", "open-brace": b"{",
            "tab": b"id: a\n\tb: c\n", "alias-loop": b"a: &a [*a]\n", "deep-list": b"[" * 5000, "bom": b"\xef\xbb\xbfid: r1\n",
            "binary": bytes(range(256))}
    if quick:
        raws = {k: raws[k] for k in ("empty", "invalid-utf8", "open-brace", "alias-loop", "deep-list")}
    for path in ["sgconfig.yml", "rules/r1.yml", "utils/g1.yml", "tests/r1-test.yml", "tests/__snapshots__/r1-snapshot.yml"]:
        for name, data in raws.items():
            files = with_file(path, {"hex": data.hex()})
            for argv in (SCAN, TESTC):
                if argv is SCAN and path.startswith("tests/"):
                    continue
                cases.append(case("raw", "%s = %s ; %s" % (path, name, argv[0]), files, argv, [], "raw:" + name))
    # a directory where a file is expected, and a rule directory that does not exist
    files = dict(base)
    files.pop("rules/r1.yml")
    files["rules/r1.yml/inner.yml"] = emit(RULE) + "\n"
    cases.append(case("raw", "rules/r1.yml is a directory ; scan", files, SCAN, [], "raw:dir-as-file"))
    return cases


# ------------------------------------------------------------------------------------------
def materialise(root, c):
    tree = {}
    for p, content in c["files"].items():
        tree[p] = bytes.fromhex(content["hex"]) if isinstance(content, dict) else content
    vlib.write_tree(root, tree)
    for d in ("rules", "utils", "tests", "src"):
        os.makedirs(os.path.join(root, d), exist_ok=True)


def norm_msg(msg, values):
    first = msg.strip().splitlines()[0] if msg.strip() else ""
    for v in sorted([v for v in values if len(v) >= 2 or not v.isascii()], key=len, reverse=True):
        first = first.replace(v, "<v>")
    first = re.sub(r'"(?:[^"\\]|\\.)*"', '"_"', first)
    first = re.sub(r"[0-9]+", "#", first)
    return first[:140]


def panic_file(at):
    """`crates/config/src/x.rs:78:40` -> `x.rs` (file only: stable under edits elsewhere in the file)"""
    return at.split(":")[0].rsplit("/", 1)[-1]


def judge(c, code, err):
    kind = vlib.is_crash(code, err)
    if not kind:
        return []
    text = err.decode("utf-8", "replace")
    # thread ids, scratch paths and line numbers differ from run to run / edit to edit: digits are masked
    # in what is stored (the panic location is kept as reported)
    masked = re.sub(r"[0-9]+", "#", text)
    cmd = c["argv"][0] + ("-r" if "-r" in c["argv"] else "")
    if kind == "timeout" and "panicked at" in text:
        # a panic on a worker thread after which the process never exits
        m = re.search(r"panicked at ([^\n]*):\n(.*)", text, re.S)
        return [("cli:%s:panic+hang:%s:%s" % (cmd, panic_file(m.group(1)), norm_msg(m.group(2), c["values"])), {"exit": code, "at": m.group(1), "stderr": masked[-600:]})]
    if "overflowed its stack" in text:
        return [("cli:%s:abort:stack-overflow:%s" % (cmd, c["route"]), {"exit": code, "stderr": masked[-600:]})]
    if kind == "panic":
        m = re.search(r"panicked at ([^\n]*):\n(.*)", text, re.S)
        msg = m.group(2) if m else text
        return [("cli:%s:panic:%s:%s" % (cmd, panic_file(m.group(1)) if m else "", norm_msg(msg, c["values"])), {"exit": code, "at": m.group(1) if m else None, "stderr": masked[-600:]})]
    if kind == "timeout":
        return [("cli:%s:hang:%s" % (cmd, c["route"]), {"exit": code, "stderr": masked[-300:]})]
    return [("cli:%s:%s:%s" % (cmd, kind.replace(" ", ""), c["route"]), {"exit": code, "stderr": masked[-600:]})]


def run_case(binary, root, c):
    materialise(root, c)
    code, out, err = vlib.run_cli(binary, c["argv"], cwd=root, timeout=HANG_S)
    return code, out, err, judge(c, code, err)


def main(argv):
    args = vlib.parse_args(argv)
    rep = vlib.Reporter(PROP, args)
    binary = vlib.build_cli()
    if args["replay"]:
        return replay(binary, args["replay"])
    base = vlib.scratch("c11")
    cases = build_cases(args["tier"])
    for n, c in enumerate(cases):
        c["_n"] = n

    def work(c):
        import shutil
        root = os.path.join(base, "p%06d" % c["_n"])
        os.makedirs(root)
        code, out, err, verdicts = run_case(binary, root, c)
        shutil.rmtree(root, ignore_errors=True)
        return code, out, err, verdicts

    results = vlib.pmap(work, cases, workers=16)
    per_family, exit_codes, errors = {}, {}, {}
    nontrivial = 0
    samples, seen_fam = [], set()
    for c, (code, out, err, verdicts) in zip(cases, results):
        fam = per_family.setdefault(c["family"], {"runs": 0, "exit_0": 0, "error_exit": 0, "with_findings_or_tests_run": 0, "crashes": 0})
        fam["runs"] += 1
        exit_codes[str(code)] = exit_codes.get(str(code), 0) + 1
        ran = (c["argv"][0] == "scan" and b'"ruleId"' in out) or (c["argv"][0] == "test" and b"Running" in out and b"Running 0" not in out)
        if verdicts:
            fam["crashes"] += 1
        elif code == 0 or ran:
            fam["exit_0"] += code == 0
        if not verdicts and code != 0 and not ran:
            fam["error_exit"] += 1
            first = norm_msg(re.sub(r"\x1b\[[0-9;]*m", "", err.decode("utf-8", "replace")).replace(base, "<root>"), c["values"])
            errors[first] = errors.get(first, 0) + 1
        if ran:
            fam["with_findings_or_tests_run"] += 1
            nontrivial += 1
        pc = {k: v for k, v in c.items() if k != "_n"}
        for sig, detail in verdicts:
            pc2 = dict(pc)
            pc2["observed"] = detail
            rep.violation(sig, pc2)
        if c["family"] not in seen_fam and len(samples) < 8 and c["family"] != "base":
            seen_fam.add(c["family"])
            samples.append({"family": c["family"], "desc": c["desc"], "argv": c["argv"], "exit": code,
                            "stderr_head": err.decode("utf-8", "replace")[:160]})
    tier = args["tier"]
    coverage = {
        "evaluations": len(cases),
        "distinct_nontrivial": nontrivial,
        "rule": ("one case = one project on disk + one real `ast-grep` command; cases = every single substitution of every slot of sgconfig.yml, "
                 "a typed customLanguages entry, the rule-test file, the snapshot file and a global utility rule file by every value of the "
                 "%s alphabet (+ path-shaped values for directory slots, + an added key per nasty string for map slots); every global "
                 "utility rule cycle of length 1..%d over 14 operator positions loaded through utilDirs; the crashing rule files of the "
                 "library part through scan -c / scan -r / test / test --update-all; raw byte strings in every file kind. Non-trivial = the "
                 "command got past loading (scan reported a finding, or test ran >= 1 test)") % ("reduced" if tier == "quick" else "full", 1 if tier == "quick" else 3),
        "exhaustive": True,
        "runs_per_family": per_family,
        "exit_codes": exit_codes,
        "distinct_error_messages": len(errors),
        "most_frequent_error_messages": sorted(errors.items(), key=lambda kv: (-kv[1], kv[0]))[:15],
        "bounds": {"alphabet": [short(v) for v in (NASTY_REDUCED if tier == "quick" else NASTY_ALL)], "path_values": PATHY,
                   "sgconfig_slots": len(paths_of(SGCONFIG)), "custom_language_slots": len(paths_of(CUSTOM_LANG)),
                   "test_file_slots": len(paths_of(TEST)), "snapshot_slots": len(paths_of(SNAPSHOT)), "util_file_slots": len(paths_of(UTIL)),
                   "util_file_slots_substituted": "top level only" if tier == "quick" else "all",
                   "cycle_edges": [n for n, _ in G_EDGES], "library_findings": sorted(library_findings()), "hang_timeout_s": HANG_S},
        "samples": samples,
    }
    assumptions = [
        "CLI oracle = vlib.is_crash only (exit 101 / `panicked at` / death by signal / no result within 10 s); every ordinary exit code is accepted",
        "customLanguages: no tree-sitter parser library is available offline, so only the rejecting paths of the dynamic loader are reached (missing file, text file, a shared object without the symbol)",
        "projects live under /verif/.build/tmp/c11; hash seeds are owned by the LD_PRELOAD shim",
    ]
    return rep.finish("exploration", coverage, assumptions, merge_into_existing=True)


def replay(binary, path):
    doc = json.load(open(path))
    c = doc["case"]
    if c.get("layer") != "cli":
        print("not a CLI-layer case: replay it with the Rust binary (harness c11 --replay)")
        return 2
    root = vlib.scratch("c11_replay")
    code, out, err, verdicts = run_case(binary, root, c)
    print("case:", c["family"], "-", c["desc"])
    print("argv:", c["argv"])
    print("expected: any exit without panic / signal / hang")
    print("observed exit:", code, "stderr:", err.decode("utf-8", "replace")[-500:].replace("\n", " | "))
    for sig, detail in verdicts:
        print("STILL-VIOLATES sig=%s" % sig)
    if verdicts:
        return 1
    print("no violation observed")
    return 0


if __name__ == "__main__":
    sys.exit(main(sys.argv[1:]))
