"""C17 — files are processed independently, whatever the thread count or schedule.

Engine E2: the REAL ast-grep binary built with `--cfg ast_grep_verif` runs its walker threads and
its printer thread under a cooperative scheduler (crates/cli/src/utils/verif_sched.rs): every
take-next-path, every tx.send and every rx.recv is a schedule point; this module is the outer
stateless explorer: DFS over choice prefixes with iterative preemption bounding, crossed with
every subset of faulted files. Each execution is one process; a schedule replays identically.

Oracle per complete schedule: the multiset of JSON records == union of the single-file runs;
output well-formed for the style; exit status identical to the reference; no deadlock; trace
well-formed. A supplementary, NON-deciding pass runs the un-hooked binary with the real
`ignore` walker at -j 1..16."""
import collections, itertools, json, os, re, sys
import vlib

PROP = "C17"

RULES = [
    {"id": "r-foo", "language": "js", "rule": {"pattern": "foo($A)"}, "severity": "error", "message": "foo $A"},
    {"id": "r-bar", "language": "js", "rule": {"pattern": "bar($A)"}, "severity": "warning", "message": "bar $A", "fix": "baz($A)"},
    {"id": "r-div", "language": "html", "rule": {"pattern": "<div>$$$A</div>"}, "severity": "hint", "message": "div"},
    {"id": "r-css", "language": "css", "rule": {"kind": "plain_value", "regex": "^red$"}, "severity": "info", "message": "red"},
    {"id": "r-ts", "language": "typescript", "rule": {"pattern": "foo($A)"}, "severity": "warning", "message": "ts foo $A"},
    {"id": "r-tsx", "language": "tsx", "rule": {"pattern": "foo($A)"}, "severity": "warning", "message": "tsx foo $A"},
]
# every project has this sgconfig.yml next to r.yml: one extension (.ts) is split between two
# languages by file name, so the language of a file must not depend on what its worker saw before
SGCONFIG = b'{"ruleDirs": ["norules"], "languageGlobs": {"tsx": ["*.page.ts"]}}\n'


FILES = {
    "a.js": b"foo(1)\nbar(2)\n",              # findings of both rules -> 2 items
    "b.js": b"foo(3)\nfoo(4)\nbar(5)\n",      # same rules as a.js: collides with it
    # host + TWO injected documents of different languages (they come out of a map that every
    # worker thread builds with its own hash keys: what is scanned must not depend on who took the file)
    "c.html": b"<div>x</div>\n<style>a { color: red }</style>\n<script>foo(6); bar(7)</script>\n",
    "d.js": b"nothing()\n",                   # eligible, no finding
    "e.js": b"",                              # empty: skipped by read_file
    "f.js": b"foo(8) \xff\xfe\n",             # not UTF-8: skipped
    "g.js": b"foo(9)\n",                      # faulted in some runs (unreadable)
    # the same three kinds of skipped file at other positions of the (sorted) work queue: FIRST
    # and BETWEEN the files with findings — a skip must not affect the files taken after it
    "0.html": b"<script>foo(10)</script>\n",
    "p.ts": b"foo(12)\n", "q.page.ts": b"foo(13)\n", "r.ts": b"foo(14)\n",
    # bigger than 3 MB but only two lines: NOT oversized (that needs > 3 MB AND > 200 000 lines)
    "big.js": b"foo(11)\nlet s = '" + b"a" * 3_100_000 + b"'\n",
    "0e.js": b"", "0f.js": b"foo(8) \xff\xfe\n", "0g.js": b"foo(9)\n",
    "a5e.js": b"", "a5f.js": b"foo(8) \xff\xfe\n", "a5g.js": b"foo(9)\n",
}
POSITIONED_SKIPS = ["0e.js", "0f.js", "0g.js", "a5e.js", "a5f.js", "a5g.js", "0.html", "big.js"]


def rules_text():
    return "\n---\n".join(json.dumps(r) for r in RULES)


def parse_json(style, out):
    """returns list of records or raises ValueError if the output is not well-formed for the style"""
    text = out.decode()
    if style == "stream":
        return [json.loads(l) for l in text.splitlines() if l.strip()]
    v = json.loads(text) if text.strip() else []
    if not isinstance(v, list):
        raise ValueError("not a JSON array")
    return v


def rec_key(r):
    return (r["file"], r.get("ruleId"), r["range"]["byteOffset"]["start"], r["range"]["byteOffset"]["end"], r["text"], r.get("message"), r.get("replacement"))


def parse_trace(path):
    pts, status = [], None
    if not os.path.exists(path):
        return None, "NOTRACE"
    for l in open(path).read().splitlines():
        if l in ("DEADLOCK", "BADPREFIX"):
            status = l
            continue
        if l.startswith("done"):
            continue
        m = re.match(r"(\d+) enabled=\[([^\]]*)\] choice=(\d+) who=(\d+) kind=(\w+) running_first=(\w+) detail=(.*)", l)
        if not m:
            return None, "GARBLED:" + l
        enabled = [int(x) for x in m.group(2).split(",") if x.strip()]
        pts.append({"enabled": enabled, "choice": int(m.group(3)), "who": int(m.group(4)), "kind": m.group(5), "running_first": m.group(6) == "true", "detail": m.group(7)})
    return pts, status


class Explorer:
    def __init__(self, rep, binary, root, tier):
        self.rep, self.binary, self.root, self.tier = rep, binary, root, tier
        self.runs = 0
        self.orders = collections.Counter()
        self.schedules_with_overtake = 0
        self.max_points = 0

    def run_once(self, proj, argv, T, prefix, faults, tag):
        trace = os.path.join(self.root, f"trace_{tag}.txt")
        if os.path.exists(trace):
            os.remove(trace)
        env = {"VERIF_THREADS": str(T), "VERIF_SCHED": ",".join(map(str, prefix)), "VERIF_TRACE": trace, "VERIF_FAULTS": ",".join(faults)}
        # (a burst run makes one hand-off per file and schedule point: it gets a longer limit)
        code, out, err = vlib.run_cli(self.binary, argv, proj, extra_env=env, timeout=120 if os.path.exists(os.path.join(proj, "m0000.js")) else 30)
        pts, status = parse_trace(trace)
        return code, out, err, pts, status


_REF_CACHE = {}
_REF_LOCK = __import__("threading").Lock()


RUN_ARGV = {"run-infer": ["run", "-p", "foo($A)"], "run-lang": ["run", "-p", "foo($A)", "-l", "js"]}


def reference(binary, root, files, faults, style, tag="x", run_mode=None):
    """union of the single-file, single-thread runs (un-hooked scheduling: VERIF_THREADS unset).
    Single-file results are cached by (name, content, faulted?, style) and computed in parallel."""
    def one(name):
        key = (name, files[name], name in faults, style, run_mode)
        with _REF_LOCK:
            if key in _REF_CACHE:
                return _REF_CACHE[key]
        d = os.path.join(root, f"ref_{tag}_" + name.replace(".", "_"))
        os.makedirs(d, exist_ok=True)
        vlib.write_tree(d, {name: files[name], "r.yml": rules_text(), "sgconfig.yml": SGCONFIG})
        env = {"VERIF_FAULTS": ",".join(faults)}
        if run_mode == "scan-json-U":
            # JSON output together with --update-all: the worker then sends one leading buffer of fix
            # diffs per file (empty for a file without a fixable finding) before the buffers of matches
            argv1 = ["scan", "-r", "r.yml", f"--json={style}", "-U", "-j", "1", name]
        else:
            argv1 = (RUN_ARGV[run_mode] + [f"--json={style}", "-j", "1", name]) if run_mode else ["scan", "-r", "r.yml", f"--json={style}", "-j", "1", name]
        code, out, err = vlib.run_cli(binary, argv1, d, extra_env=env)
        if vlib.is_crash(code, err):
            res = ("crash", f"reference run crashed on {name}: {err[-300:]!r}")
        else:
            res = ("ok", parse_json(style, out))
        with _REF_LOCK:
            _REF_CACHE[key] = res
        return res
    results = vlib.pmap(one, sorted(files), workers=16)
    recs = []
    for kind, val in results:
        if kind == "crash":
            return None, val
        recs.extend(val)
    any_error = (run_mode not in RUN_ARGV) and any(r.get("severity") == "error" for r in recs)  # `run --json` always exits 0
    return (sorted(rec_key(r) for r in recs), 1 if any_error else 0), None


def explore_config(ex, files, faults, T, style, bound, update_all=False, idx=0, pool=None):
    """all schedules with at most `bound` preemptions; executions run in parallel (each is an
    independent process; a task = one choice prefix). Returns (#schedules, #distinct outcomes)."""
    import concurrent.futures, threading
    rep = ex.rep
    run_mode = update_all if isinstance(update_all, str) else None   # "run-infer" / "run-lang": `run -p` instead of `scan`
    update_all = update_all is True
    tag = f"cfg{idx}_{T}_{style}_{'U' if update_all else (run_mode or 'scan')}"
    proj = os.path.join(ex.root, "proj_" + tag)
    os.makedirs(proj, exist_ok=True)
    tree = dict(files)
    tree["r.yml"] = rules_text().encode(); tree["sgconfig.yml"] = SGCONFIG
    vlib.write_tree(proj, tree)
    case_base = {"files": ({k: (v.decode("latin-1") if len(v) < 10000 else "<%d bytes: %s...>" % (len(v), v[:40].decode("latin-1"))) for k, v in files.items()} if len(files) < 20 else {"<burst>": f"{len(files)} files m%04d.js = foo(i)"}), "faults": sorted(faults), "threads": T, "style": style, "update_all": update_all, "run_mode": run_mode}
    if update_all:
        argv = ["scan", "-r", "r.yml", "-U", "."]
        want = None
    else:
        argv = ["scan", "-r", "r.yml", f"--json={style}", "-U", "."] if run_mode == "scan-json-U" else (RUN_ARGV[run_mode] + [f"--json={style}", "."]) if run_mode else ["scan", "-r", "r.yml", f"--json={style}", "."]
        want, problem = reference(ex.binary, ex.root, files, faults, style, tag, run_mode)
        if problem:
            vlib.machinery(problem)
    lock = threading.Lock()
    counter = itertools.count()
    outcomes = collections.Counter()
    first_after = []
    fatal = []

    def one(prefix, cost):
        """run one schedule; returns the list of (prefix, cost) children"""
        k = next(counter)
        if update_all or run_mode == "scan-json-U":
            pdir = os.path.join(ex.root, f"proj_{tag}_{k % 64}_{threading.get_ident()}")
            os.makedirs(pdir, exist_ok=True)
            vlib.write_tree(pdir, tree)  # private copy, restored before every execution
        else:
            pdir = proj
        code, out, err, pts, status = ex.run_once(pdir, argv, T, prefix, faults, f"{tag}_{threading.get_ident()}")
        case = dict(case_base, schedule=prefix)
        crash = vlib.is_crash(code, err)
        if status == "BADPREFIX" or (pts is None):
            fatal.append(f"schedule replay diverged or trace unreadable: {status} prefix={prefix} config={tag}")
            return []
        if status == "DEADLOCK" or code == 98:
            rep.violation("deadlock:no-enabled-participant", dict(case, trace_len=len(pts)))
            return []
        if crash:
            rep.violation(f"crash:{crash}:{'update' if update_all else style}", dict(case, stderr=err.decode(errors='replace')[-400:]))
            return []
        if [p["choice"] for p in pts[:len(prefix)]] != prefix:
            fatal.append(f"trace does not follow its prefix: {prefix} config={tag}")
            return []
        with lock:
            ex.max_points = max(ex.max_points, len(pts))
            if update_all:
                after = vlib.read_tree(pdir)
                m = re.search(rb"Applied (\d+) changes", out)
                obs = (tuple(sorted((k2, v) for k2, v in after.items())), m.group(1) if m else None, code)
                if not first_after:
                    first_after.append(obs)
                elif obs != first_after[0]:
                    rep.violation("update-all:result-depends-on-schedule", dict(case, applied=(m.group(1).decode() if m else None)))
                outcomes[hash(obs)] += 1
            else:
                try:
                    recs = parse_json(style, out)
                except ValueError as e:
                    rep.violation(f"output-malformed:{style}", dict(case, error=str(e), stdout=out.decode(errors="replace")[:400]))
                    return []
                got = sorted(rec_key(r) for r in recs)
                if got != want[0]:
                    missing = [x for x in want[0] if x not in got]
                    extra = [x for x in got if x not in want[0]]
                    kind = "missing" if missing and not extra else "extra" if extra and not missing else "different"
                    rep.violation(f"records-{kind}:{style}", dict(case, missing=missing[:5], extra=extra[:5]))
                # the printed error summary is a function of the findings
                m2 = re.search(rb"(\d+) error\(s\) found", err)
                n_err = sum(1 for r in recs if r.get("severity") == "error")
                if run_mode not in RUN_ARGV and (int(m2.group(1)) if m2 else 0) != n_err:
                    rep.violation("error-summary-differs-from-error-findings", dict(case, summary=(m2.group(0).decode() if m2 else None), error_findings=n_err))
                if (1 if code != 0 else 0) != want[1]:
                    rep.violation("exit-status-depends-on-schedule-or-differs-from-per-file-runs", dict(case, code=code, want=want[1]))
                order = tuple(r["file"] for r in recs)
                outcomes[order] += 1
                ex.orders[(tag, order)] += 1
            sends = [p for p in pts if p["kind"] == "send"]
            if len({p["who"] for p in sends}) >= 2:
                ex.schedules_with_overtake += 1
        kids = []
        if bound < 0:
            return kids    # burst configurations: the default schedule only (a run takes many seconds)
        for i in range(len(prefix), len(pts)):
            p = pts[i]
            for alt in range(1, len(p["enabled"])):
                # switching away from the running participant while it is still enabled is a preemption
                c = cost + (1 if p["running_first"] else 0)
                if c <= bound:
                    kids.append(([q["choice"] for q in pts[:i]] + [alt], c))
        return kids

    n = 0
    pending = {pool.submit(one, [], 0)}
    while pending:
        done, pending = concurrent.futures.wait(pending, return_when=concurrent.futures.FIRST_COMPLETED)
        for f in done:
            n += 1
            for (pfx, c) in f.result():
                pending.add(pool.submit(one, pfx, c))
        if fatal:
            for f in pending:
                f.cancel()
            vlib.machinery(fatal[0])
    return n, len(outcomes)


def supplementary(rep, files, binary_plain, root):
    """free-running pass with the real `ignore` walker; NOT deciding, only reported"""
    proj = os.path.join(root, "free")
    os.makedirs(proj, exist_ok=True)
    tree = dict(files)
    tree["r.yml"] = rules_text().encode(); tree["sgconfig.yml"] = SGCONFIG
    vlib.write_tree(proj, tree)
    base = None
    runs = 0
    diffs = 0
    for j in list(range(1, 17)):
        for rep_i in range(2):
            code, out, err = vlib.run_cli(binary_plain, ["scan", "-r", "r.yml", "--json=stream", "-j", str(j), "."], proj)
            runs += 1
            try:
                got = (sorted(rec_key(r) for r in parse_json("stream", out)), code)
            except ValueError:
                got = ("malformed", code)
            if base is None:
                base = got
            elif got != base:
                diffs += 1
    return {"runs": runs, "runs_differing_from_first": diffs, "note": "supplementary sampled pass (real ignore walker, OS scheduling); not part of the verdict unless it differs"}, diffs


def main(argv):
    args = vlib.parse_args(argv)
    rep = vlib.Reporter(PROP, args)
    binary = vlib.build_cli(hooks=True)
    root = vlib.scratch("c17")
    ex = Explorer(rep, binary, root, args["tier"])
    if args["replay"]:
        case = json.load(open(args["replay"]))["case"]
        files = {k: (FILES[k] if v.startswith("<") and k in FILES else v.encode("latin-1")) for k, v in case["files"].items()}
        proj = os.path.join(root, "replay")
        os.makedirs(proj)
        tree = dict(files); tree["r.yml"] = rules_text().encode(); tree["sgconfig.yml"] = SGCONFIG
        vlib.write_tree(proj, tree)
        rm = case.get("run_mode")
        argvv = ["scan", "-r", "r.yml", "-U", "."] if case["update_all"] else ["scan", "-r", "r.yml", f"--json={case['style']}", "-U", "."] if rm == "scan-json-U" else (RUN_ARGV[rm] + [f"--json={case['style']}", "."]) if rm else ["scan", "-r", "r.yml", f"--json={case['style']}", "."]
        outs = []
        for _ in range(2):
            if case["update_all"]:
                vlib.write_tree(proj, tree)
            code, out, err, pts, status = ex.run_once(proj, argvv, case["threads"], case["schedule"], case["faults"], "replay")
            outs.append((code, out, status))
        print("replayed twice, identical observations:", outs[0] == outs[1])
        print("exit code", outs[0][0], "status", outs[0][2])
        print(outs[0][1].decode(errors="replace")[:2000])
        if not case["update_all"]:
            want, _ = reference(binary, root, files, case["faults"], case["style"], "replay", case.get("run_mode"))
            got = sorted(rec_key(r) for r in parse_json(case["style"], outs[0][1]))
            print("records equal to per-file union:", got == want[0])
            return 0 if got == want[0] and (1 if outs[0][0] != 0 else 0) == want[1] else 1
        return 0
    thorough = args["tier"] == "thorough"
    # determinism self-test: one schedule replayed twice must give identical traces and output
    f3 = {k: FILES[k] for k in ("a.js", "b.js", "c.html")}
    proj0 = os.path.join(root, "selftest"); os.makedirs(proj0)
    t0 = dict(f3); t0["r.yml"] = rules_text().encode(); t0["sgconfig.yml"] = SGCONFIG; vlib.write_tree(proj0, t0)
    r1 = ex.run_once(proj0, ["scan", "-r", "r.yml", "--json=stream", "."], 2, [0, 1, 1], [], "self")
    r2 = ex.run_once(proj0, ["scan", "-r", "r.yml", "--json=stream", "."], 2, [0, 1, 1], [], "self")
    if (r1[0], r1[1], r1[3]) != (r2[0], r2[1], r2[3]) or not r1[3]:
        vlib.machinery("the hooked binary is not deterministic under a fixed schedule (or the scheduler is inactive)")
    configs = []
    base_files = ["a.js", "b.js", "c.html"]
    fault_files = ["e.js", "f.js", "g.js"]
    if not thorough:
        # F=3 colliding files, T in {1,2,3}, bound 2 (T=3: bound 1), all three JSON styles for T=2
        # (the deeper bounds run on two colliding files: with the error-total update as a schedule point,
        # bound 2 on three files alone was 2 300 schedules)
        for files_, T, bound, styles in [(base_files, 1, 0, ["stream"]), (["a.js", "b.js"], 2, 2, ["stream"]), (base_files, 2, 1, ["stream", "pretty", "compact"]),
                                         (["a.js", "b.js", "d.js"], 3, 1, ["stream"])]:
            for style in styles:
                configs.append((files_, [], T, style, bound, False))
        # every subset of the skipped/faulted files added to two colliding files, T=2, bound 1
        for k in range(1, len(fault_files) + 1):
            for sub in itertools.combinations(fault_files, k):
                configs.append((["a.js", "b.js"] + list(sub), ["g.js"] if "g.js" in sub else [], 2, "stream", 1, False))
        configs.append((base_files, [], 2, "stream", 1, True))
    else:
        # (bound 3 for all three styles and bound 2 for two styles at T=3 took the tier to 22 min)
        for T, bound, styles in [(1, 0, ["stream"]), (2, 3, ["stream"]), (2, 2, ["pretty", "compact"]), (3, 2, ["stream"]), (3, 1, ["pretty"])]:
            for style in styles:
                # (the two deepest bounds run without the finding-less d.js: with c.html's three documents
                # they alone were 87 000 of 145 000 schedules and took the tier to 20 min)
                deepest = (T, bound) in ((2, 3), (3, 2))
                configs.append((base_files + ([] if deepest else ["d.js"]), [], T, style, bound, False))
        for k in range(0, len(fault_files) + 1):
            for sub in itertools.combinations(fault_files, k):
                configs.append((base_files + list(sub), ["g.js"] if "g.js" in sub else [], 2, "stream", 2, False))
                configs.append((["a.js", "b.js"] + list(sub), ["g.js"] if "g.js" in sub else [], 3, "pretty", 1, False))
        configs.append((base_files, [], 2, "stream", 2, True))
        configs.append((base_files, [], 3, "stream", 1, True))

    # a skipped file FIRST or BETWEEN the files with findings, T=1 (one schedule) and T=2 (bound 1)
    for nm in POSITIONED_SKIPS:
        flt = [nm] if nm.endswith("g.js") else []
        configs.append((["a.js", "b.js", nm], flt, 1, "stream", 0, False))
        configs.append((["a.js", "b.js", nm], flt, 2, "stream", 2 if thorough else 1, False))
    # --json together with -U (files with and without fixable findings interleave empty buffers)
    configs.append((["a.js", "d.js", "b.js", "g.js"], [], 1, "stream", 0, "scan-json-U"))
    configs.append((["a.js", "d.js", "b.js", "g.js"], [], 2, "compact", 2 if thorough else 1, "scan-json-U"))
    configs.append((["a.js", "d.js", "b.js", "g.js"], [], 2, "pretty", 1, "scan-json-U"))
    # one extension split between two languages by languageGlobs: plain and .page.ts files in both
    # visiting orders, on one worker (T=1) and on two
    for fs in (["p.ts", "q.page.ts"], ["q.page.ts", "r.ts"], ["p.ts", "q.page.ts", "r.ts"]):
        configs.append((fs, [], 1, "stream", 0, False))
        configs.append((fs, [], 2, "stream", 1, False))
    # a file above 3 MB with few lines is eligible like any other
    configs.append((["a.js", "big.js", "b.js"], [], 1, "stream", 0, False))
    configs.append((["a.js", "big.js", "b.js"], [], 2, "stream", 1 if thorough else 0, False))
    configs.append((["a.js", "big.js"], [], 1, "stream", 0, "run-infer"))
    # `run -p` (no rule file): language inferred per file (html hosts js) and given with -l
    for mode in ("run-infer", "run-lang"):
        configs.append((base_files, [], 1, "stream", 0, mode))
        configs.append((base_files, [], 2, "stream", 2 if thorough else 1, mode))
        configs.append((["0.html"] + base_files, [], 2, "stream", 1, mode))
    # burst configurations: many one-match files, so that in the schedules where the producers run
    # ahead of the printer (the default schedule keeps the running participant running) thousands of
    # items are in flight before the first recv — queue-capacity / back-pressure bugs need that
    n_burst = 2000 if thorough else 1200
    burst_names = []
    for i in range(n_burst):
        nm = f"m{i:04d}.js"
        FILES[nm] = f"foo({i})\n".encode()
        burst_names.append(nm)
    for T in ([1, 2, 3] if thorough else [1, 2]):
        configs.append((burst_names, [], T, "stream", 0 if thorough else -1, False))
    import concurrent.futures
    results = []
    # the executions of one configuration form a tree (a schedule's children are known only after
    # it ran), so one configuration alone cannot keep 16 cores busy: several configurations are
    # explored at the same time, all feeding the same pool of executions
    def run_cfg(item):
        idx, cfg = item
        names, faults, T, style, bound, upd = cfg
        files = {k: FILES[k] for k in names}
        sub = Explorer(rep, binary, root, args["tier"])
        import time as _t; _s=_t.time()
        n, outcomes = explore_config(sub, files, faults, T, style, bound, upd, idx, pool)
        if os.environ.get("VERIF_DEBUG"): sys.stderr.write("cfg %d %s T=%d b=%d %s: %d schedules %.1fs\n" % (idx, str(names)[:40], T, bound, upd, n, _t.time()-_s))
        return (cfg, n, outcomes, sub)
    with concurrent.futures.ThreadPoolExecutor(max_workers=16) as pool, concurrent.futures.ThreadPoolExecutor(max_workers=6) as outer:
        order = sorted(enumerate(configs), key=lambda ic: -len(ic[1][0]))   # the long burst runs start first
        done = dict(outer.map(lambda ic: (ic[0], run_cfg(ic)), order))
        results = [done[i] for i in range(len(configs))]
    total = sum(r[1] for r in results)
    per_cfg = []
    overtakes = 0
    distinct_orders = set()
    for cfg, n, outcomes, sub in results:
        names, faults, T, style, bound, upd = cfg
        per_cfg.append({"files": names if len(names) < 20 else f"{len(names)} one-match files m0000.js ..", "faults": faults, "threads": T, "style": style, "preemption_bound_completed": bound, "update_all": upd, "schedules": n, "distinct_record_orders_or_outcomes": outcomes, "max_schedule_points": sub.max_points})
        overtakes += sub.schedules_with_overtake
        for (tag, order) in sub.orders:
            distinct_orders.add((tag, order))
    plain = vlib.build_cli(hooks=False)
    supp, diffs = supplementary(rep, {k: FILES[k] for k in FILES if not k.startswith("m") and k not in POSITIONED_SKIPS}, plain, root)
    if diffs:
        rep.violation("free-running:output-differs-between-thread-counts", {"detail": supp})
    samples = [{"files": c["files"], "threads": c["threads"], "style": c["style"], "bound": c["preemption_bound_completed"], "schedules": c["schedules"]} for c in per_cfg[:4]]
    samples.append({"schedule_example": {"threads": 2, "choices": [0, 1, 1], "meaning": "index into the canonical enabled list at each schedule point (take / send / recv)"}})
    coverage = {
        "states": len(distinct_orders) + len(per_cfg),
        "transitions": total,
        "traces_validated_against_impl": total,
        "samples": samples,
        "evaluations": total,
        "distinct_nontrivial": overtakes,
        "rule": "one execution = one complete schedule of the real hooked binary (T controlled walker threads + the printer thread; schedule points: take next path, every tx.send, every rx.recv); schedules enumerated by DFS over choice prefixes with iterative preemption bounding per configuration (files x faulted subset x T x JSON style / -U); states = distinct (configuration, record order) observations + configurations; distinct_nontrivial = schedules in which at least two different producers performed sends (their items really interleave in the channel)",
        "exhaustive": True,
        "configurations": per_cfg,
        "supplementary_free_running": supp,
    }
    return rep.finish("model_checking", coverage, [
        "what is real under E2: the closure body of run_worker (entry filtering, stats, the whole produce_item pipeline, per-item send, Quit on a closed channel), the std mpsc channel, Items::next, consume_items, every printer, error_count, the exit path; what is substituted: `ignore`'s distribution of entries to threads (covered only by the supplementary sampled pass)",
        "unreadable files are injected at the read_file fault point (the sandbox runs as root, so permissions cannot make a file unreadable); empty and non-UTF-8 files are real",
        "exhaustive up to the stated preemption bound per configuration",
    ])
