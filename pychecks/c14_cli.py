"""C14, CLI layer: `ast-grep scan` in a project reports exactly the findings no comment silences and
exactly the `ast-grep-ignore` comments that silenced nothing — in EVERY scanned document, also in
one to which no rule applies (a file every rule excludes through `ignores`, the HTML host
document of a file when the project only has JavaScript rules).

Space: every sequence of <= N lines over a line alphabet (finding of r1 / of r2 / no finding) x
(no comment / trailing comment / own-line comment before) x id lists (none, r1, r2), written to
  src/a.js        both rules apply
  vendor/b.js     r1 is excluded by `ignores: [vendor/**]`, r2 applies
  gen/c.js        every rule is excluded: no rule applies
  page/d.html     the same lines inside <script> (the host document has no rule at all) plus one
                  HTML comment `<!-- ast-grep-ignore -->` in the host document
One `ast-grep scan --json=stream` per project; many layouts share one project (one directory per
layout). The reference is written from the statement (single-line statements only).
Merges into the evidence written by the Rust part (c14)."""
import itertools, json, os, sys
import vlib

PROP = "C14"
RULES = {
    "r1": {"id": "r1", "language": "JavaScript", "severity": "warning", "message": "m1", "rule": {"pattern": "foo($$$)"}, "ignores": ["vendor/**", "gen/**"]},
    "r2": {"id": "r2", "language": "JavaScript", "severity": "error", "message": "m2", "rule": {"pattern": "bar($$$)"}, "ignores": ["gen/**"]},
}
APPLIES = {"src/a.js": ["r1", "r2"], "vendor/b.js": ["r2"], "gen/c.js": [], "page/d.html": ["r1", "r2"]}
STMTS = [("foo(1);", "r1"), ("bar(2);", "r2"), ("baz(3);", None)]
IDLISTS = [("", None), (": r1", ["r1"]), (": r2", ["r2"])]
# a line token = (statement index, comment placement, id list index); placement 0 none, 1 trailing, 2 own line before
TOKENS = [(s, 0, 0) for s in range(len(STMTS))] + [(s, pl, i) for s in range(len(STMTS)) for pl in (1, 2) for i in range(len(IDLISTS))]


def layout(tokens):
    """returns (lines, findings [(line, rule)], comments [(line, own, ids)])"""
    lines, findings, comments = [], [], []
    for s, pl, i in tokens:
        text, rule = STMTS[s]
        tail, ids = IDLISTS[i]
        if pl == 2:
            comments.append((len(lines), True, ids))
            lines.append("// ast-grep-ignore" + tail)
        if rule:
            findings.append((len(lines), rule))
        if pl == 1:
            comments.append((len(lines), False, ids))
            lines.append(text + " // ast-grep-ignore" + tail)
        else:
            lines.append(text)
    return lines, findings, comments


def expected(path, lines, findings, comments, line_offset=0, active=None):
    """set of (ruleId, line) the scan must report for this file"""
    active = APPLIES[path] if active is None else active
    fs = [(l, r) for (l, r) in findings if r in active]
    def governs(c, l):
        return (c[1] and c[0] + 1 == l) or (not c[1] and c[0] == l)
    def names(c, r):
        return c[2] is None or r in c[2]
    out = set()
    for (l, r) in fs:
        if not any(governs(c, l) and names(c, r) for c in comments):
            out.add((r, l + line_offset))
    for c in comments:
        if not any(governs(c, l) and names(c, r) for (l, r) in fs):
            out.add(("unused-suppression", c[0] + line_offset))
    return out


def main(argv):
    args = vlib.parse_args(argv)
    rep = vlib.Reporter(PROP, args)
    binary = vlib.build_cli()
    root = vlib.scratch("c14cli")
    thorough = args["tier"] == "thorough"
    n_max = 3  # both tiers (21^3 layouts x 4 documents)
    seqs = [seq for n in range(1, n_max + 1) for seq in itertools.product(TOKENS, repeat=n)]
    if args["replay"]:
        case = json.load(open(args["replay"]))["case"]
        seqs = [tuple(tuple(t) for t in case["tokens"])]
    # one project holds up to 200 layouts (sub-directories), so the number of CLI runs stays small
    chunks = [seqs[i:i + 200] for i in range(0, len(seqs), 200)]
    stats = {"layouts": 0, "documents": 0, "documents_without_applicable_rule": 0, "expected_unused": 0, "expected_findings": 0, "cli_runs": 0}

    def work(ci):
        chunk = chunks[ci]
        proj = os.path.join(root, f"p{ci}")
        tree = {"sgconfig.yml": "ruleDirs: [rules]\n", "rules/r1.yml": json.dumps(RULES["r1"]), "rules/r2.yml": json.dumps(RULES["r2"])}
        want = {}
        for li, seq in enumerate(chunk):
            lines, findings, comments = layout(seq)
            for path in APPLIES:
                # the ignores globs are relative to the project: layouts live in <kind dir>/<layout>/file
                d, f = path.split("/")
                rel = f"{d}/l{li}/{f}"
                if f.endswith(".html"):
                    body = "<!-- ast-grep-ignore -->\n<script>\n" + "\n".join(lines) + "\n</script>\n"
                    exp = expected(path, lines, findings, comments, line_offset=2)
                    exp.add(("unused-suppression", 0))  # the host document's own comment silences nothing
                else:
                    body = "\n".join(lines) + "\n"
                    exp = expected(path, lines, findings, comments)
                tree[rel] = body
                want[rel] = (exp, seq, path)
        vlib.write_tree(proj, tree)
        code, out, err = vlib.run_cli(binary, ["scan", "--json=stream"], proj, timeout=120)
        return ci, want, code, out, err

    results = vlib.pmap(work, list(range(len(chunks))), workers=16)
    for ci, want, code, out, err in results:
        stats["cli_runs"] += 1
        crash = vlib.is_crash(code, err)
        if crash:
            rep.violation(f"cli:scan:crash:{crash}", {"chunk": ci, "stderr": err.decode(errors="replace")[-300:]})
            continue
        got = {}
        try:
            for line in out.decode().splitlines():
                if line.strip():
                    r = json.loads(line)
                    got.setdefault(r["file"].lstrip("./"), set()).add((r["ruleId"], r["range"]["start"]["line"]))
        except (ValueError, KeyError) as e:
            rep.violation("cli:scan:unparseable-output", {"chunk": ci, "error": str(e)})
            continue
        for rel, (exp, seq, path) in want.items():
            stats["documents"] += 1
            stats["layouts"] += path == "src/a.js"
            if not APPLIES[path]:
                stats["documents_without_applicable_rule"] += 1
            stats["expected_unused"] += sum(1 for e in exp if e[0] == "unused-suppression")
            stats["expected_findings"] += sum(1 for e in exp if e[0] != "unused-suppression")
            g = got.get(rel, set())
            if g != exp:
                missing, extra = sorted(exp - g), sorted(g - exp)
                kind = "unused-suppression-not-reported" if any(m[0] == "unused-suppression" for m in missing) else \
                       "comment-reported-unused-though-it-silences" if any(x[0] == "unused-suppression" for x in extra) else \
                       "suppressed-finding-reported" if extra else "unsuppressed-finding-not-reported"
                where = "no-rule-applies-to-the-file" if not APPLIES[path] else "html-host-document" if path.endswith(".html") and ("unused-suppression", 0) in missing else "some-rule-excluded" if len(APPLIES[path]) == 1 else "all-rules-apply"
                rep.violation(f"cli:{kind}:{where}", {"tokens": [list(t) for t in seq], "file": path, "lines": layout(seq)[0], "missing": missing, "extra": extra})
    # ---- option family (round j): scans that run only part of the project's rules, with the
    # unused-suppression rule switched on explicitly by a severity option. The user asked for the
    # report, so the statement applies as it stands: findings of the rules that run which no comment
    # silences, plus every comment that silenced nothing.
    r1_inline = json.dumps({k: v for k, v in RULES["r1"].items() if k != "ignores"})
    OPTS = [
        ("filter+warning", ["--filter", "^r1$", "--warning=unused-suppression"], ["r1"]),
        ("rule-file+error", ["-r", "rules/r2.yml", "--error=unused-suppression"], ["r2"]),
        ("inline-rules+hint", ["--inline-rules", r1_inline, "--hint=unused-suppression"], ["r1"]),
        ("off-one+info", ["--off=r2", "--info=unused-suppression"], ["r1"]),
        ("all-rules+error", ["--error=unused-suppression"], ["r1", "r2"]),
    ]
    oseqs = [seq for n in range(1, 3) for seq in itertools.product(TOKENS, repeat=n)] if not args["replay"] else seqs
    ostats = {"scans": 0, "documents": 0, "expected_unused": 0}
    oproj = os.path.join(root, "opts")
    otree = {"sgconfig.yml": "ruleDirs: [rules]\n", "rules/r1.yml": json.dumps(RULES["r1"]), "rules/r2.yml": json.dumps(RULES["r2"])}
    for li, seq in enumerate(oseqs):
        otree[f"src/l{li}/a.js"] = "\n".join(layout(seq)[0]) + "\n"
    vlib.write_tree(oproj, otree)

    def owork(oi):
        name, opts, active = OPTS[oi]
        return (oi,) + tuple(vlib.run_cli(binary, ["scan", "--json=stream"] + opts + (["src"] if "-r" in opts or "--inline-rules" in opts else []), oproj, timeout=120))

    for oi, code, out, err in vlib.pmap(owork, list(range(len(OPTS))), workers=len(OPTS)):
        name, opts, active = OPTS[oi]
        ostats["scans"] += 1
        crash = vlib.is_crash(code, err)
        if crash:
            rep.violation(f"cli:scan:crash:{crash}:options={name}", {"options": opts, "stderr": err.decode(errors="replace")[-300:]})
            continue
        got = {}
        try:
            for line in out.decode().splitlines():
                if line.strip():
                    r = json.loads(line)
                    got.setdefault(r["file"].lstrip("./"), set()).add((r["ruleId"], r["range"]["start"]["line"]))
        except (ValueError, KeyError) as e:
            rep.violation(f"cli:scan:unparseable-output:options={name}", {"options": opts, "error": str(e), "stderr": err.decode(errors="replace")[-300:]})
            continue
        for li, seq in enumerate(oseqs):
            lines, findings, comments = layout(seq)
            exp = expected("src/a.js", lines, findings, comments, active=active)
            ostats["documents"] += 1
            ostats["expected_unused"] += sum(1 for e in exp if e[0] == "unused-suppression")
            g = got.get(f"src/l{li}/a.js", set())
            if g != exp:
                missing, extra = sorted(exp - g), sorted(g - exp)
                kind = "unused-suppression-not-reported" if any(m[0] == "unused-suppression" for m in missing) else \
                       "comment-reported-unused-though-it-silences" if any(x[0] == "unused-suppression" for x in extra) else \
                       "suppressed-finding-reported" if extra else "unsuppressed-finding-not-reported"
                rep.violation(f"cli:{kind}:options={name}", {"tokens": [list(t) for t in seq], "options": opts, "rules_that_run": active, "lines": lines, "missing": missing, "extra": extra})
    stats["documents"] += ostats["documents"]
    stats["expected_unused"] += ostats["expected_unused"]
    coverage = {
        "cli_option_family": {"option_sets": [{"name": n, "options": o, "rules_that_run": a} for n, o, a in OPTS], "layouts": len(oseqs), "scans": ostats["scans"], "documents_compared": ostats["documents"], "expected_unused_reports": ostats["expected_unused"],
                              "rule": "every layout of <= 2 line tokens x 5 option sets that run part (or all) of the project's rules with `unused-suppression` switched on by an explicit severity option; same reference as above with the rules that run"},
        "evaluations": stats["documents"],
        "distinct_nontrivial": stats["expected_unused"],
        "rule": "CLI layer: one evaluation = one document of one layout scanned by `ast-grep scan --json=stream` in a project (sgconfig.yml, two rules with `ignores` globs) and compared with the reference set of (rule id, line) — findings no comment silences plus every comment that silenced nothing; layouts = every sequence of <= N line tokens (3 statements x {no comment, trailing, own-line before} x 3 id lists), each written to four files: all rules apply / one rule excluded / no rule applies / inside <script> of an html file whose host document has one comment of its own; distinct_nontrivial = unused-suppression reports expected",
        "samples": [{"tokens": [list(t) for t in seqs[len(seqs) // 3]], "lines": layout(seqs[len(seqs) // 3])[0]}],
        "exhaustive": True,
        "cli_layouts": stats["layouts"], "cli_documents_without_applicable_rule": stats["documents_without_applicable_rule"],
        "cli_expected_findings": stats["expected_findings"], "cli_runs": stats["cli_runs"], "cli_max_lines": n_max,
    }
    return rep.finish("exploration", coverage, ["CLI layer: single-line statements only; the reference is the statement's rule (own-line comment governs the next line, trailing comment its own line, an empty id list names every rule)"], merge_into_existing=True)
